---------------------------- MODULE Chk8 ----------------------------
EXTENDS Integers, Sequences, FiniteSets, TLC, Json, IOUtils
Tr == ndJsonDeserialize(IOEnv.TRACE)
Abs(x) == IF x < 0 THEN -x ELSE x
RECURSIVE Gcd(_, _)
Gcd(a, b) == IF b = 0 THEN Abs(a) ELSE Gcd(Abs(b), Abs(a) % Abs(b))
MaxF == 126
MinF == -126
(* extended value: [c |-> "nan"|"minf"|"pinf"|"fin", n, d] (d > 0) ; sqrt exact results are given as [c |-> "sqrt", n] meaning sqrt(n) *)
Dec(raw) == IF raw = -128 THEN [c |-> "minf", n |-> 0, d |-> 1] ELSE IF raw = -127 THEN [c |-> "nan", n |-> 0, d |-> 1]
            ELSE IF raw = 127 THEN [c |-> "pinf", n |-> 0, d |-> 1] ELSE [c |-> "fin", n |-> raw, d |-> 1]
Nan == [c |-> "nan", n |-> 0, d |-> 1]
PInf == [c |-> "pinf", n |-> 0, d |-> 1]
MInf == [c |-> "minf", n |-> 0, d |-> 1]
Fin(n, d) == IF d < 0 THEN [c |-> "fin", n |-> -n, d |-> -d] ELSE [c |-> "fin", n |-> n, d |-> d]
IsInf(x) == x.c \in {"minf", "pinf"}
Sg(x) == IF x.c = "pinf" THEN 1 ELSE IF x.c = "minf" THEN -1 ELSE IF x.n > 0 THEN 1 ELSE IF x.n < 0 THEN -1 ELSE 0
InfOf(s) == IF s > 0 THEN PInf ELSE MInf
Trunc(n, d) == IF n >= 0 THEN n \div d ELSE -((-n) \div d)      \* d > 0
Exact(op, x, y) ==
  IF x.c = "nan" \/ (op \notin {"neg", "abs", "sqrt", "assign"} /\ y.c = "nan") THEN Nan
  ELSE IF op = "add" THEN (IF IsInf(x) /\ IsInf(y) THEN (IF x.c = y.c THEN x ELSE Nan) ELSE IF IsInf(x) THEN x ELSE IF IsInf(y) THEN y ELSE Fin(x.n + y.n, 1))
  ELSE IF op = "sub" THEN (IF IsInf(x) /\ IsInf(y) THEN (IF x.c # y.c THEN x ELSE Nan) ELSE IF IsInf(x) THEN x ELSE IF IsInf(y) THEN InfOf(-Sg(y)) ELSE Fin(x.n - y.n, 1))
  ELSE IF op = "mul" THEN (IF IsInf(x) \/ IsInf(y) THEN (IF Sg(x) = 0 \/ Sg(y) = 0 THEN Nan ELSE InfOf(Sg(x) * Sg(y))) ELSE Fin(x.n * y.n, 1))
  ELSE IF op \in {"div", "idiv"} THEN
        (IF Sg(y) = 0 THEN Nan
         ELSE IF IsInf(x) /\ IsInf(y) THEN Nan
         ELSE IF IsInf(x) THEN InfOf(Sg(x) * Sg(y))
         ELSE IF IsInf(y) THEN Fin(0, 1)
         ELSE IF op = "div" THEN Fin(x.n, y.n) ELSE Fin(Trunc(Fin(x.n, y.n).n, Fin(x.n, y.n).d), 1))
  ELSE IF op = "rem" THEN
        (IF Sg(y) = 0 THEN Nan ELSE IF IsInf(x) THEN Nan ELSE IF IsInf(y) THEN x
         ELSE Fin(x.n - Trunc(Fin(x.n, y.n).n, Fin(x.n, y.n).d) * y.n, 1))
  ELSE IF op = "neg" THEN (IF IsInf(x) THEN InfOf(-Sg(x)) ELSE Fin(-x.n, 1))
  ELSE IF op = "abs" THEN (IF IsInf(x) THEN PInf ELSE Fin(Abs(x.n), 1))
  ELSE IF op = "assign" THEN x
  ELSE IF op = "gcd" THEN (IF IsInf(x) \/ IsInf(y) THEN [c |-> "skip", n |-> 0, d |-> 1] ELSE Fin(Gcd(x.n, y.n), 1))
  ELSE IF op = "lcm" THEN (IF IsInf(x) \/ IsInf(y) THEN [c |-> "skip", n |-> 0, d |-> 1]
                           ELSE IF x.n = 0 \/ y.n = 0 THEN Fin(0, 1) ELSE Fin((Abs(x.n) \div Gcd(x.n, y.n)) * Abs(y.n), 1))
  ELSE IF op = "sqrt" THEN (IF x.c = "pinf" THEN PInf ELSE IF Sg(x) < 0 THEN Nan ELSE [c |-> "sqrt", n |-> x.n, d |-> 1])
  ELSE [c |-> "skip", n |-> 0, d |-> 1]
\* compare exact e with stored s (both non-nan): -1 if e < s, 0 if equal, 1 if e > s
Cmp(e, s) ==
  IF e.c = "sqrt" THEN (IF s.c = "pinf" THEN -1 ELSE IF s.c = "minf" \/ s.n < 0 THEN 1 ELSE IF e.n < s.n * s.n THEN -1 ELSE IF e.n = s.n * s.n THEN 0 ELSE 1)
  ELSE IF e.c = "pinf" THEN (IF s.c = "pinf" THEN 0 ELSE 1)
  ELSE IF e.c = "minf" THEN (IF s.c = "minf" THEN 0 ELSE -1)
  ELSE IF s.c = "pinf" THEN -1 ELSE IF s.c = "minf" THEN 1
  ELSE IF e.n < s.n * e.d THEN -1 ELSE IF e.n = s.n * e.d THEN 0 ELSE 1
Bit(code, b) == (code \div b) % 2 = 1
Class(code) == (code \div 16) % 4       \* 0 normal 1 minf 2 pinf 3 nan
Sound(e, code, raw, dir) ==
  LET s == Dec(raw) IN
  IF e.c = "nan" THEN Class(code) = 3 /\ s.c = "nan"
  ELSE /\ Class(code) # 3 /\ s.c # "nan"
       /\ (Class(code) = 1) = (s.c = "minf") /\ (Class(code) = 2) = (s.c = "pinf")
       /\ LET c == Cmp(e, s) IN
            /\ (c = -1 => Bit(code, 2)) /\ (c = 0 => Bit(code, 1)) /\ (c = 1 => Bit(code, 4))
            /\ (dir = "up" => c <= 0) /\ (dir = "down" => c >= 0)
            \* an overflow claim must be true
            /\ (Bit(code, 64) => (c = 1 /\ raw = MaxF) \/ (c = -1 /\ raw = MinF))
            /\ ((s.c = "pinf" /\ e.c \notin {"pinf"}) => Cmp(e, Dec(MaxF)) = 1)
            /\ ((s.c = "minf" /\ e.c \notin {"minf"}) => Cmp(e, Dec(MinF)) = -1)
\* tightness: the stored value is the nearest representable in the rounding direction (for up/down)
Tight(e, raw, dir) ==
  LET s == Dec(raw) IN
  IF e.c \in {"nan", "pinf", "minf"} \/ dir = "ignore" THEN TRUE
  ELSE IF dir = "up" THEN (\A t \in MinF..MaxF : (Cmp(e, Dec(t)) <= 0) => (s.c # "pinf" /\ (s.c = "minf" \/ s.n <= t)))
                          /\ (s.c = "minf" => FALSE)
  ELSE (\A t \in MinF..MaxF : (Cmp(e, Dec(t)) >= 0) => (s.c # "minf" /\ (s.c = "pinf" \/ s.n >= t)))
       /\ (s.c = "pinf" => FALSE)
LineBad(ln) == { <<ln.op, ln.dir, ln.a, i - 129, ln.r[i], k>> : i \in 1..Len(ln.r), k \in {"unsound", "untight"} } \cap
   { <<ln.op, ln.dir, ln.a, i - 129, ln.r[i], k>> : i \in {i \in 1..Len(ln.r) :
        LET e == Exact(ln.op, IF Len(ln.r) = 256 /\ ln.op \in {"neg","abs","sqrt","assign"} THEN Dec(i - 129) ELSE Dec(ln.a), Dec(i - 129))
        IN e.c # "skip" /\ ~Sound(e, ln.r[i][1], ln.r[i][2], ln.dir)}, k \in {"unsound"} }
LineUntight(ln) == { <<ln.op, ln.dir, ln.a, i - 129, ln.r[i]>> : i \in {i \in 1..Len(ln.r) :
        LET e == Exact(ln.op, IF ln.op \in {"neg","abs","sqrt","assign"} THEN Dec(i - 129) ELSE Dec(ln.a), Dec(i - 129))
        IN e.c # "skip" /\ Sound(e, ln.r[i][1], ln.r[i][2], ln.dir) /\ ~Tight(e, ln.r[i][2], ln.dir)} }
AllBad == UNION {LineBad(Tr[l]) : l \in 1..Len(Tr)}
AllUntight == UNION {LineUntight(Tr[l]) : l \in 1..Len(Tr)}
Summ(S) == {<<x[1], x[2]>> : x \in S}
ASSUME PrintT(<<"UNSOUND", Cardinality(AllBad), Summ(AllBad)>>)
ASSUME PrintT(<<"UNTIGHT", Cardinality(AllUntight), Summ(AllUntight)>>)
VARIABLE xx
Init == xx = 0
Next == xx' = xx
=====================================================================
