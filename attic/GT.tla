---------------------------- MODULE GT ----------------------------
EXTENDS GridSem, Json, IOUtils
Tr == ndJsonDeserialize(IOEnv.TRACE)
B1 == {Tr[l].id : l \in {l \in 1..Len(Tr) : MinPairEq(Tr[l].minC, Tr[l].minG, Tr[l].m) # Tr[l].e1}}
B2 == {Tr[l].id : l \in {l \in 1..Len(Tr) : RawGEq(Tr[l].rawG, Tr[l].minC, Tr[l].m) # Tr[l].e2}}
B3 == {Tr[l].id : l \in {l \in 1..Len(Tr) : RawCEq(Tr[l].rawC, Tr[l].minG, Tr[l].m) # Tr[l].e3}}
ASSUME PrintT(<<"DISAGREE", B1, B2, B3>>)
VARIABLE x
Init == x = 0
Next == x' = x
=====================================================================
