---------------------------- MODULE GridOps ----------------------------
EXTENDS GridSem, Json, IOUtils
Tr == ndJsonDeserialize(IOEnv.TRACE)
GScale(c, v) == [i \in 1..Len(v) |-> c * v[i]]
RECURSIVE Lcm2(_, _)
Lcm2(a, b) == IF a = 0 \/ b = 0 THEN 0 ELSE (Abs(a) \div Gcd(a, b)) * Abs(b)
LcmSeq(s) == LET RECURSIVE F(_)
                 F(i) == IF i = 0 THEN 1 ELSE Lcm2(s[i], F(i-1))
             IN F(Len(s))
\* integer direction vectors (homogeneous part) of generators scaled to common denominator D
Divs(GG) == [i \in 1..Len(GG) |-> IF GG[i].k = "line" THEN 1 ELSE GG[i].v[1]]
WF(g, m) == IF g.empty THEN Len(g.minG) = 0 /\ Len(g.rawG) = 0
            ELSE MinPairEq(g.minC, g.minG, m) /\ RawGEq(g.rawG, g.minC, m) /\ RawCEq(g.rawC, g.minG, m)
GContains(x, y) == IF y.empty THEN TRUE ELSE IF x.empty THEN FALSE ELSE AllSat(x.minC, y.minG)
\* membership of difference of points in the sum lattice: exact disjointness test for two non-empty grids
Disjoint(x, y, m) ==
  IF x.empty \/ y.empty THEN TRUE
  ELSE LET px == Points(x.minG)[1]  py == Points(y.minG)[1]
           prm == Params(x.minG) \o Params(y.minG)
           lns == Lines(x.minG) \o Lines(y.minG)
           D == Lcm2(Lcm2(px.v[1], py.v[1]), LcmSeq([i \in 1..Len(prm) |-> prm[i].v[1]]))
           d == [i \in 1..m |-> IF i = 1 THEN 0 ELSE (D \div px.v[1]) * px.v[i] - (D \div py.v[1]) * py.v[i]]
           B == [i \in 1..Len(prm) |-> GScale(D \div prm[i].v[1], Hom(prm[i].v))]
           \* functionals vanishing on the lines: null space of line rows restricted to homogeneous coords
           W == SetToSeq(NullSpan([i \in 1..Len(lns) |-> [eq |-> TRUE, v |-> Hom(lns[i].v)]] \o <<[eq |-> TRUE, v |-> Unit(1, m)]>>, m).null)
           phi(v) == [j \in 1..Len(W) |-> Dot(W[j], v)]
           PB == [i \in 1..Len(B) |-> phi(B[i])]
           pd == phi(d)
           k == Len(W)
           rk(M) == IF Len(M) = 0 \/ k = 0 THEN 0 ELSE
                      LET RECURSIVE best(_)
                          best(r) == IF r = 0 THEN 0 ELSE IF r <= Len(M) /\ r <= k /\ MinorsGcd(M, r, k) # 0 THEN r ELSE best(r-1)
                      IN best(IF Len(M) < k THEN Len(M) ELSE k)
           r0 == rk(PB)  r1 == rk(Append(PB, pd))
       IN IF k = 0 THEN FALSE      \* lines span everything: grids meet
          ELSE IF \A j \in 1..k : pd[j] = 0 THEN FALSE
          ELSE IF r1 # r0 THEN TRUE
          ELSE MinorsGcd(Append(PB, pd), r0, k) # MinorsGcd(PB, r0, k)
AsParams(GG) == [i \in 1..Len(GG) |-> IF GG[i].k = "point" THEN [k |-> "param", v |-> GG[i].v] ELSE GG[i]]
\* affine image of generators: x_k' = (ev . x)/den ; kc coordinate index (>=2)
ImgGen(g, ev, den, kc) ==
  LET sd == IF den > 0 THEN 1 ELSE -1
      ad == Abs(den)
      newc == IF g.k = "point" THEN Dot(ev, g.v) ELSE Dot(Hom(ev), g.v)
  IN [k |-> g.k, v |-> [i \in 1..Len(g.v) |-> IF i = 1 THEN (IF g.k = "line" THEN 0 ELSE ad * g.v[1])
                                            ELSE IF i = kc THEN sd * newc ELSE ad * g.v[i]]]
\* preimage of congruence c under x_k := ev/den : substitute
PreCon(c, ev, den, kc) ==
  LET a == c.v[kc]
  IN [mod |-> c.mod * Abs(den), v |-> [i \in 1..Len(c.v) |-> (IF i = kc THEN 0 ELSE den * c.v[i]) + a * ev[i]]]
FixSign(c) == c
\* relation with congruence c for non-empty grid with min generators
RelCg(x, c, m) ==
  IF x.empty THEN [sat |-> TRUE, inc |-> TRUE, dis |-> TRUE, si |-> FALSE]
  ELSE LET G == x.minG
           inc == \A j \in 1..Len(G) : SatCG(c, G[j])
           p == Points(G)[1] qs == Params(G) ls == Lines(G)
           lineFree == \E j \in 1..Len(ls) : Val(c, ls[j]) # 0
           D == Lcm2(p.v[1], LcmSeq([i \in 1..Len(qs) |-> qs[i].v[1]]))
           cp == (D \div p.v[1]) * Val(c, p)
           steps == [i \in 1..Len(qs) |-> (D \div qs[i].v[1]) * Val(c, qs[i])] \o <<D * c.mod>>
           g == LET RECURSIVE F(_)
                    F(i) == IF i = 0 THEN 0 ELSE Gcd(steps[i], F(i-1))
                IN F(Len(steps))
           dis == ~lineFree /\ (IF g = 0 THEN cp # 0 ELSE cp % g # 0)
       IN [sat |-> inc /\ c.mod = 0, inc |-> inc, dis |-> dis, si |-> ~inc /\ ~dis]
AffDimG(g) == Len(Lines(g.minG)) + Len(Params(g.minG))
\* index of non-empty grid I in non-empty grid x (I subset of x, same affine dimension and lines)
IndexIn(I, x) == LET cs == Props(x.minC) qs == Params(I.minG) t == Len(cs)
                 IN IF t = 0 THEN 1 ELSE Abs(Det([i \in 1..t |-> [j \in 1..t |-> Val(cs[i], qs[j]) \div (cs[i].mod * qs[j].v[1])]]))
SameG(a, b) == IF a.empty \/ b.empty THEN a.empty = b.empty ELSE AllSat(a.minC, b.minG) /\ AllSat(b.minC, a.minG)
DiffOK(x, y, I, R, m) ==
  IF x.empty THEN R.empty
  ELSE IF y.empty THEN SameG(R, x)
  ELSE IF GContains(y, x) THEN R.empty
  ELSE IF Disjoint(x, y, m) THEN SameG(R, x)
  ELSE IF AffDimG(I) < AffDimG(x) \/ Len(Lines(I.minG)) < Len(Lines(x.minG)) THEN SameG(R, x)
  ELSE IF IndexIn(I, x) >= 3 THEN SameG(R, x)
  ELSE \* index 2: the other coset
       ~R.empty /\ GContains(x, R) /\ Disjoint(R, y, m) /\ AffDimG(R) = AffDimG(x) /\ IndexIn(R, x) = 2
Diffs(e) ==
  LET m == e.m x == e.X y == e.Y
      wf == WF(x, m) /\ WF(y, m) /\ WF(e.inter, m) /\ WF(e.join, m) /\ WF(e.diff, m) /\ WF(e.telapse, m) /\ WF(e.aimg, m) /\ WF(e.apre, m)
      dj == Disjoint(x, y, m)
      con == GContains(x, y)
  IN (IF wf THEN {} ELSE {"wf"})
  \cup (IF con = e.contains THEN {} ELSE {"contains"})
  \cup (IF (con /\ GContains(y, x)) = e.equal THEN {} ELSE {"equal"})
  \cup (IF dj = e.disjoint THEN {} ELSE {"disjoint"})
  \cup (IF dj THEN (IF e.inter.empty THEN {} ELSE {"inter-nonempty"})
        ELSE IF e.inter.empty THEN {"inter-empty"}
        ELSE IF RawCEq(x.minC \o y.minC, e.inter.minG, m) THEN {} ELSE {"inter"})
  \cup (IF x.empty /\ y.empty THEN (IF e.join.empty THEN {} ELSE {"join"})
        ELSE IF e.join.empty THEN {"join"}
        ELSE IF RawGEq(x.minG \o y.minG, e.join.minC, m) THEN {} ELSE {"join"})
  \cup (IF x.empty \/ y.empty THEN (IF e.telapse.empty THEN {} ELSE {"telapse"})
        ELSE IF e.telapse.empty THEN {"telapse"}
        ELSE IF RawGEq(x.minG \o AsParams(y.minG), e.telapse.minC, m) THEN {} ELSE {"telapse"})
  \cup (IF x.empty THEN (IF e.aimg.empty THEN {} ELSE {"aimg"})
        ELSE IF e.aimg.empty THEN {"aimg"}
        ELSE IF RawGEq([i \in 1..Len(x.minG) |-> ImgGen(x.minG[i], e.ev, e.den, e.kc)], e.aimg.minC, m) THEN {} ELSE {"aimg"})
  \cup (IF x.empty THEN (IF e.apre.empty THEN {} ELSE {"apre"})
        ELSE IF e.apre.empty THEN {}    \* emptiness of preimage not decided in this prototype
        ELSE IF RawCEq([i \in 1..Len(x.minC) |-> PreCon(x.minC[i], e.ev, e.den, e.kc)], e.apre.minG, m) THEN {} ELSE {"apre"})
  \cup (IF DiffOK(x, y, e.inter, e.diff, m) THEN {} ELSE {"diff"})
Bad == {<<Tr[l].id, Diffs(Tr[l])>> : l \in {l \in 1..Len(Tr) : Diffs(Tr[l]) # {}}}
ASSUME PrintT(<<"DISAGREE", Cardinality(Bad), Bad>>)
VARIABLE xx
Init == xx = 0
Next == xx' = xx
=====================================================================
