CONSTANTS MaxLen = 10
 Slots = {1,2,3}
 MaxDim = 3
SPECIFICATION Spec
CONSTRAINT EmitProg
CHECK_DEADLOCK FALSE
