---------------------------- MODULE Hist ----------------------------
EXTENDS Integers, Sequences, TLC, Json, FiniteSets
CONSTANTS MaxLen, Slots, MaxDim
Coef == -2..2
Vecs(n) == [1..(n+1) -> Coef]
UnOps == {"constraints", "min_constraints", "generators", "min_generators", "is_empty", "is_universe", "is_bounded", "topological_closure", "ascii_roundtrip"}
ConOps == {"add_constraint", "refine_with_constraint", "relation_with_constraint"}
GenOps == {"add_generator", "relation_with_generator"}
BinOps == {"intersection", "poly_hull", "poly_difference", "time_elapse", "contains", "is_disjoint_from", "equals", "copy_from", "swap", "H79_widening", "simplify_using_context"}
ImgOps == {"affine_image", "affine_preimage", "gen_affine_image", "gen_affine_preimage", "bounded_affine_image", "bounded_affine_preimage"}
DimOps == {"add_dims_embed", "add_dims_project", "remove_higher", "unconstrain", "expand", "fold"}
AllOps == UnOps \cup ConOps \cup GenOps \cup BinOps \cup ImgOps \cup DimOps \cup {"new_universe", "new_empty"}
VARIABLES prog, dim, topo, phase, cur
vars == <<prog, dim, topo, phase, cur>>
Init == /\ prog = <<>> /\ dim = [s \in Slots |-> -1] /\ topo = [s \in Slots |-> "C"] /\ phase = "op" /\ cur = "none"
Alive(s) == dim[s] >= 0
Emit(rec) == prog' = Append(prog, rec)
SomeAlive == \E s \in Slots : Alive(s)
OpOK(op) == IF op \in {"new_universe", "new_empty"} THEN TRUE
            ELSE IF op \in ImgOps THEN \E s \in Slots : Alive(s) /\ dim[s] > 0
            ELSE IF op \in DimOps THEN \E s \in Slots : Alive(s) /\ dim[s] > 0 /\ dim[s] < MaxDim
            ELSE SomeAlive
ChooseOp == /\ phase = "op" /\ Len(prog) < MaxLen
            /\ \E op \in {o \in AllOps : OpOK(o)} : cur' = op
            /\ phase' = "args" /\ UNCHANGED <<prog, dim, topo>>
Args ==
  /\ phase = "args" /\ phase' = "op" /\ cur' = "none"
  /\ \/ /\ cur \in {"new_universe", "new_empty"}
        /\ \E s \in Slots, n \in 0..MaxDim, t \in {"C", "NNC"} :
             /\ Emit([op |-> cur, dst |-> s, src |-> 0, n |-> n, topo |-> t, v |-> <<>>, w |-> <<>>, k |-> "", var |-> 0, den |-> 1])
             /\ dim' = [dim EXCEPT ![s] = n] /\ topo' = [topo EXCEPT ![s] = t]
     \/ /\ cur \in UnOps
        /\ \E s \in {s \in Slots : Alive(s)} :
             /\ Emit([op |-> cur, dst |-> s, src |-> 0, n |-> dim[s], topo |-> topo[s], v |-> <<>>, w |-> <<>>, k |-> "", var |-> 0, den |-> 1])
             /\ UNCHANGED <<dim, topo>>
     \/ /\ cur \in ConOps
        /\ \E s \in {s \in Slots : Alive(s)} : \E k \in (IF topo[s] = "NNC" THEN {"ge", "eq", "gt"} ELSE {"ge", "eq"}) : \E v \in {RandomElement(Vecs(dim[s]))} :
             /\ Emit([op |-> cur, dst |-> s, src |-> 0, n |-> dim[s], topo |-> topo[s], v |-> v, w |-> <<>>, k |-> k, var |-> 0, den |-> 1])
             /\ UNCHANGED <<dim, topo>>
     \/ /\ cur \in GenOps
        /\ \E s \in {s \in Slots : Alive(s)} : \E k \in (IF topo[s] = "NNC" THEN {"point", "cpoint", "ray", "line"} ELSE {"point", "ray", "line"}) :
             \E v0 \in {RandomElement(Vecs(dim[s]))} :
             LET v == [i \in 1..(dim[s]+1) |-> IF i = 1 THEN (IF k \in {"point", "cpoint"} THEN 1 + (v0[1] % 2) ELSE 0) ELSE v0[i]] IN
             /\ Emit([op |-> cur, dst |-> s, src |-> 0, n |-> dim[s], topo |-> topo[s], v |-> v, w |-> <<>>, k |-> k, var |-> 0, den |-> 1])
             /\ UNCHANGED <<dim, topo>>
     \/ /\ cur \in BinOps
        /\ \E s \in {s \in Slots : Alive(s)}, t \in {t \in Slots : Alive(t)} :
             /\ (cur # "copy_from" => (dim[s] = dim[t] /\ topo[s] = topo[t]))
             /\ Emit([op |-> cur, dst |-> s, src |-> t, n |-> dim[s], topo |-> topo[s], v |-> <<>>, w |-> <<>>, k |-> "", var |-> 0, den |-> 1])
             /\ IF cur = "copy_from" THEN dim' = [dim EXCEPT ![s] = dim[t]] /\ topo' = [topo EXCEPT ![s] = topo[t]] ELSE UNCHANGED <<dim, topo>>
     \/ /\ cur \in ImgOps
        /\ \E s \in {s \in Slots : Alive(s) /\ dim[s] > 0} : \E var \in 0..(dim[s]-1), den \in {-2, -1, 1, 2},
              k \in (IF topo[s] = "NNC" THEN {"le", "eq", "ge", "lt", "gt"} ELSE {"le", "eq", "ge"}) :
             \E v \in {RandomElement(Vecs(dim[s]))} : \E w \in {RandomElement(Vecs(dim[s]))} :
             /\ Emit([op |-> cur, dst |-> s, src |-> 0, n |-> dim[s], topo |-> topo[s], v |-> v, w |-> w, k |-> k, var |-> var, den |-> den])
             /\ UNCHANGED <<dim, topo>>
     \/ /\ cur \in DimOps
        /\ \E s \in {s \in Slots : Alive(s) /\ dim[s] > 0 /\ dim[s] < MaxDim} : \E var \in 0..(dim[s]-1) :
             /\ Emit([op |-> cur, dst |-> s, src |-> 0, n |-> dim[s], topo |-> topo[s], v |-> <<>>, w |-> <<>>, k |-> "", var |-> var, den |-> 1])
             /\ dim' = [dim EXCEPT ![s] = IF cur \in {"add_dims_embed", "add_dims_project", "expand"} THEN dim[s] + 1
                                            ELSE IF cur \in {"remove_higher", "fold"} /\ dim[s] > 1 THEN dim[s] - 1 ELSE dim[s]]
             /\ UNCHANGED topo
Next == ChooseOp \/ Args
Spec == Init /\ [][Next]_vars
EmitProg == (Len(prog) = MaxLen /\ phase = "op") => PrintT(<<"PROG", ToJson(prog)>>)
=====================================================================
