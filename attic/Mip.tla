---------------------------- MODULE Mip ----------------------------
EXTENDS NNCGens, Json, IOUtils
Tr == ndJsonDeserialize(IOEnv.TRACE)
\* objective value of generator g (point) as pair num/den with den = g.v[1]
Better(obj, mx, a, b) == \* point a at least as good as point b
   LET va == Dot(obj, a.v) * b.v[1]  vb == Dot(obj, b.v) * a.v[1] IN IF mx THEN va >= vb ELSE va <= vb
IsInt(g, ints) == \A i \in ints : g.v[i] % g.v[1] = 0
FeasPt(H, g) == \A i \in 1..Len(H) : LET d == Dot(H[i].v, g.v) IN IF H[i].k = "eq" THEN d = 0 ELSE d >= 0
\* expected answer for an LP/MIP; returns [status, num, den] or status "undecided"
Expected(e) ==
  LET m == e.m  H == e.H  G == GensOf(H, m)
      ints == {e.ints[i] : i \in 1..Len(e.ints)}
      sgn == IF e.max THEN 1 ELSE -1
      pts == {j \in 1..Len(G) : G[j].k = "point"}
      rays == {j \in 1..Len(G) : G[j].k \in {"ray", "line"}}
      lpUnb == \E j \in rays : (G[j].k = "ray" /\ sgn * Dot(Hom(e.obj), G[j].v) > 0) \/ (G[j].k = "line" /\ Dot(Hom(e.obj), G[j].v) # 0)
      boundedInts == \A j \in rays : \A i \in ints : G[j].v[i] = 0
  IN IF Len(G) = 0 THEN [status |-> "unfeasible", num |-> 0, den |-> 1]
     ELSE IF ints = {} THEN
        (IF lpUnb THEN [status |-> "unbounded", num |-> 0, den |-> 1]
         ELSE LET b == CHOOSE a \in pts : \A c \in pts : Better(e.obj, e.max, G[a], G[c])
              IN [status |-> "optimized", num |-> Dot(e.obj, G[b].v), den |-> G[b].v[1]])
     ELSE IF ~boundedInts THEN [status |-> "undecided", num |-> 0, den |-> 1]
     ELSE \* enumerate integer assignments in the box spanned by the vertices, slice, solve LP on slice
       LET lo(i) == LET a == CHOOSE a \in pts : \A c \in pts : G[a].v[i] * G[c].v[1] <= G[c].v[i] * G[a].v[1] IN -((-G[a].v[i]) \div G[a].v[1])  \* ceil
           hi(i) == LET a == CHOOSE a \in pts : \A c \in pts : G[a].v[i] * G[c].v[1] >= G[c].v[i] * G[a].v[1] IN G[a].v[i] \div G[a].v[1]     \* floor
           iseq == SetToSeq(ints)
           RECURSIVE Assign(_)
           Assign(k) == IF k = 0 THEN {<<>>} ELSE {Append(s, z) : s \in Assign(k-1), z \in lo(iseq[k])..hi(iseq[k])}
           slice(s) == H \o [k \in 1..Len(iseq) |-> [k |-> "eq", v |-> [t \in 1..m |-> IF t = 1 THEN -s[k] ELSE IF t = iseq[k] THEN 1 ELSE 0]]]
           slices == {GensOf(slice(s), m) : s \in Assign(Len(iseq))}
           feas == {S \in slices : Len(S) > 0}
           unb == \E S \in feas : \E j \in 1..Len(S) : (S[j].k = "ray" /\ sgn * Dot(Hom(e.obj), S[j].v) > 0) \/ (S[j].k = "line" /\ Dot(Hom(e.obj), S[j].v) # 0)
           cands == UNION {{S[j] : j \in {j \in 1..Len(S) : S[j].k = "point"}} : S \in feas}
       IN IF feas = {} THEN [status |-> "unfeasible", num |-> 0, den |-> 1]
          ELSE IF unb THEN [status |-> "unbounded", num |-> 0, den |-> 1]
          ELSE LET b == CHOOSE a \in cands : \A c \in cands : Better(e.obj, e.max, a, c)
               IN [status |-> "optimized", num |-> Dot(e.obj, b.v), den |-> b.v[1]]
Agree(x, r, e) ==
   x.status = "undecided" \/
   ( /\ r.status = x.status
     /\ r.sat = (x.status # "unfeasible")
     /\ (x.status = "optimized" =>
          /\ r.num * x.den = x.num * r.den
          /\ LET g == [k |-> "point", v |-> r.pt] IN
               /\ FeasPt(e.H, g) /\ IsInt(g, {e.ints[i] : i \in 1..Len(e.ints)})
               /\ Dot(e.obj, r.pt) * r.den = r.num * r.pt[1]) )
Diffs(e) == IF "crash" \in DOMAIN e THEN {"hang"}
            ELSE LET x == Expected(e) IN
              (IF Agree(x, e.fresh, e) THEN {} ELSE {"fresh"}) \cup (IF Agree(x, e.incr, e) THEN {} ELSE {"incr"})
              \cup (IF x.status = "undecided" THEN {"undecided"} ELSE {})
Bad == {<<Tr[l].id, Diffs(Tr[l])>> : l \in {l \in 1..Len(Tr) : Diffs(Tr[l]) # {}}}
ASSUME PrintT(<<"DISAGREE", Cardinality(Bad), Bad>>)
VARIABLE xx
Init == xx = 0
Next == xx' = xx
=====================================================================
