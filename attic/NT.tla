---------------------------- MODULE NT ----------------------------
EXTENDS NNCGens, Json, IOUtils
Tr == ndJsonDeserialize(IOEnv.TRACE)
\* GensOf may produce dependent lines; SameSetVH needs explicit equalities on H side -> use minimized H from PPL (e.H)
Ok(e) == LET G == GensOf(e.H, e.m) IN SameSetVH(G, e.H, e.m) /\ (Len(G) = 0 <=> Len(e.V) = 0)
Bad == {Tr[l].id : l \in {l \in 1..Len(Tr) : ~Ok(Tr[l])}}
ASSUME PrintT(<<"BAD", Bad>>)
VARIABLE x
Init == x = 0
Next == x' = x
=====================================================================
