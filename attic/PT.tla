---------------------------- MODULE PT ----------------------------
EXTENDS PolySem, Json, IOUtils
Tr == ndJsonDeserialize(IOEnv.TRACE)
Chk(e) == /\ SameSetHV(e.rawH, e.minV, e.m) \/ PrintT(<<"FAIL rawH-minV", e.id>>)
          /\ SameSetVH(e.rawV, e.minH, e.m) \/ PrintT(<<"FAIL rawV-minH", e.id>>)
          /\ SameSetHV(e.minH, e.minV, e.m) \/ PrintT(<<"FAIL minH-minV", e.id>>)
VARIABLE l
Init == l = 1
Next == /\ l <= Len(Tr)
        /\ Chk(Tr[l]) = Tr[l].expect
        /\ l' = l + 1
NotDone == l <= Len(Tr)
=====================================================================
