---------------------------- MODULE PT2 ----------------------------
EXTENDS PolySem, Json, IOUtils
Tr == ndJsonDeserialize(IOEnv.TRACE)
Chk(e) == IF e.which = 0 THEN SameSetHV(e.H, e.V, e.m) ELSE SameSetVH(e.V, e.H, e.m)
Bad == {l \in 1..Len(Tr) : Chk(Tr[l]) # Tr[l].expect}
ASSUME PrintT(<<"DISAGREE", {Tr[l].id : l \in Bad}>>)
VARIABLE x
Init == x = 0
Next == x' = x
=====================================================================
