---------------------------- MODULE Pip ----------------------------
EXTENDS Integers, Sequences, FiniteSets, TLC, Json, IOUtils
Tr == ndJsonDeserialize(IOEnv.TRACE)
\* value of expression e = <<inh, c_0, ..., c_{k-1}>> under env (sequence of values for dims 0..), missing dims count as 0 coefficient
EvalE(e, env) == LET RECURSIVE S(_)
                     S(i) == IF i = 0 THEN 0 ELSE (IF i <= Len(env) THEN e[i+1] * env[i] ELSE 0) + S(i-1)
                 IN e[1] + S(Len(e) - 1)
FloorDiv(a, b) == a \div b     \* TLA+ \div is floor for b > 0
SatC(c, env) == LET x == EvalE(c.v, env) IN IF c.k = "eq" THEN x = 0 ELSE IF c.k = "gt" THEN x > 0 ELSE x >= 0
\* extend env with the node's artificial parameters
RECURSIVE WithArts(_, _, _)
WithArts(arts, i, env) == IF i > Len(arts) THEN env
                          ELSE WithArts(arts, i+1, Append(env, FloorDiv(EvalE(arts[i].e, env), arts[i].den)))
\* Eval returns <<"bot">> or <<"sol", seq of var values>>
RECURSIVE Eval(_, _)
Eval(n, env) ==
  IF n.kind = "bot" THEN <<"bot">>
  ELSE LET env2 == WithArts(n.art, 1, env)
           ok == \A i \in 1..Len(n.cs) : SatC(n.cs[i], env2)
       IN IF n.kind = "sol" THEN (IF ok THEN <<"sol", [i \in 1..Len(n.sol) |-> EvalE(n.sol[i], env2)]>> ELSE <<"bot">>)
          ELSE IF ok THEN Eval(n.t, env2) ELSE Eval(n.f, env2)
\* brute force lexmin: vars occupy dims 0..nv-1, params dims nv..D-1
Box == 0..8
PVals == 0..4
Tuples(S, k) == IF k = 1 THEN {<<a>> : a \in S} ELSE IF k = 2 THEN {<<a, b>> : a \in S, b \in S} ELSE {<<a, b, c>> : a \in S, b \in S, c \in S}
LexLess(x, y) == \E i \in 1..Len(x) : x[i] < y[i] /\ \A j \in 1..(i-1) : x[j] = y[j]
FeasPts(e, pv) == {x \in Tuples(Box, e.nv) : \A i \in 1..Len(e.cs) : SatC(e.cs[i], x \o pv)}
\* context: constraints with all variable coefficients zero
IsCtx(c, nv) == \A i \in 1..nv : c.v[i+1] = 0
CtxOK(e, pv) == \A i \in 1..Len(e.cs) : IsCtx(e.cs[i], e.nv) => SatC(e.cs[i], [j \in 1..e.nv |-> 0] \o pv)
\* disagreement kinds for one problem
Diffs(e) ==
  IF e.status \notin {"optimized", "unfeasible"} THEN {<<"crash">>}
  ELSE UNION { LET pv == p
                   r == Eval(e.tree, [j \in 1..e.nv |-> 0] \o pv)
                   F == FeasPts(e, pv)
               IN IF ~CtxOK(e, pv) THEN {}
                  ELSE IF r[1] = "bot" THEN (IF F = {} THEN {} ELSE {<<"bot-but-feasible", pv, CHOOSE x \in F : \A y \in F : ~LexLess(y, x)>>})
                  ELSE LET x == r[2] IN
                       (IF \E i \in 1..Len(x) : x[i] < 0 THEN {<<"negative", pv, x>>} ELSE {})
                       \cup (IF \A i \in 1..Len(e.cs) : SatC(e.cs[i], x \o pv) THEN {} ELSE {<<"infeasible-solution", pv, x>>})
                       \cup (IF \E y \in F : LexLess(y, x) THEN {<<"not-lexmin", pv, x>>} ELSE {})
             : p \in Tuples(PVals, e.np) }
Bad == {<<Tr[l].id, Diffs(Tr[l])>> : l \in {l \in 1..Len(Tr) : Diffs(Tr[l]) # {}}}
ASSUME PrintT(<<"DISAGREE", Cardinality(Bad), Bad>>)
VARIABLE x
Init == x = 0
Next == x' = x
=====================================================================
