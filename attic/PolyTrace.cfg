INIT Init
NEXT Next
INVARIANT NotDone
CHECK_DEADLOCK FALSE
