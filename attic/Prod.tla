---------------------------- MODULE Prod ----------------------------
EXTENDS GridSem, Json, IOUtils
Tr == ndJsonDeserialize(IOEnv.TRACE)
\* rational sample points (d, c1..cn) with d in {1,2,3}
U(m) == IF m = 2 THEN {<<d, a>> : d \in {1, 2, 3}, a \in -12..12} ELSE {<<d, a, b>> : d \in {1, 2}, a \in -8..8, b \in -8..8}
InH(H, p) == \A i \in 1..Len(H) : LET x == Dot(H[i].v, p) IN IF H[i].k = "eq" THEN x = 0 ELSE IF H[i].k = "gt" THEN x > 0 ELSE x >= 0
InC(C, p) == \A i \in 1..Len(C) : SatCG(C[i], [k |-> "point", v |-> p])
Img(p, ev, den, kc) == \* image point of p under x_k := ev.x/den  (homogeneous)
   [i \in 1..Len(p) |-> IF i = 1 THEN den * p[1] ELSE IF i = kc THEN Dot(ev, p) ELSE den * p[i]]
Diffs(e) ==
  LET m == e.m
      before(p) == InH(e.cs, p) /\ InC(e.cgs, p)
      after(p) == ~e.d2empty /\ InH(e.d1, p) /\ InC(e.d2, p)
      lost == {p \in U(m) : before(p) /\ ~after(p)}
      gained == {p \in U(m) : after(p) /\ ~before(p)}
      imgLost == {p \in U(m) : before(p) /\ ~(~e.i2empty /\ InH(e.i1, Img(p, e.ev, e.den, e.kc)) /\ InC(e.i2, Img(p, e.ev, e.den, e.kc)))}
  IN (IF lost = {} THEN {} ELSE {<<"reduction-lost", CHOOSE p \in lost : TRUE>>})
  \cup (IF gained = {} THEN {} ELSE {<<"gained", CHOOSE p \in gained : TRUE>>})
  \cup (IF e.empty /\ \E p \in U(m) : before(p) THEN {<<"empty-claimed">>} ELSE {})
  \cup (IF imgLost = {} THEN {} ELSE {<<"image-lost", CHOOSE p \in imgLost : TRUE>>})
Bad == {<<Tr[l].id, Tr[l].prod, Diffs(Tr[l])>> : l \in {l \in 1..Len(Tr) : Diffs(Tr[l]) # {}}}
ASSUME PrintT(<<"DISAGREE", Cardinality(Bad), Bad>>)
VARIABLE x
Init == x = 0
Next == x' = x
=====================================================================
