---------------------------- MODULE Pset ----------------------------
EXTENDS NNCGens, Json, IOUtils
Tr == ndJsonDeserialize(IOEnv.TRACE)
NegRows(b) == IF b.k = "ge" THEN {[k |-> "gt", v |-> Neg(b.v)]}
              ELSE IF b.k = "gt" THEN {[k |-> "ge", v |-> Neg(b.v)]}
              ELSE {[k |-> "gt", v |-> b.v], [k |-> "gt", v |-> Neg(b.v)]}
\* pieces of the set described by H that lie outside the disjunct D (list of H-descriptions)
Outside(H, D, m) == { Append(H, nr) : nr \in UNION {NegRows(D[i]) : i \in 1..Len(D)} } 
NonEmpty(S, m) == { H \in S : ~HEmpty(H, m) }
\* does the union of the disjuncts in Bs (sequence of H-descriptions) cover the set described by H ?
RECURSIVE CoversPieces(_, _, _, _)
CoversPieces(P, Bs, j, m) == IF P = {} THEN TRUE ELSE IF j > Len(Bs) THEN FALSE
                              ELSE CoversPieces(NonEmpty(UNION {Outside(H, Bs[j], m) : H \in P}, m), Bs, j + 1, m)
Covers(As, Bs, m) == \A i \in 1..Len(As) : CoversPieces(NonEmpty({As[i]}, m), Bs, 1, m)   \* union(Bs) contains union(As)
SameU(As, Bs, m) == Covers(As, Bs, m) /\ Covers(Bs, As, m)
\* definitional difference / meet as lists of H-descriptions
RECURSIVE DiffPieces(_, _, _, _)
DiffPieces(P, Bs, j, m) == IF j > Len(Bs) THEN P ELSE DiffPieces(NonEmpty(UNION {Outside(H, Bs[j], m) : H \in P}, m), Bs, j + 1, m)
DiffList(As, Bs, m) == SetToSeq(UNION {DiffPieces(NonEmpty({As[i]}, m), Bs, 1, m) : i \in 1..Len(As)})
MeetList(As, Bs) == [k \in 1..(Len(As) * Len(Bs)) |-> As[((k-1) \div Len(Bs)) + 1] \o Bs[((k-1) % Len(Bs)) + 1]]
Diffs(e) == LET m == e.m IN
     (IF Covers(e.B, e.A, m) = e.covers THEN {} ELSE {"covers"})
  \cup (IF SameU(e.A, e.B, m) = e.gequals THEN {} ELSE {"gequals"})
  \cup (IF SameU(e.A, e.pr, m) /\ Len(e.pr) <= Len(e.A) THEN {} ELSE {"pairwise_reduce"})
  \cup (IF SameU(e.A, e.om, m) /\ Len(e.om) <= Len(e.A) THEN {} ELSE {"omega_reduce"})
  \cup (IF SameU(e.diff, DiffList(e.A, e.B, m), m) THEN {} ELSE {"difference"})
  \cup (IF SameU(e.meet, MeetList(e.A, e.B), m) THEN {} ELSE {"meet"})
  \cup (IF SameU(e.ub, e.A \o e.B, m) THEN {} ELSE {"upper_bound"})
Bad == {<<Tr[l].id, Diffs(Tr[l])>> : l \in {l \in 1..Len(Tr) : Diffs(Tr[l]) # {}}}
ASSUME PrintT(<<"DISAGREE", Cardinality(Bad), Bad>>)
VARIABLE x
Init == x = 0
Next == x' = x
=====================================================================
