---------------------------- MODULE QT ----------------------------
EXTENDS Query, Json, IOUtils
Tr == ndJsonDeserialize(IOEnv.TRACE)
Same(a, b) == a.ok = b.ok /\ (a.ok => (a.num * b.den = b.num * a.den /\ a.att = b.att))
Diffs(e) ==
  LET m == e.m
      wf == SameSetHV(e.H, e.V, m) /\ SameSetHV(e.Hq, e.Vq, m)
      contains == QContains(e.H, e.Vq)
      equal == contains /\ QContains(e.Hq, e.V)
      rc == RelCon(e.H, e.V, e.c, m)
  IN  (IF wf THEN {} ELSE {"wf"})
  \cup (IF QEmpty(e.V) = e.empty THEN {} ELSE {"empty"})
  \cup (IF QUniverse(e.V, m) = e.univ THEN {} ELSE {"univ"})
  \cup (IF QBounded(e.V) = e.bounded THEN {} ELSE {"bounded"})
  \cup (IF QClosed(e.H, e.V) = e.closed THEN {} ELSE {"closed"})
  \cup (IF contains = e.contains THEN {} ELSE {"contains"})
  \cup (IF (contains /\ ~equal) = e.scontains THEN {} ELSE {"scontains"})
  \cup (IF equal = e.equal THEN {} ELSE {"equal"})
  \cup (IF QDisjoint(e.H, e.Hq, m) = e.disjoint THEN {} ELSE {"disjoint"})
  \cup (IF AffDim(e.V, m) = e.adim THEN {} ELSE {"adim"})
  \cup (IF Constrains(e.H, e.V, e.var) = e.constrains THEN {} ELSE {"constrains"})
  \cup (IF rc = e.rc THEN {} ELSE {"relcon"})
  \cup (IF Subsumes(e.H, e.V, e.g) = e.subs THEN {} ELSE {"subsumes"})
  \cup (IF Same(SupInfo(e.V, e.e, 1), e.max) THEN {} ELSE {"max"})
  \cup (IF Same(SupInfo(e.V, e.e, -1), e.min) THEN {} ELSE {"min"})
  \cup (IF (QEmpty(e.V) \/ SupInfo(e.V, e.e, 1).ok) = e.bfa THEN {} ELSE {"bfa"})
  \cup (IF (QEmpty(e.V) \/ SupInfo(e.V, e.e, -1).ok) = e.bfb THEN {} ELSE {"bfb"})
Bad == {<<Tr[l].id, Diffs(Tr[l])>> : l \in {l \in 1..Len(Tr) : Diffs(Tr[l]) # {}}}
ASSUME PrintT(<<"DISAGREE", Bad>>)
VARIABLE x
Init == x = 0
Next == x' = x
=====================================================================
