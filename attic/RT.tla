---------------------------- MODULE RT ----------------------------
EXTENDS Rel, Json, IOUtils
Tr == ndJsonDeserialize(IOEnv.TRACE)
\* event: m, kc, pre (bool), H (arg raw), R (relation rows over m+1), V (result minimized gens), expect
Chk(e) == LET D == IF e.pre THEN PreimageH(e.H, e.R, e.kc, e.m) ELSE ImageH(e.H, e.R, e.kc, e.m)
          IN SameSetHV(D, e.V, e.m)
Bad == {Tr[l].id : l \in {l \in 1..Len(Tr) : Chk(Tr[l]) # Tr[l].expect}}
ASSUME PrintT(<<"DISAGREE", Bad>>)
VARIABLE x
Init == x = 0
Next == x' = x
=====================================================================
