---------------------------- MODULE RatIv ----------------------------
EXTENDS Integers, Sequences, FiniteSets, TLC, Json, IOUtils
Tr == ndJsonDeserialize(IOEnv.TRACE)
(* extended rational: [s |-> -1|0|1 (0 finite), n, d] ; bound = [v |-> ext rational, c |-> BOOLEAN closed] *)
Abs(x) == IF x < 0 THEN -x ELSE x
RECURSIVE Gcd(_, _)
Gcd(a, b) == IF b = 0 THEN Abs(a) ELSE Gcd(Abs(b), Abs(a) % Abs(b))
Q(n, d) == LET g == Gcd(n, d) s == IF d < 0 THEN -1 ELSE 1 IN [s |-> 0, n |-> s * (n \div g), d |-> s * (d \div g)]
PInf == [s |-> 1, n |-> 0, d |-> 1]
MInf == [s |-> -1, n |-> 0, d |-> 1]
Fin(x) == x.s = 0
Sgn(x) == IF x.s # 0 THEN x.s ELSE IF x.n > 0 THEN 1 ELSE IF x.n < 0 THEN -1 ELSE 0
Lt(x, y) == IF x.s = -1 THEN y.s # -1 ELSE IF x.s = 1 THEN FALSE
            ELSE IF y.s = 1 THEN TRUE ELSE IF y.s = -1 THEN FALSE ELSE x.n * y.d < y.n * x.d
Eq(x, y) == ~Lt(x, y) /\ ~Lt(y, x)
NegX(x) == IF Fin(x) THEN Q(-x.n, x.d) ELSE [s |-> -x.s, n |-> 0, d |-> 1]
AddX(x, y) == IF Fin(x) /\ Fin(y) THEN Q(x.n * y.d + y.n * x.d, x.d * y.d) ELSE IF Fin(x) THEN y ELSE x  \* never inf + -inf here
MulX(x, y) == IF Fin(x) /\ Fin(y) THEN Q(x.n * y.n, x.d * y.d)
              ELSE IF Sgn(x) = 0 \/ Sgn(y) = 0 THEN Q(0, 1)          \* 0 * inf := 0 (see text)
              ELSE IF Sgn(x) * Sgn(y) > 0 THEN PInf ELSE MInf
(* interval: [e |-> TRUE] or [e |-> FALSE, lo |-> bound, hi |-> bound] *)
FromJ(b, isLo) == IF b.inf THEN [v |-> IF isLo THEN MInf ELSE PInf, c |-> FALSE] ELSE [v |-> Q(b.num, b.den), c |-> ~b.open]
IvJ(j) == IF j.empty THEN [e |-> TRUE] ELSE [e |-> FALSE, lo |-> FromJ(j.lo, TRUE), hi |-> FromJ(j.hi, FALSE)]
Empty == [e |-> TRUE]
\* normalise: empty if lo > hi or lo = hi not both closed
Mk(lo, hi) == IF Lt(hi.v, lo.v) \/ (Eq(lo.v, hi.v) /\ ~(lo.c /\ hi.c)) THEN Empty ELSE [e |-> FALSE, lo |-> lo, hi |-> hi]
SameB(a, b) == Eq(a.v, b.v) /\ (Fin(a.v) => a.c = b.c)
SameI(a, b) == IF a.e \/ b.e THEN a.e = b.e ELSE SameB(a.lo, b.lo) /\ SameB(a.hi, b.hi)
Has0(x) == LET z == Q(0,1) IN ~x.e /\ (Lt(x.lo.v, z) \/ (Eq(x.lo.v, z) /\ x.lo.c)) /\ (Lt(z, x.hi.v) \/ (Eq(x.hi.v, z) /\ x.hi.c))
\* pick min / max among candidate bounds (value, closed); for equal values closed wins
MinB(S) == CHOOSE a \in S : \A b \in S : Lt(a.v, b.v) \/ (Eq(a.v, b.v) /\ (a.c \/ ~b.c))
MaxB(S) == CHOOSE a \in S : \A b \in S : Lt(b.v, a.v) \/ (Eq(a.v, b.v) /\ (a.c \/ ~b.c))
NegI(x) == IF x.e THEN Empty ELSE Mk([v |-> NegX(x.hi.v), c |-> x.hi.c], [v |-> NegX(x.lo.v), c |-> x.lo.c])
AddI(x, y) == IF x.e \/ y.e THEN Empty
              ELSE Mk([v |-> AddX(x.lo.v, y.lo.v), c |-> x.lo.c /\ y.lo.c], [v |-> AddX(x.hi.v, y.hi.v), c |-> x.hi.c /\ y.hi.c])
SubI(x, y) == AddI(x, NegI(y))
Zero(b) == Fin(b.v) /\ b.v.n = 0
ProdB(a, b) == [v |-> MulX(a.v, b.v), c |-> (a.c /\ b.c) \/ (Zero(a) /\ a.c) \/ (Zero(b) /\ b.c)]
MulI(x, y) == IF x.e \/ y.e THEN Empty
              ELSE LET C == {ProdB(a, b) : a \in {x.lo, x.hi}, b \in {y.lo, y.hi}}
                       \* an interior zero of one factor makes 0 attained
                       Z == IF Has0(x) \/ Has0(y) THEN {[v |-> Q(0,1), c |-> TRUE]} ELSE {}
                   IN Mk(MinB(C \cup Z), MaxB(C \cup Z))
\* reciprocal of a bound value approached from inside an interval not containing 0 in its interior
Recip(b, side) == \* side = 1 : interval is on the positive side, -1 negative side
   IF ~Fin(b.v) THEN [v |-> Q(0,1), c |-> FALSE]
   ELSE IF b.v.n = 0 THEN [v |-> IF side = 1 THEN PInf ELSE MInf, c |-> FALSE]
   ELSE [v |-> Q(b.v.d, b.v.n), c |-> b.c]
Univ == [e |-> FALSE, lo |-> [v |-> MInf, c |-> FALSE], hi |-> [v |-> PInf, c |-> FALSE]]
IsZeroI(x) == ~x.e /\ Zero(x.lo) /\ Zero(x.hi)
DivI(x, y) ==
  IF x.e \/ y.e THEN Empty
  ELSE IF IsZeroI(y) THEN Empty
  ELSE LET z == Q(0,1)
           posSide == ~Lt(y.lo.v, z)      \* y within [0, +inf)
           negSide == ~Lt(z, y.hi.v)      \* y within (-inf, 0]
       IN IF posSide THEN MulI(x, Mk(Recip(y.hi, 1), Recip(y.lo, 1)))
          ELSE IF negSide THEN MulI(x, Mk(Recip(y.hi, -1), Recip(y.lo, -1)))
          ELSE IF IsZeroI(x) THEN x
          ELSE Univ
JoinI(x, y) == IF x.e THEN y ELSE IF y.e THEN x ELSE Mk(MinB({x.lo, y.lo}), MaxB({x.hi, y.hi}))
\* for meet the tighter bound wins; at equal value OPEN wins
MeetLo(a, b) == IF Lt(a.v, b.v) THEN b ELSE IF Lt(b.v, a.v) THEN a ELSE [v |-> a.v, c |-> a.c /\ b.c]
MeetHi(a, b) == IF Lt(a.v, b.v) THEN a ELSE IF Lt(b.v, a.v) THEN b ELSE [v |-> a.v, c |-> a.c /\ b.c]
MeetI(x, y) == IF x.e \/ y.e THEN Empty ELSE Mk(MeetLo(x.lo, y.lo), MeetHi(x.hi, y.hi))
\* smallest interval containing x \ y
DiffI(x, y) == IF x.e THEN Empty ELSE IF y.e THEN x
   ELSE LET left == Mk(x.lo, MeetHi(x.hi, [v |-> y.lo.v, c |-> ~y.lo.c]))     \* part of x below y
            right == Mk(MeetLo(x.lo, [v |-> y.hi.v, c |-> ~y.hi.c]), x.hi)    \* part of x above y
        IN JoinI(left, right)
Diffs(e) == LET x == IvJ(e.x) y == IvJ(e.y) IN
     (IF SameI(AddI(x, y), IvJ(e.add)) THEN {} ELSE {"add"})
  \cup (IF SameI(SubI(x, y), IvJ(e.sub)) THEN {} ELSE {"sub"})
  \cup (IF SameI(MulI(x, y), IvJ(e.mul)) THEN {} ELSE {"mul"})
  \cup (IF SameI(DivI(x, y), IvJ(e.div)) THEN {} ELSE {"div"})
  \cup (IF SameI(NegI(x), IvJ(e.neg)) THEN {} ELSE {"neg"})
  \cup (IF SameI(JoinI(x, y), IvJ(e.join)) THEN {} ELSE {"join"})
  \cup (IF SameI(MeetI(x, y), IvJ(e.meet)) THEN {} ELSE {"meet"})
  \cup (IF SameI(DiffI(x, y), IvJ(e.diff)) THEN {} ELSE {"diff"})
Bad == {<<Tr[l].id, Diffs(Tr[l])>> : l \in {l \in 1..Len(Tr) : Diffs(Tr[l]) # {}}}
ASSUME PrintT(<<"DISAGREE", Cardinality(Bad), Bad>>)
VARIABLE xx
Init == xx = 0
Next == xx' = xx
=====================================================================
