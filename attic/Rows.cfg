CONSTANTS MaxLen = 14
 MaxSize = 40
SPECIFICATION Spec
CONSTRAINT EmitLog
CHECK_DEADLOCK FALSE
