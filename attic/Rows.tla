---------------------------- MODULE Rows ----------------------------
EXTENDS Integers, Sequences, TLC, Json, FiniteSets
CONSTANTS MaxLen, MaxSize
Val == -2..2
Abs(x) == IF x < 0 THEN -x ELSE x
RECURSIVE Gcd(_, _)
Gcd(a, b) == IF b = 0 THEN Abs(a) ELSE Gcd(Abs(b), Abs(a) % Abs(b))
GcdSeq(s) == LET RECURSIVE F(_)
                 F(i) == IF i = 0 THEN 0 ELSE Gcd(s[i], F(i-1))
             IN F(Len(s))
VARIABLES r, log     \* r: <<row1, row2>> each a sequence of ints (index 1..size) ; log: history with expected post-state
Init == r = << [i \in 1..4 |-> 0], [i \in 1..4 |-> 0] >> /\ log = <<>>
Big(s) == \E i \in 1..Len(s) : Abs(s[i]) > 1000
Step(op, k, i, j, v, c1, c2, nr) ==
   /\ ~Big(nr[1]) /\ ~Big(nr[2])
   /\ r' = nr
   /\ log' = Append(log, [op |-> op, k |-> k, i |-> i, j |-> j, v |-> v, c1 |-> c1, c2 |-> c2, post |-> nr])
Set2(k, s) == IF k = 1 THEN <<s, r[2]>> ELSE <<r[1], s>>
Ops == {"insert", "reset", "reset_after", "swap", "lincomb", "lincomb_range", "normalize", "delete_shift", "add_zeroes_shift", "assign_other", "m_swap"}
RE(S) == RandomElement(S)
Next ==
  /\ Len(log) < MaxLen
  /\ \E op \in Ops, k \in 1..2 : LET s == r[k] o == r[3-k] n == Len(s) IN
     \/ op = "insert" /\ \E i \in {RE(1..n)} : \E v \in {RE(Val)} : Step("insert", k, i-1, 0, v, 0, 0, Set2(k, [s EXCEPT ![i] = v]))
     \/ op = "reset" /\ \E i \in {RE(1..n)} : Step("reset", k, i-1, 0, 0, 0, 0, Set2(k, [s EXCEPT ![i] = 0]))
     \/ op = "reset_after" /\ \E i \in {RE(1..n)} : Step("reset_after", k, i-1, 0, 0, 0, 0, Set2(k, [t \in 1..n |-> IF t >= i THEN 0 ELSE s[t]]))
     \/ op = "swap" /\ \E i \in {RE(1..n)} : \E j \in {RE(1..n)} : Step("swap", k, i-1, j-1, 0, 0, 0, Set2(k, [s EXCEPT ![i] = s[j], ![j] = s[i]]))
     \/ op = "lincomb" /\ Len(o) = n /\ \E c1 \in {RE({-2,-1,1,2,3})} : \E c2 \in {RE({-2,-1,1,2,3})} : Step("lincomb", k, 0, 0, 0, c1, c2, Set2(k, [t \in 1..n |-> c1 * s[t] + c2 * o[t]]))
     \/ op = "lincomb_range" /\ Len(o) = n /\ \E c1 \in {RE({-2,-1,1,2})} : \E c2 \in {RE({-2,-1,1,2})} : \E a \in {RE(1..n)} : \E b \in {RE(a..(n+1))} :
              Step("lincomb_range", k, a-1, b-1, 0, c1, c2, Set2(k, [t \in 1..n |-> IF t >= a /\ t < b THEN c1 * s[t] + c2 * o[t] ELSE s[t]]))
     \/ op = "normalize" /\ LET g == GcdSeq(s) IN Step("normalize", k, 0, 0, 0, 0, 0, Set2(k, IF g = 0 THEN s ELSE [t \in 1..n |-> s[t] \div g]))
     \/ op = "delete_shift" /\ n > 1 /\ \E i \in {RE(1..n)} : Step("delete_shift", k, i-1, 0, 0, 0, 0, Set2(k, [t \in 1..(n-1) |-> IF t < i THEN s[t] ELSE s[t+1]]))
     \/ op = "add_zeroes_shift" /\ n + 2 <= MaxSize /\ \E i \in {RE(1..(n+1))} : \E z \in {RE(1..2)} :
              Step("add_zeroes_shift", k, i-1, z, 0, 0, 0, Set2(k, [t \in 1..(n+z) |-> IF t < i THEN s[t] ELSE IF t < i + z THEN 0 ELSE s[t-z]]))
     \/ op = "assign_other" /\ Step("assign_other", k, 0, 0, 0, 0, 0, Set2(k, o))
     \/ op = "m_swap" /\ Step("m_swap", k, 0, 0, 0, 0, 0, <<r[2], r[1]>>)
Spec == Init /\ [][Next]_<<r, log>>
EmitLog == Len(log) = MaxLen => PrintT(<<"BEH", ToJson(log)>>)
=====================================================================
