---------------------------- MODULE ST ----------------------------
EXTENDS NNCGens, Json, IOUtils
Tr == ndJsonDeserialize(IOEnv.TRACE)
NegRows(b) == IF b.k = "ge" THEN {[k |-> "gt", v |-> Neg(b.v)]}
              ELSE IF b.k = "gt" THEN {[k |-> "ge", v |-> Neg(b.v)]}
              ELSE {[k |-> "gt", v |-> b.v], [k |-> "gt", v |-> Neg(b.v)]}
Sub(A, Bs, m) == \A i \in 1..Len(Bs) : \A nr \in NegRows(Bs[i]) : HEmpty(Append(A, nr), m)
EqHH(A, Bs, m) == Sub(A, Bs, m) /\ Sub(Bs, A, m)
\* relation row for w REL ev/den : rs 0 <=, 1 =, 2 >=
RelRow(ev, den, rs) == LET sd == IF den > 0 THEN 1 ELSE -1
                           base == Append(ev, -den)
                       IN IF rs = 1 THEN [k |-> "eq", v |-> base]
                          ELSE IF rs = 0 THEN [k |-> "ge", v |-> Scale(sd, base)]
                          ELSE [k |-> "ge", v |-> Scale(-sd, base)]
\* template directions (as homogeneous vectors with 0 inhomogeneous term) for kind 0 box, 1 bds, 2 oct
Dirs(kind, m) == LET n == m - 1
                     u(i, s) == [t \in 1..m |-> IF t = i + 1 THEN s ELSE 0]
                     box == {u(i, s) : i \in 1..n, s \in {1, -1}}
                     bd == {Add(u(i, 1), u(j, -1)) : i \in 1..n, j \in (1..n)} \ {[t \in 1..m |-> 0]}
                     oc == {Add(u(i, s), u(j, t)) : i \in 1..n, j \in 1..n, s \in {1,-1}, t \in {1,-1}} \ {[t \in 1..m |-> 0]}
                 IN IF kind = 0 THEN box ELSE IF kind = 1 THEN box \cup bd ELSE box \cup oc
\* join best: for each direction d, bound = max of sups over X and Y ; join must satisfy d <= bound
JoinBest(X, Y, J, kind, m) ==
  LET GX == GensOf(X, m) GY == GensOf(Y, m)
  IN IF Len(GX) = 0 /\ Len(GY) = 0 THEN HEmpty(J, m)
     ELSE \A d \in Dirs(kind, m) :
       LET sx == IF Len(GX) = 0 THEN [ok |-> TRUE, none |-> TRUE, num |-> 0, den |-> 1] ELSE SupInfo(GX, d, 1) @@ [none |-> FALSE]
           sy == IF Len(GY) = 0 THEN [ok |-> TRUE, none |-> TRUE, num |-> 0, den |-> 1] ELSE SupInfo(GY, d, 1) @@ [none |-> FALSE]
       IN IF ~sx.ok \/ ~sy.ok THEN TRUE   \* unbounded: no requirement
          ELSE LET useX == sy.none \/ (~sx.none /\ sx.num * sy.den >= sy.num * sx.den)
                   b == IF useX THEN sx ELSE sy
               \* J subset of { d.x <= num/den }  i.e. row  num - den*(d.x) >= 0
               IN Sub(J, << [k |-> "ge", v |-> [t \in 1..m |-> IF t = 1 THEN b.num ELSE -b.den * d[t]]] >>, m)
Diffs(e) ==
  LET m == e.m  R == <<RelRow(e.ev, e.den, e.rs)>>  Rq == <<RelRow(e.ev, e.den, 1)>>
  IN (IF EqHH(e.X \o e.Y, e.inter, m) THEN {} ELSE {"inter"})
  \cup (IF Sub(e.X, e.join, m) /\ Sub(e.Y, e.join, m) THEN {} ELSE {"join-sound"})
  \cup (IF JoinBest(e.X, e.Y, e.join, e.kind, m) THEN {} ELSE {"join-best"})
  \cup (IF \A i \in 1..Len(e.Y) : \A nr \in NegRows(e.Y[i]) : Sub(Append(e.X, nr), e.diff, m) THEN {} ELSE {"diff-sound"})
  \cup (IF HEmpty(e.X \o e.Y, m) = e.disjoint THEN {} ELSE {"disjoint"})
  \cup (IF Sub(e.Y, e.X, m) = e.contains THEN {} ELSE {"contains"})
  \cup (IF HEmpty(e.X, m) = e.empty THEN {} ELSE {"empty"})
  \cup (IF EqHH(e.X, e.Y, m) = e.equal THEN {} ELSE {"equal"})
  \cup (IF Sub(ImageH(e.X, Rq, e.kc, m), e.aimg, m) THEN {} ELSE {"aimg"})
  \cup (IF Sub(PreimageH(e.X, Rq, e.kc, m), e.apre, m) THEN {} ELSE {"apre"})
  \cup (IF Sub(ImageH(e.X, R, e.kc, m), e.gimg, m) THEN {} ELSE {"gimg"})
  \cup (IF Sub(PreimageH(e.X, R, e.kc, m), e.gpre, m) THEN {} ELSE {"gpre"})
Bad == {<<Tr[l].id, Tr[l].dom, Diffs(Tr[l])>> : l \in {l \in 1..Len(Tr) : Diffs(Tr[l]) # {}}}
ASSUME PrintT(<<"DISAGREE", Bad>>)
VARIABLE x
Init == x = 0
Next == x' = x
=====================================================================
