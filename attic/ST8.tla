---------------------------- MODULE ST8 ----------------------------
EXTENDS NNCGens, Json, IOUtils
Tr == ndJsonDeserialize(IOEnv.TRACE)
NegRows(b) == IF b.k = "ge" THEN {[k |-> "gt", v |-> Neg(b.v)]}
              ELSE IF b.k = "gt" THEN {[k |-> "ge", v |-> Neg(b.v)]}
              ELSE {[k |-> "gt", v |-> b.v], [k |-> "gt", v |-> Neg(b.v)]}
Sub(A, Bs, m) == \A i \in 1..Len(Bs) : \A nr \in NegRows(Bs[i]) : HEmpty(Append(A, nr), m)
RelRow(ev, den, rs) == LET sd == IF den > 0 THEN 1 ELSE -1
                           base == Append(ev, -den)
                       IN IF rs = 1 THEN [k |-> "eq", v |-> base]
                          ELSE IF rs = 0 THEN [k |-> "ge", v |-> Scale(sd, base)]
                          ELSE [k |-> "ge", v |-> Scale(-sd, base)]
Diffs(e) ==
  LET m == e.m  R == <<RelRow(e.ev, e.den, e.rs)>>  Rq == <<RelRow(e.ev, e.den, 1)>>
  IN (IF Sub(e.X \o e.Y, e.inter, m) THEN {} ELSE {"inter-unsound"})
  \cup (IF Sub(e.X, e.join, m) /\ Sub(e.Y, e.join, m) THEN {} ELSE {"join-unsound"})
  \cup (IF \A i \in 1..Len(e.Y) : \A nr \in NegRows(e.Y[i]) : Sub(Append(e.X, nr), e.diff, m) THEN {} ELSE {"diff-unsound"})
  \cup (IF e.disjoint => HEmpty(e.X \o e.Y, m) THEN {} ELSE {"disjoint-claimed"})
  \cup (IF e.contains => Sub(e.Y, e.X, m) THEN {} ELSE {"contains-claimed"})
  \cup (IF e.empty => HEmpty(e.X, m) THEN {} ELSE {"empty-claimed"})
  \cup (IF Sub(ImageH(e.X, Rq, e.kc, m), e.aimg, m) THEN {} ELSE {"aimg"})
  \cup (IF Sub(PreimageH(e.X, Rq, e.kc, m), e.apre, m) THEN {} ELSE {"apre"})
  \cup (IF Sub(ImageH(e.X, R, e.kc, m), e.gimg, m) THEN {} ELSE {"gimg"})
  \cup (IF Sub(PreimageH(e.X, R, e.kc, m), e.gpre, m) THEN {} ELSE {"gpre"})
Bad == {<<Tr[l].id, Tr[l].dom, Diffs(Tr[l])>> : l \in {l \in 1..Len(Tr) : Diffs(Tr[l]) # {}}}
ASSUME PrintT(<<"DISAGREE", Cardinality(Bad), Bad>>)
VARIABLE x
Init == x = 0
Next == x' = x
=====================================================================
