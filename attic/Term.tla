---------------------------- MODULE Term ----------------------------
EXTENDS NNCGens, Json, IOUtils
Tr == ndJsonDeserialize(IOEnv.TRACE)
(* relation generators over (1, x'_1..x'_n, x_1..x_n); ranking f = mu0 + sum mu_i x_i, given as <<d, mu_1..mu_n, mu_0>> (divisor first, mu_0 last) *)
F(mu, g, n, primed) == \* value numerator of d*f at generator g: mu0*g0 + sum mu_i * coord ; for rays g0 = 0
   LET RECURSIVE S(_)
       S(i) == IF i = 0 THEN 0 ELSE mu[i+1] * g.v[1 + (IF primed THEN i ELSE n + i)] + S(i-1)
   IN mu[n+2] * g.v[1] + S(n)
\* is mu a ranking function for relation with generators V ?
Ranking(mu, V, n) ==
   /\ \A j \in 1..Len(V) :
        LET fx == F(mu, V[j], n, FALSE)  fxp == F(mu, V[j], n, TRUE)
        IN IF V[j].k = "line" THEN fx = 0 /\ fx - fxp = 0
           ELSE IF V[j].k = "ray" THEN fx >= 0 /\ fx - fxp >= 0
           ELSE fx - fxp > 0          \* points: strict decrease (closed polyhedron: min over vertices is the min if rays do not decrease it)
Emp(V) == ~HasPt(V)
\* brute force: does some ranking function with small coefficients exist?
Small == -3..3
Cands(n) == IF n = 1 THEN {<<1, a, c>> : a \in Small, c \in {0}} ELSE {<<1, a, b, c>> : a \in Small, b \in Small, c \in {0}}
Exists(V, n) == \E mu \in Cands(n) : Ranking(mu, V, n)
Diffs(e) ==
  LET n == e.n  V == e.V
      wf == SameSetHV(e.H, e.V, e.m)
  IN (IF wf THEN {} ELSE {"wf"})
  \cup (IF e.ms = e.pr THEN {} ELSE {"ms-pr-differ"})
  \cup (IF e.ms = e.ms1 /\ e.pr = e.pr1 THEN {} ELSE {"test-vs-one"})
  \cup (IF e.ms1 /\ ~Emp(V) /\ ~Ranking(e.mu, V, n) THEN {"mu-ms-not-ranking"} ELSE {})
  \cup (IF e.pr1 /\ ~Emp(V) /\ ~Ranking(e.mupr, V, n) THEN {"mu-pr-not-ranking"} ELSE {})
  \cup (IF e.space_empty = ~e.ms THEN {} ELSE {"space-vs-test"})
  \cup (IF ~Emp(V) /\ \E j \in 1..Len(e.space) : e.space[j].k = "point" /\ ~Ranking(e.space[j].v, V, n) THEN {"space-point-not-ranking"} ELSE {})
  \cup (IF ~e.ms /\ (Emp(V) \/ Exists(V, n)) THEN {"false-but-ranking-exists"} ELSE {})
Bad == {<<Tr[l].id, Diffs(Tr[l])>> : l \in {l \in 1..Len(Tr) : Diffs(Tr[l]) # {}}}
ASSUME PrintT(<<"DISAGREE", Cardinality(Bad), Bad>>)
VARIABLE xx
Init == xx = 0
Next == xx' = xx
=====================================================================
