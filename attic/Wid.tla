---------------------------- MODULE Wid ----------------------------
EXTENDS NNCGens, Json, IOUtils
Tr == ndJsonDeserialize(IOEnv.TRACE)
Sub(a, b) == QContains(b.H, a.V)            \* a subset of b (verified pairs)
Same(a, b) == Sub(a, b) /\ Sub(b, a)
Cnt(S, P(_)) == Cardinality({i \in 1..Len(S) : P(S[i])})
NZ(v) == Cardinality({i \in 2..Len(v) : v[i] = 0})
Cert(p, m) == [ad |-> (m - 1) - Cnt(p.H, LAMBDA h : h.k = "eq"),
               ld |-> Cnt(p.V, LAMBDA g : g.k = "line"),
               nc |-> Len(p.H),
               np |-> Cnt(p.V, LAMBDA g : g.k \in {"point", "cpoint"}),
               rz |-> [j \in 0..(m-2) |-> Cnt(p.V, LAMBDA g : g.k = "ray" /\ NZ(g.v) = j)]]
\* new certificate strictly stabilizing w.r.t. old
RECURSIVE LexLess(_, _, _, _)
LexLess(a, b, j, top) == IF j > top THEN FALSE ELSE IF a[j] # b[j] THEN a[j] < b[j] ELSE LexLess(a, b, j+1, top)
Stab(new, old, m) ==
  IF new.ad # old.ad THEN new.ad > old.ad
  ELSE IF new.ld # old.ld THEN new.ld > old.ld
  ELSE IF new.nc # old.nc THEN new.nc < old.nc
  ELSE IF new.np # old.np THEN new.np < old.np
  ELSE LexLess(new.rz, old.rz, 0, m-2)
StepDiffs(s, m) ==
  LET wf == SameSetHV(s.z.H, s.z.V, m) /\ SameSetHV(s.w.H, s.w.V, m) /\ SameSetHV(s.xprev.H, s.xprev.V, m) /\ SameSetHV(s.w2.H, s.w2.V, m) /\ SameSetHV(s.wtok.H, s.wtok.V, m)
      stationary == Same(s.w, s.xprev)
  IN (IF wf THEN {} ELSE {"wf"})
  \cup (IF Sub(s.z, s.w) THEN {} ELSE {"not-upper-bound"})
  \cup (IF Same(s.w, s.w2) THEN {} ELSE {"representation-dependent"})
  \cup (IF stationary \/ Stab(Cert(s.w, m), Cert(s.xprev, m), m) THEN {} ELSE {"certificate"})
  \* tokens: with 1 token: if plain widening w equals z (no precision loss) then result = w and tok stays 1; else result = z and tok = 0
  \cup (IF Same(s.w, s.z) THEN (IF Same(s.wtok, s.w) /\ s.tok = 1 THEN {} ELSE {"token-noloss"})
        ELSE (IF Same(s.wtok, s.z) /\ s.tok = 0 THEN {} ELSE {"token-loss"}))
Diffs(e) == UNION {StepDiffs(e.steps[i], e.m) : i \in 1..Len(e.steps)}
Bad == {<<Tr[l].id, Tr[l].w, Diffs(Tr[l])>> : l \in {l \in 1..Len(Tr) : Diffs(Tr[l]) # {}}}
ASSUME PrintT(<<"DISAGREE", Cardinality(Bad), Bad>>)
VARIABLE xx
Init == xx = 0
Next == xx' = xx
=====================================================================
