---------------------------- MODULE Wrap ----------------------------
EXTENDS NNCGens, Json, IOUtils
Tr == ndJsonDeserialize(IOEnv.TRACE)
InH(H, p) == \A i \in 1..Len(H) : LET d == Dot(H[i].v, p) IN IF H[i].k = "eq" THEN d = 0 ELSE IF H[i].k = "gt" THEN d > 0 ELSE d >= 0
WrapU(x) == x - 256 * (IF x >= 0 THEN x \div 256 ELSE -((-x + 255) \div 256))
WrapS(x) == LET u == WrapU(x) IN IF u < 128 THEN u ELSE u - 256
Lo(sg) == IF sg THEN -128 ELSE 0
Hi(sg) == IF sg THEN 127 ELSE 255
\* candidate coordinates on one axis: sweep in 1-D, sparse set otherwise
Sweep == -560..560
Sparse == {k * 64 + d : k \in -9..9, d \in {-1, 0, 1}} \cup {-450, -333, -200, -77, 5, 13, 99, 201, 449}
Pts(m) == IF m = 2 THEN {<<1, a>> : a \in Sweep} ELSE {<<1, a, b>> : a \in Sparse, b \in Sparse}
\* images of integer point p under wrapping of coordinates in vars (set of coordinate indexes)
Images(p, vars, sg, ov) ==
  LET m == Len(p)
      opts(i) == IF i \notin vars THEN {p[i]}
                 ELSE IF ov = 0 THEN {IF sg THEN WrapS(p[i]) ELSE WrapU(p[i])}
                 ELSE IF ov = 1 THEN (IF p[i] >= Lo(sg) /\ p[i] <= Hi(sg) THEN {p[i]} ELSE {Lo(sg), Hi(sg), (Lo(sg) + Hi(sg)) \div 2})  \* undefined: any in-range value (3 samples)
                 ELSE (IF p[i] >= Lo(sg) /\ p[i] <= Hi(sg) THEN {p[i]} ELSE {})                                                       \* impossible: out-of-range points may be dropped
  IN IF m = 2 THEN {<<1, a>> : a \in opts(2)} ELSE {<<1, a, b>> : a \in opts(2), b \in opts(3)}
GuardOK(e, q) == ~e.guard \/ q[2] <= e.gb
Diffs(e) ==
  IF e.exc # "" THEN {}
  ELSE LET vars == {e.vars[i] : i \in 1..Len(e.vars)}
           bad == { <<p, q>> \in UNION { {<<p, q>> : q \in Images(p, vars, e.signed, e.ov)} : p \in {p \in Pts(e.m) : InH(e.X, p)} } : GuardOK(e, q) /\ ~InH(e.Y, q) }
       IN IF bad = {} THEN {} ELSE {<<"lost", CHOOSE b \in bad : TRUE>>}
Bad == {<<Tr[l].id, Tr[l].dom, Tr[l].ov, Diffs(Tr[l])>> : l \in {l \in 1..Len(Tr) : Diffs(Tr[l]) # {}}}
ASSUME PrintT(<<"DISAGREE", Cardinality(Bad), Bad>>)
VARIABLE x
Init == x = 0
Next == x' = x
=====================================================================
