#include "ppl.hh"
#include <iostream>
#include <sstream>
#include <cstdio>
using namespace Parma_Polyhedra_Library;
typedef Checked_Number<int8_t, Debug_WRD_Extended_Number_Policy> N8;
template <class F> void binop(const char* name, F f){
  Rounding_Dir dirs[3]={ROUND_DOWN, ROUND_UP, ROUND_IGNORE}; const char* dn[3]={"down","up","ignore"};
  for(int d=0; d<3; ++d) for(int a=-128;a<=127;++a){
    std::printf("{\"op\":\"%s\",\"dir\":\"%s\",\"a\":%d,\"r\":[", name, dn[d], a);
    for(int b=-128;b<=127;++b){ N8 x,y,z; x.raw_value()=(int8_t)a; y.raw_value()=(int8_t)b; z.raw_value()=0; Result r=f(z,x,y,dirs[d]); std::printf("%s[%d,%d]", b==-128?"":",", (int)r, (int)z.raw_value()); }
    std::printf("]}\n"); } }
template <class F> void unop(const char* name, F f){
  Rounding_Dir dirs[3]={ROUND_DOWN, ROUND_UP, ROUND_IGNORE}; const char* dn[3]={"down","up","ignore"};
  for(int d=0; d<3; ++d){ std::printf("{\"op\":\"%s\",\"dir\":\"%s\",\"a\":0,\"r\":[", name, dn[d]);
    for(int b=-128;b<=127;++b){ N8 y,z; y.raw_value()=(int8_t)b; z.raw_value()=0; Result r=f(z,y,dirs[d]); std::printf("%s[%d,%d]", b==-128?"":",", (int)r, (int)z.raw_value()); }
    std::printf("]}\n"); } }
int main(){
  binop("add", [](N8& z,const N8& x,const N8& y,Rounding_Dir d){ return add_assign_r(z,x,y,d); });
  binop("sub", [](N8& z,const N8& x,const N8& y,Rounding_Dir d){ return sub_assign_r(z,x,y,d); });
  binop("mul", [](N8& z,const N8& x,const N8& y,Rounding_Dir d){ return mul_assign_r(z,x,y,d); });
  binop("div", [](N8& z,const N8& x,const N8& y,Rounding_Dir d){ return div_assign_r(z,x,y,d); });
  binop("idiv", [](N8& z,const N8& x,const N8& y,Rounding_Dir d){ return idiv_assign_r(z,x,y,d); });
  binop("rem", [](N8& z,const N8& x,const N8& y,Rounding_Dir d){ return rem_assign_r(z,x,y,d); });
  binop("gcd", [](N8& z,const N8& x,const N8& y,Rounding_Dir d){ return gcd_assign_r(z,x,y,d); });
  binop("lcm", [](N8& z,const N8& x,const N8& y,Rounding_Dir d){ return lcm_assign_r(z,x,y,d); });
  unop("neg", [](N8& z,const N8& y,Rounding_Dir d){ return neg_assign_r(z,y,d); });
  unop("abs", [](N8& z,const N8& y,Rounding_Dir d){ return abs_assign_r(z,y,d); });
  unop("sqrt", [](N8& z,const N8& y,Rounding_Dir d){ return sqrt_assign_r(z,y,d); });
  unop("assign", [](N8& z,const N8& y,Rounding_Dir d){ return assign_r(z,y,d); });
  return 0; }
