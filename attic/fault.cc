#include "ppl.hh"
#include <iostream>
#include <cstdlib>
#include <new>
using namespace Parma_Polyhedra_Library;
static long live = 0, total = 0, fail_at = -1; static bool counting = false;
static void* my_alloc(size_t n){ if(counting){ if(fail_at>=0 && total==fail_at){ ++total; throw std::bad_alloc(); } ++total; } void* p=std::malloc(n?n:1); if(!p) throw std::bad_alloc(); ++live; return p; }
void* operator new(size_t n){ return my_alloc(n); }
void* operator new[](size_t n){ return my_alloc(n); }
void operator delete(void* p) noexcept { if(p){ --live; std::free(p);} }
void operator delete[](void* p) noexcept { if(p){ --live; std::free(p);} }
void operator delete(void* p, size_t) noexcept { if(p){ --live; std::free(p);} }
void operator delete[](void* p, size_t) noexcept { if(p){ --live; std::free(p);} }
extern "C" void* g_malloc(size_t n){ return my_alloc(n); }
extern "C" void* g_realloc(void* q, size_t, size_t n){ if(!q) return my_alloc(n); if(counting){ if(fail_at>=0 && total==fail_at){ ++total; throw std::bad_alloc(); } ++total; } void* p=std::realloc(q,n?n:1); if(!p) throw std::bad_alloc(); return p; }
extern "C" void g_free(void* p, size_t){ if(p){ --live; std::free(p);} }
static void scenario(){ Variable x(0), y(1), z(2);
  C_Polyhedron p(3); p.add_constraint(x>=0); p.add_constraint(y>=0); p.add_constraint(z>=0); p.add_constraint(x+y+z<=7); p.add_constraint(2*x-y<=5);
  C_Polyhedron q(3, EMPTY); q.add_generator(point(x+y)); q.add_generator(point(3*z+x)); q.add_generator(ray(x+z));
  (void) p.minimized_generators(); p.poly_hull_assign(q); p.affine_image(x, x+2*y-z, 3); (void) p.minimized_constraints(); p.intersection_assign(q); (void) p.is_empty(); }
int main(){ mp_set_memory_functions(g_malloc, g_realloc, g_free);
  // warm-up
  for(int i=0;i<3;++i) scenario();
  long base=live; counting=true; total=0; fail_at=-1; scenario(); counting=false; long N=total; long after=live;
  std::cout<<"allocations in scenario: "<<N<<" live before "<<base<<" after "<<after<<"\n";
  long leaks=0, thrown=0, other=0;
  for(long k=0;k<N;++k){ long b=live; counting=true; total=0; fail_at=k; try{ scenario(); } catch(std::bad_alloc&){ ++thrown; } catch(...){ ++other; } counting=false; fail_at=-1; if(live!=b){ ++leaks; if(leaks<=5) std::cout<<"  k="<<k<<" live delta "<<(live-b)<<"\n"; }
    // library still usable
    scenario(); }
  for(long k : {127L,666L,667L}) for(int rep=0;rep<3;++rep){ long b=live; counting=true; total=0; fail_at=k; try{ scenario(); } catch(...){} counting=false; fail_at=-1; std::cout<<"  repeat k="<<k<<" delta "<<(live-b)<<"\n"; scenario(); }
  std::cout<<"fault points "<<N<<" bad_alloc "<<thrown<<" other "<<other<<" leaking "<<leaks<<"\n"; return 0; }
