#include "ppl.hh"
#include <iostream>
#include <sstream>
#include <random>
using namespace Parma_Polyhedra_Library;
typedef std::mt19937 RNG;
static std::string vec(const std::vector<long>& v){ std::ostringstream o; o<<"["; for(size_t i=0;i<v.size();++i){ if(i) o<<","; o<<v[i]; } o<<"]"; return o.str(); }
static long L(const Coefficient& c){ return c.get_si(); }
std::string dumpH(const Constraint_System& cs, unsigned n){
  std::ostringstream o; o<<"["; bool first=true;
  for (Constraint_System::const_iterator i=cs.begin(); i!=cs.end(); ++i){
    std::vector<long> v(n+1); v[0]=L(i->inhomogeneous_term());
    for(unsigned k=0;k<n;++k) v[k+1] = (k < i->space_dimension()) ? L(i->coefficient(Variable(k))) : 0;
    const char* kk = i->is_equality()?"eq":(i->is_strict_inequality()?"gt":"ge");
    if(!first) o<<","; first=false; o<<"{\"k\":\""<<kk<<"\",\"v\":"<<vec(v)<<"}";
  } o<<"]"; return o.str(); }
std::string dumpV(const Generator_System& gs, unsigned n){
  std::ostringstream o; o<<"["; bool first=true;
  for (Generator_System::const_iterator i=gs.begin(); i!=gs.end(); ++i){
    std::vector<long> v(n+1); v[0]= (i->is_point()||i->is_closure_point()) ? L(i->divisor()) : 0;
    for(unsigned k=0;k<n;++k) v[k+1] = (k < i->space_dimension()) ? L(i->coefficient(Variable(k))) : 0;
    const char* kk = i->is_line()?"line":i->is_ray()?"ray":i->is_point()?"point":"cpoint";
    if(!first) o<<","; first=false; o<<"{\"k\":\""<<kk<<"\",\"v\":"<<vec(v)<<"}";
  } o<<"]"; return o.str(); }
Linear_Expression rndexpr(RNG& r, unsigned n, int lo, int hi, bool inh=true){
  std::uniform_int_distribution<int> d(lo,hi); Linear_Expression e; 
  for(unsigned k=0;k<n;++k) e += d(r)*Variable(k);
  if (n>0) e += 0*Variable(n-1);
  if(inh) e += d(r); return e; }
template<class PH> void emit(int id, const PH& p, unsigned n, bool corrupt, RNG& r){
  PH a(p), b(p), c(p), d(p);
  std::string rawH=dumpH(a.constraints(),n), minH=dumpH(b.minimized_constraints(),n);
  std::string rawV=dumpV(c.generators(),n), minV=dumpV(d.minimized_generators(),n);
  std::cout<<"{\"id\":"<<id<<",\"m\":"<<n+1<<",\"expect\":"<<(corrupt?"false":"true")
    <<",\"rawH\":"<<rawH<<",\"minH\":"<<minH<<",\"rawV\":"<<rawV<<",\"minV\":"<<minV<<"}\n";
}
int main(int argc,char**argv){
  int N=atoi(argv[1]); unsigned seed=atoi(argv[2]); RNG r(seed);
  for(int id=0; id<N; ++id){
    unsigned n = 1 + r()%3; bool nnc = r()%2;
    int nc = r()%5, ng = r()%4;
    if (nnc) {
      NNC_Polyhedron p(n);
      if (r()%3==0) { p = NNC_Polyhedron(n, EMPTY); Linear_Expression e=rndexpr(r,n,-2,2,false); p.add_generator(point(e, 1+r()%2)); for(int k=0;k<ng;++k){ int t=r()%4; Linear_Expression f=rndexpr(r,n,-2,2,false); if(t==0) p.add_generator(point(f,1+r()%3)); else if(t==1) p.add_generator(closure_point(f,1+r()%2)); else if(t==2 && !f.all_homogeneous_terms_are_zero()) p.add_generator(ray(f)); else if(!f.all_homogeneous_terms_are_zero()) p.add_generator(line(f)); } }
      for(int k=0;k<nc;++k){ Linear_Expression e=rndexpr(r,n,-2,2); int t=r()%4; if(t==0) p.add_constraint(e==0); else if(t==1) p.add_constraint(e>0); else p.add_constraint(e>=0); }
      emit(id,p,n,false,r);
    } else {
      C_Polyhedron p(n);
      if (r()%3==0) { p = C_Polyhedron(n, EMPTY); Linear_Expression e=rndexpr(r,n,-2,2,false); p.add_generator(point(e, 1+r()%2)); for(int k=0;k<ng;++k){ int t=r()%3; Linear_Expression f=rndexpr(r,n,-2,2,false); if(t==0) p.add_generator(point(f,1+r()%3)); else if(t==1 && !f.all_homogeneous_terms_are_zero()) p.add_generator(ray(f)); else if(!f.all_homogeneous_terms_are_zero()) p.add_generator(line(f)); } }
      for(int k=0;k<nc;++k){ Linear_Expression e=rndexpr(r,n,-2,2); int t=r()%4; if(t==0) p.add_constraint(e==0); else p.add_constraint(e>=0); }
      emit(id,p,n,false,r);
    }
  }
}
