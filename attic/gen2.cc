#include "ppl.hh"
#include <iostream>
#include <sstream>
#include <random>
using namespace Parma_Polyhedra_Library;
typedef std::mt19937 RNG;
static std::string vec(const std::vector<long>& v){ std::ostringstream o; o<<"["; for(size_t i=0;i<v.size();++i){ if(i) o<<","; o<<v[i]; } o<<"]"; return o.str(); }
static long L(const Coefficient& c){ return c.get_si(); }
struct Row { std::string k; std::vector<long> v; };
std::vector<Row> rowsH(const Constraint_System& cs, unsigned n){ std::vector<Row> R;
  for (Constraint_System::const_iterator i=cs.begin(); i!=cs.end(); ++i){ Row w; w.v.resize(n+1); w.v[0]=L(i->inhomogeneous_term());
    for(unsigned k=0;k<n;++k) w.v[k+1] = (k < i->space_dimension()) ? L(i->coefficient(Variable(k))) : 0;
    w.k = i->is_equality()?"eq":(i->is_strict_inequality()?"gt":"ge"); R.push_back(w);} return R; }
std::vector<Row> rowsV(const Generator_System& gs, unsigned n){ std::vector<Row> R;
  for (Generator_System::const_iterator i=gs.begin(); i!=gs.end(); ++i){ Row w; w.v.resize(n+1); w.v[0]= (i->is_point()||i->is_closure_point()) ? L(i->divisor()) : 0;
    for(unsigned k=0;k<n;++k) w.v[k+1] = (k < i->space_dimension()) ? L(i->coefficient(Variable(k))) : 0;
    w.k = i->is_line()?"line":i->is_ray()?"ray":i->is_point()?"point":"cpoint"; R.push_back(w);} return R; }
std::string js(const std::vector<Row>& R){ std::ostringstream o; o<<"["; for(size_t i=0;i<R.size();++i){ if(i) o<<","; o<<"{\"k\":\""<<R[i].k<<"\",\"v\":"<<vec(R[i].v)<<"}"; } o<<"]"; return o.str(); }
Linear_Expression le(const std::vector<long>& v, unsigned n, bool inh){ Linear_Expression e; for(unsigned k=0;k<n;++k) e += v[k+1]*Variable(k); if(n>0) e+=0*Variable(n-1); if(inh) e+=v[0]; return e; }
NNC_Polyhedron fromH(const std::vector<Row>& R, unsigned n){ NNC_Polyhedron p(n); for(auto&w:R){ Linear_Expression e=le(w.v,n,true); if(w.k=="eq") p.add_constraint(e==0); else if(w.k=="gt") p.add_constraint(e>0); else p.add_constraint(e>=0);} return p; }
bool validV(const std::vector<Row>& R){ if(R.empty()) return true; bool pt=false; for(auto&w:R){ if(w.k=="point") pt=true; if((w.k=="point"||w.k=="cpoint") && w.v[0]<=0) return false; if((w.k=="ray"||w.k=="line")){ bool z=true; for(size_t i=1;i<w.v.size();++i) if(w.v[i]) z=false; if(z) return false; } } return pt; }
NNC_Polyhedron fromV(const std::vector<Row>& R, unsigned n){ NNC_Polyhedron p(n,EMPTY); 
  for(auto&w:R) if(w.k=="point") p.add_generator(point(le(w.v,n,false), w.v[0]));
  for(auto&w:R){ Linear_Expression e=le(w.v,n,false); if(w.k=="cpoint") p.add_generator(closure_point(e,w.v[0])); else if(w.k=="ray") p.add_generator(ray(e)); else if(w.k=="line") p.add_generator(line(e)); } return p; }
Linear_Expression rndexpr(RNG& r, unsigned n, int lo, int hi, bool inh=true){
  std::uniform_int_distribution<int> d(lo,hi); Linear_Expression e; for(unsigned k=0;k<n;++k) e += d(r)*Variable(k); if (n>0) e += 0*Variable(n-1); if(inh) e += d(r); return e; }
void mutate(std::vector<Row>& R, RNG& r, bool isV){ if(R.empty()) return; size_t i=r()%R.size(); int t=r()%4;
  if(t==0) R.erase(R.begin()+i);
  else if(t==1){ size_t j=r()%R[i].v.size(); R[i].v[j] += (r()%2?1:-1); }
  else if(t==2){ if(isV){ if(R[i].k=="point") R[i].k="cpoint"; else if(R[i].k=="cpoint") R[i].k="point"; else if(R[i].k=="ray") R[i].k="line"; else R[i].k="ray"; } else { if(R[i].k=="ge") R[i].k="gt"; else if(R[i].k=="gt") R[i].k="ge"; else R[i].k="ge"; } }
  else { Row w=R[r()%R.size()]; size_t j=r()%w.v.size(); w.v[j]+= (r()%2?1:-1); R.push_back(w);} }
int main(int argc,char**argv){ int N=atoi(argv[1]); unsigned seed=atoi(argv[2]); RNG r(seed); int id=0;
  while(id<N){ unsigned n=1+r()%3; NNC_Polyhedron p(n); int nc=1+r()%4;
    if(r()%2){ p=NNC_Polyhedron(n,EMPTY); p.add_generator(point(rndexpr(r,n,-2,2,false),1+r()%2)); int ng=r()%4; for(int k=0;k<ng;++k){ int t=r()%4; Linear_Expression f=rndexpr(r,n,-2,2,false); if(t==0) p.add_generator(point(f,1+r()%3)); else if(t==1) p.add_generator(closure_point(f,1+r()%2)); else if(f.all_homogeneous_terms_are_zero()) continue; else if(t==2) p.add_generator(ray(f)); else p.add_generator(line(f)); } nc=r()%2; }
    for(int k=0;k<nc;++k){ Linear_Expression e=rndexpr(r,n,-2,2); int t=r()%4; if(t==0) p.add_constraint(e==0); else if(t==1) p.add_constraint(e>0); else p.add_constraint(e>=0); }
    NNC_Polyhedron a(p), b(p), c(p), d(p);
    std::vector<Row> rawH=rowsH(a.constraints(),n), minH=rowsH(b.minimized_constraints(),n), rawV=rowsV(c.generators(),n), minV=rowsV(d.minimized_generators(),n);
    // mutate one of minV / rawH / rawV / minH
    int which=r()%2;  // 0: check rawH vs mutated minV ; 1: check mutated rawV vs minH
    std::vector<Row> H = which==0? rawH : minH, V = which==0? minV : rawV;
    if(r()%2) mutate(V,r,true); else mutate(H,r,false);
    if(!validV(V)) continue;
    if(which==1){ // H must keep explicit equalities: require H minimal per PPL else skip
      NNC_Polyhedron q=fromH(H,n); NNC_Polyhedron q2(q); if(rowsH(q2.minimized_constraints(),n).size()!=H.size()) continue; }
    if(which==0){ NNC_Polyhedron q=fromV(V,n); NNC_Polyhedron q2(q); if(rowsV(q2.minimized_generators(),n).size()!=V.size()) continue; }
    bool eq = (fromH(H,n) == fromV(V,n));
    std::cout<<"{\"id\":"<<id<<",\"m\":"<<n+1<<",\"which\":"<<which<<",\"expect\":"<<(eq?"true":"false")<<",\"H\":"<<js(H)<<",\"V\":"<<js(V)<<"}\n"; ++id; }
}
