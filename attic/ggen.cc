#include "ppl.hh"
#include <iostream>
#include <sstream>
#include <random>
using namespace Parma_Polyhedra_Library;
typedef std::mt19937 RNG;
static std::string vec(const std::vector<long>& v){ std::ostringstream o; o<<"["; for(size_t i=0;i<v.size();++i){ if(i) o<<","; o<<v[i]; } o<<"]"; return o.str(); }
static long L(const Coefficient& c){ return c.get_si(); }
struct CRow { long mod; std::vector<long> v; };
struct GRow { std::string k; std::vector<long> v; };
std::vector<CRow> rowsC(const Congruence_System& cs, unsigned n){ std::vector<CRow> R;
  for (Congruence_System::const_iterator i=cs.begin(); i!=cs.end(); ++i){ CRow w; w.v.resize(n+1); w.v[0]=L(i->inhomogeneous_term());
    for(unsigned k=0;k<n;++k) w.v[k+1] = (k < i->space_dimension()) ? L(i->coefficient(Variable(k))) : 0; w.mod=L(i->modulus()); R.push_back(w);} return R; }
std::vector<GRow> rowsG(const Grid_Generator_System& gs, unsigned n){ std::vector<GRow> R;
  for (Grid_Generator_System::const_iterator i=gs.begin(); i!=gs.end(); ++i){ GRow w; w.v.resize(n+1); w.v[0]= i->is_line()?0:L(i->divisor());
    for(unsigned k=0;k<n;++k) w.v[k+1] = (k < i->space_dimension()) ? L(i->coefficient(Variable(k))) : 0;
    w.k = i->is_line()?"line":i->is_parameter()?"param":"point"; R.push_back(w);} return R; }
std::string jsC(const std::vector<CRow>& R){ std::ostringstream o; o<<"["; for(size_t i=0;i<R.size();++i){ if(i) o<<","; o<<"{\"mod\":"<<R[i].mod<<",\"v\":"<<vec(R[i].v)<<"}"; } o<<"]"; return o.str(); }
std::string jsG(const std::vector<GRow>& R){ std::ostringstream o; o<<"["; for(size_t i=0;i<R.size();++i){ if(i) o<<","; o<<"{\"k\":\""<<R[i].k<<"\",\"v\":"<<vec(R[i].v)<<"}"; } o<<"]"; return o.str(); }
Linear_Expression le(const std::vector<long>& v, unsigned n, bool inh){ Linear_Expression e; for(unsigned k=0;k<n;++k) e += v[k+1]*Variable(k); if(n>0) e+=0*Variable(n-1); if(inh) e+=v[0]; return e; }
Grid fromC(const std::vector<CRow>& R, unsigned n){ Grid g(n); for(auto&w:R){ Linear_Expression e=le(w.v,n,true); g.add_congruence((e %= 0) / w.mod);} return g; }
bool validG(const std::vector<GRow>& R){ if(R.empty()) return true; bool pt=false; for(auto&w:R){ bool z=true; for(size_t i=1;i<w.v.size();++i) if(w.v[i]) z=false; if(w.k=="point"){pt=true; if(w.v[0]<=0) return false;} else if(w.k=="param"){ if(w.v[0]<=0) return false; } else { if(w.v[0]!=0||z) return false; } } return pt; }
Grid fromG(const std::vector<GRow>& R, unsigned n){ Grid g(n,EMPTY);
  for(auto&w:R) if(w.k=="point") g.add_grid_generator(grid_point(le(w.v,n,false), w.v[0]));
  for(auto&w:R){ Linear_Expression e=le(w.v,n,false); if(w.k=="param") g.add_grid_generator(parameter(e,w.v[0])); else if(w.k=="line") g.add_grid_generator(grid_line(e)); } return g; }
Linear_Expression rndexpr(RNG& r, unsigned n, int lo, int hi, bool inh=true){
  std::uniform_int_distribution<int> d(lo,hi); Linear_Expression e; for(unsigned k=0;k<n;++k) e += d(r)*Variable(k); if (n>0) e += 0*Variable(n-1); if(inh) e += d(r); return e; }
int main(int argc,char**argv){ int N=atoi(argv[1]); unsigned seed=atoi(argv[2]); int mutate=atoi(argv[3]); RNG r(seed); int id=0;
  while(id<N){ unsigned n=1+r()%3; Grid g(n);
    if(r()%2){ g=Grid(n,EMPTY); g.add_grid_generator(grid_point(rndexpr(r,n,-2,2,false),1+r()%2)); int ng=r()%4; for(int k=0;k<ng;++k){ int t=r()%4; Linear_Expression f=rndexpr(r,n,-3,3,false); if(t==0) g.add_grid_generator(grid_point(f,1+r()%3)); else if(f.all_homogeneous_terms_are_zero()) continue; else if(t<=2) g.add_grid_generator(parameter(f,1+r()%2)); else g.add_grid_generator(grid_line(f)); } }
    int nc=r()%4; for(int k=0;k<nc;++k){ Linear_Expression e=rndexpr(r,n,-3,3); int t=r()%4; g.add_congruence((e %= 0) / (t==0?0:(1+r()%4))); }
    Grid a(g), b(g), c(g), d(g);
    std::vector<CRow> rawC=rowsC(a.congruences(),n), minC=rowsC(b.minimized_congruences(),n);
    std::vector<GRow> rawG=rowsG(c.grid_generators(),n), minG=rowsG(d.minimized_grid_generators(),n);
    bool e1=true,e2=true,e3=true;
    if(mutate){ int w=r()%4; 
      if(w==0 && !minG.empty()){ size_t i=r()%minG.size(); size_t j=r()%minG[i].v.size(); minG[i].v[j]+= (r()%2?1:-1); }
      else if(w==1 && !minC.empty()){ size_t i=r()%minC.size(); if(r()%2){ size_t j=r()%minC[i].v.size(); minC[i].v[j]+= (r()%2?1:-1);} else minC[i].mod += 1; }
      else if(w==2 && !rawG.empty()){ size_t i=r()%rawG.size(); if(r()%3==0) rawG.erase(rawG.begin()+i); else { size_t j=r()%rawG[i].v.size(); rawG[i].v[j]+= (r()%2?1:-1);} }
      else if(w==3 && !rawC.empty()){ size_t i=r()%rawC.size(); int t=r()%3; if(t==0) rawC.erase(rawC.begin()+i); else if(t==1){ size_t j=r()%rawC[i].v.size(); rawC[i].v[j]+= (r()%2?1:-1);} else rawC[i].mod+=1; }
      if(!validG(minG)||!validG(rawG)) continue;
      Grid gmC=fromC(minC,n), gmG=fromG(minG,n), grC=fromC(rawC,n), grG=fromG(rawG,n);
      // require the "min" ones still minimal (same row counts after minimization) else skip
      { Grid x(gmG); if(rowsG(x.minimized_grid_generators(),n).size()!=minG.size()) continue; Grid y(gmC); if(rowsC(y.minimized_congruences(),n).size()!=minC.size()) continue; }
      if(gmG.is_empty()||gmC.is_empty()||grC.is_empty()||grG.is_empty()) continue; // nonempty cases only
      e1 = (gmC==gmG); e2 = (grG==gmC); e3=(grC==gmG);
    } else if (g.is_empty()) continue;
    std::cout<<"{\"id\":"<<id<<",\"m\":"<<n+1<<",\"e1\":"<<(e1?"true":"false")<<",\"e2\":"<<(e2?"true":"false")<<",\"e3\":"<<(e3?"true":"false")
      <<",\"rawC\":"<<jsC(rawC)<<",\"minC\":"<<jsC(minC)<<",\"rawG\":"<<jsG(rawG)<<",\"minG\":"<<jsG(minG)<<"}\n"; ++id; }
}
