#include "ppl.hh"
#include <iostream>
#include <sstream>
#include <random>
using namespace Parma_Polyhedra_Library;
typedef std::mt19937 RNG;
static std::string vec(const std::vector<long>& v){ std::ostringstream o; o<<"["; for(size_t i=0;i<v.size();++i){ if(i) o<<","; o<<v[i]; } o<<"]"; return o.str(); }
static long L(const Coefficient& c){ return c.get_si(); }
std::string jsC(const Congruence_System& cs, unsigned n){ std::ostringstream o; o<<"["; bool f=true;
  for (Congruence_System::const_iterator i=cs.begin(); i!=cs.end(); ++i){ std::vector<long> v(n+1); v[0]=L(i->inhomogeneous_term()); for(unsigned k=0;k<n;++k) v[k+1]=(k<i->space_dimension())?L(i->coefficient(Variable(k))):0; if(!f)o<<","; f=false; o<<"{\"mod\":"<<L(i->modulus())<<",\"v\":"<<vec(v)<<"}"; } o<<"]"; return o.str(); }
std::string jsG(const Grid_Generator_System& gs, unsigned n){ std::ostringstream o; o<<"["; bool f=true;
  for (Grid_Generator_System::const_iterator i=gs.begin(); i!=gs.end(); ++i){ std::vector<long> v(n+1); v[0]= i->is_line()?0:L(i->divisor()); for(unsigned k=0;k<n;++k) v[k+1]=(k<i->space_dimension())?L(i->coefficient(Variable(k))):0; if(!f)o<<","; f=false; o<<"{\"k\":\""<<(i->is_line()?"line":i->is_parameter()?"param":"point")<<"\",\"v\":"<<vec(v)<<"}"; } o<<"]"; return o.str(); }
std::vector<long> rndv(RNG& r, unsigned n, int lo, int hi){ std::uniform_int_distribution<int> d(lo,hi); std::vector<long> v(n+1); for(auto&x:v) x=d(r); return v; }
Linear_Expression le(const std::vector<long>& v, unsigned n, bool inh=true){ Linear_Expression e; for(unsigned k=0;k<n;++k) e += v[k+1]*Variable(k); if(n>0) e+=0*Variable(n-1); if(inh) e+=v[0]; return e; }
const char* B(bool b){ return b?"true":"false"; }
Grid rndgrid(RNG& r, unsigned n){ Grid g(n);
  if(r()%2){ g=Grid(n,EMPTY); g.add_grid_generator(grid_point(le(rndv(r,n,-2,2),n,false),1+r()%2)); int ng=r()%4; for(int k=0;k<ng;++k){ int t=r()%4; Linear_Expression f=le(rndv(r,n,-3,3),n,false); if(t==0) g.add_grid_generator(grid_point(f,1+r()%3)); else if(f.all_homogeneous_terms_are_zero()) continue; else if(t<=2) g.add_grid_generator(parameter(f,1+r()%2)); else g.add_grid_generator(grid_line(f)); } }
  int nc=r()%3; for(int k=0;k<nc;++k){ Linear_Expression e=le(rndv(r,n,-3,3),n); int t=r()%4; g.add_congruence((e %= 0) / (t==0?0:(1+r()%4))); }
  return g; }
std::string desc(const Grid& g, unsigned n, const char* name){ Grid a(g),b(g),c(g),d(g); std::ostringstream o;
  o<<"\""<<name<<"\":{\"empty\":"<<B(Grid(g).is_empty())<<",\"rawC\":"<<jsC(a.congruences(),n)<<",\"minC\":"<<jsC(b.minimized_congruences(),n)<<",\"rawG\":"<<jsG(c.grid_generators(),n)<<",\"minG\":"<<jsG(d.minimized_grid_generators(),n)<<"}"; return o.str(); }
int main(int argc,char**argv){ int N=atoi(argv[1]); RNG r(atoi(argv[2]));
  for(int id=0; id<N; ++id){ unsigned n=1+r()%3; Grid x=rndgrid(r,n), y=rndgrid(r,n); if(r()%4==0){ y=x; if(r()%2) y.add_congruence((le(rndv(r,n,-2,2),n) %= 0)/ (1+r()%3)); }
    std::ostringstream o; o<<"{\"id\":"<<id<<",\"m\":"<<n+1<<","<<desc(x,n,"X")<<","<<desc(y,n,"Y");
    { Grid a(x),b(y); a.intersection_assign(b); o<<","<<desc(a,n,"inter"); }
    { Grid a(x),b(y); a.upper_bound_assign(b); o<<","<<desc(a,n,"join"); }
    { Grid a(x),b(y); a.difference_assign(b); o<<","<<desc(a,n,"diff"); }
    { Grid a(x),b(y); a.time_elapse_assign(b); o<<","<<desc(a,n,"telapse"); }
    { Grid a(x),b(y); o<<",\"contains\":"<<B(a.contains(b)); } { Grid a(x),b(y); o<<",\"disjoint\":"<<B(a.is_disjoint_from(b)); } { Grid a(x),b(y); o<<",\"equal\":"<<B(a==b); }
    unsigned kv=r()%n; std::vector<long> ev=rndv(r,n,-2,2); long den=(r()%4==0)?-1:1+(long)(r()%2);
    o<<",\"kc\":"<<kv+2<<",\"ev\":"<<vec(ev)<<",\"den\":"<<den;
    { Grid a(x); a.affine_image(Variable(kv), le(ev,n), den); o<<","<<desc(a,n,"aimg"); }
    { Grid a(x); a.affine_preimage(Variable(kv), le(ev,n), den); o<<","<<desc(a,n,"apre"); }
    std::vector<long> cv=rndv(r,n,-2,2); long cm=r()%4; o<<",\"c\":{\"mod\":"<<cm<<",\"v\":"<<vec(cv)<<"}";
    { Grid a(x); Poly_Con_Relation rel=a.relation_with((le(cv,n) %= 0)/cm); o<<",\"rc\":{\"sat\":"<<B(rel.implies(Poly_Con_Relation::saturates()))<<",\"inc\":"<<B(rel.implies(Poly_Con_Relation::is_included()))<<",\"dis\":"<<B(rel.implies(Poly_Con_Relation::is_disjoint()))<<",\"si\":"<<B(rel.implies(Poly_Con_Relation::strictly_intersects()))<<"}"; }
    o<<"}\n"; std::cout<<o.str(); } }
