#include "ppl.hh"
#include <iostream>
#include <sstream>
#include <random>
using namespace Parma_Polyhedra_Library;
typedef Rational_Interval I;
typedef std::mt19937 RNG;
// bound spec: kind 0 = -inf/+inf (unbounded), else value num/den with open flag
struct B { bool inf; long num, den; bool open; };
std::string jb(const B& b){ std::ostringstream o; o<<"{\"inf\":"<<(b.inf?"true":"false")<<",\"num\":"<<b.num<<",\"den\":"<<b.den<<",\"open\":"<<(b.open?"true":"false")<<"}"; return o.str(); }
I mk(const B& lo, const B& hi){ I x; x.assign(UNIVERSE);
  if(!lo.inf){ mpq_class v(lo.num, lo.den); v.canonicalize(); x.add_constraint(i_constraint(lo.open?GREATER_THAN:GREATER_OR_EQUAL, v)); }
  if(!hi.inf){ mpq_class v(hi.num, hi.den); v.canonicalize(); x.add_constraint(i_constraint(hi.open?LESS_THAN:LESS_OR_EQUAL, v)); }
  return x; }
std::string ji(const I& x){ std::ostringstream o; if(x.is_empty()) { o<<"{\"empty\":true}"; return o.str(); }
  o<<"{\"empty\":false,\"lo\":"; if(x.lower_is_boundary_infinity()) o<<"{\"inf\":true,\"num\":0,\"den\":1,\"open\":true}"; else { mpq_class v=x.lower(); o<<"{\"inf\":false,\"num\":"<<v.get_num().get_si()<<",\"den\":"<<v.get_den().get_si()<<",\"open\":"<<(x.lower_is_open()?"true":"false")<<"}"; }
  o<<",\"hi\":"; if(x.upper_is_boundary_infinity()) o<<"{\"inf\":true,\"num\":0,\"den\":1,\"open\":true}"; else { mpq_class v=x.upper(); o<<"{\"inf\":false,\"num\":"<<v.get_num().get_si()<<",\"den\":"<<v.get_den().get_si()<<",\"open\":"<<(x.upper_is_open()?"true":"false")<<"}"; }
  o<<"}"; return o.str(); }
B rb(RNG& r){ B b; b.inf = r()%6==0; b.num=(long)(r()%9)-4; b.den=1+r()%2; b.open=r()%2; if(b.inf){b.num=0;b.den=1;b.open=true;} return b; }
int main(int argc,char**argv){ int N=atoi(argv[1]); RNG r(atoi(argv[2]));
  for(int id=0;id<N;++id){ B a=rb(r),b=rb(r),c=rb(r),d=rb(r); I x=mk(a,b), y=mk(c,d);
    std::cout<<"{\"id\":"<<id<<",\"x\":"<<ji(x)<<",\"y\":"<<ji(y);
    { I z; z.add_assign(x,y); std::cout<<",\"add\":"<<ji(z);} { I z; z.sub_assign(x,y); std::cout<<",\"sub\":"<<ji(z);} { I z; z.mul_assign(x,y); std::cout<<",\"mul\":"<<ji(z);}
    { I z; z.div_assign(x,y); std::cout<<",\"div\":"<<ji(z);} { I z; z.neg_assign(x); std::cout<<",\"neg\":"<<ji(z);}
    { I z(x); z.join_assign(y); std::cout<<",\"join\":"<<ji(z);} { I z(x); z.intersect_assign(y); std::cout<<",\"meet\":"<<ji(z);} { I z(x); z.difference_assign(y); std::cout<<",\"diff\":"<<ji(z);}
    std::cout<<"}\n"; } }
