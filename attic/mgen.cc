#include "ppl.hh"
#include <iostream>
#include <sstream>
#include <random>
#include <unistd.h>
#include <sys/wait.h>
using namespace Parma_Polyhedra_Library;
typedef std::mt19937 RNG;
static std::string vec(const std::vector<long>& v){ std::ostringstream o; o<<"["; for(size_t i=0;i<v.size();++i){ if(i) o<<","; o<<v[i]; } o<<"]"; return o.str(); }
static long L(const Coefficient& c){ return c.get_si(); }
std::vector<long> rndv(RNG& r, unsigned n, int lo, int hi){ std::uniform_int_distribution<int> d(lo,hi); std::vector<long> v(n+1); for(auto&x:v) x=d(r); return v; }
Linear_Expression le(const std::vector<long>& v, unsigned n){ Linear_Expression e; for(unsigned k=0;k<n;++k) e += v[k+1]*Variable(k); if(n>0) e+=0*Variable(n-1); e+=v[0]; return e; }
std::string solve_log(MIP_Problem& mip, unsigned n){ std::ostringstream o; MIP_Problem_Status st=mip.solve();
  o<<"{\"status\":\""<<(st==UNFEASIBLE_MIP_PROBLEM?"unfeasible":st==UNBOUNDED_MIP_PROBLEM?"unbounded":"optimized")<<"\"";
  if(st==OPTIMIZED_MIP_PROBLEM){ Coefficient nu,de; mip.optimal_value(nu,de); Generator g=mip.optimizing_point(); std::vector<long> p(n+1); p[0]=L(g.divisor()); for(unsigned k=0;k<n;++k) p[k+1]=(k<g.space_dimension())?L(g.coefficient(Variable(k))):0; o<<",\"num\":"<<L(nu)<<",\"den\":"<<L(de)<<",\"pt\":"<<vec(p); }
  else o<<",\"num\":0,\"den\":1,\"pt\":[]";
  o<<",\"sat\":"<<(mip.is_satisfiable()?"true":"false")<<"}"; return o.str(); }
int main(int argc,char**argv){ int N=atoi(argv[1]); RNG r(atoi(argv[2]));
  for(int id=0; id<N; ++id){ unsigned n=1+r()%3; int nc=1+r()%5; std::vector<std::vector<long> > rows; std::vector<int> kinds; Constraint_System cs;
    for(int c=0;c<nc;++c){ std::vector<long> v=rndv(r,n,-3,3); int k=r()%6==0; rows.push_back(v); kinds.push_back(k); cs.insert(k? Constraint(le(v,n)==0) : Constraint(le(v,n)>=0)); }
    if(r()%2) for(unsigned k=0;k<n;++k){ std::vector<long> v(n+1,0); v[k+1]=1; rows.push_back(v); kinds.push_back(0); cs.insert(Variable(k)>=0); }
    if(r()%2) for(unsigned k=0;k<n;++k){ std::vector<long> v(n+1,0); v[k+1]=-1; v[0]=1+r()%5; rows.push_back(v); kinds.push_back(0); cs.insert(le(v,n)>=0); }
    std::vector<long> obj=rndv(r,n,-3,3); bool maxm=r()%2; Variables_Set ints; std::vector<long> iv; for(unsigned k=0;k<n;++k) if(r()%2){ ints.insert(Variable(k)); iv.push_back(k+2); }
    int pricing=r()%3;
    std::ostringstream o; o<<"{\"id\":"<<id<<",\"m\":"<<n+1<<",\"H\":["; for(size_t c=0;c<rows.size();++c){ if(c) o<<","; o<<"{\"k\":\""<<(kinds[c]?"eq":"ge")<<"\",\"v\":"<<vec(rows[c])<<"}"; } o<<"],\"obj\":"<<vec(obj)<<",\"max\":"<<(maxm?"true":"false")<<",\"ints\":"<<vec(iv);
    std::cout.flush(); int fd[2]; pipe(fd); pid_t pid=fork();
    if(pid==0){ close(fd[0]); alarm(10); std::string s;
      try{ // fresh
        MIP_Problem mip(n, cs, le(obj,n), maxm?MAXIMIZATION:MINIMIZATION); mip.add_to_integer_space_dimensions(ints);
        mip.set_control_parameter(pricing==0?MIP_Problem::PRICING_STEEPEST_EDGE_FLOAT:pricing==1?MIP_Problem::PRICING_STEEPEST_EDGE_EXACT:MIP_Problem::PRICING_TEXTBOOK);
        s += ",\"fresh\":"+solve_log(mip,n);
        // incremental: add constraints one at a time with solves in between, set objective late
        MIP_Problem inc(n); inc.set_control_parameter(pricing==0?MIP_Problem::PRICING_STEEPEST_EDGE_FLOAT:pricing==1?MIP_Problem::PRICING_STEEPEST_EDGE_EXACT:MIP_Problem::PRICING_TEXTBOOK);
        int c=0; for(Constraint_System::const_iterator i=cs.begin(); i!=cs.end(); ++i,++c){ inc.add_constraint(*i); if(c%2==0) (void) inc.is_satisfiable(); if(c==1){ inc.set_objective_function(le(obj,n)); inc.set_optimization_mode(maxm?MAXIMIZATION:MINIMIZATION); (void) inc.solve(); } }
        inc.add_to_integer_space_dimensions(ints); inc.set_objective_function(le(obj,n)); inc.set_optimization_mode(maxm?MAXIMIZATION:MINIMIZATION);
        s += ",\"incr\":"+solve_log(inc,n);
      } catch(std::exception& e){ s += std::string(",\"exc\":\"")+e.what()+"\""; }
      write(fd[1], s.data(), s.size()); _exit(0); }
    close(fd[1]); std::string buf; char tmp[4096]; ssize_t k; while((k=read(fd[0],tmp,sizeof tmp))>0) buf.append(tmp,k); close(fd[0]); int stt; waitpid(pid,&stt,0);
    if(WIFSIGNALED(stt)) o<<",\"crash\":"<<WTERMSIG(stt); else o<<buf; o<<"}\n"; std::cout<<o.str(); } }
