#include "ppl.hh"
#include <iostream>
#include <sstream>
#include <random>
#include <csignal>
#include <unistd.h>
#include <sys/wait.h>
using namespace Parma_Polyhedra_Library;
typedef std::mt19937 RNG;
static long L(const Coefficient& c){ return c.get_si(); }
std::string expr(const Linear_Expression& e, unsigned D){ std::ostringstream o; o<<"["<<L(e.inhomogeneous_term()); for(unsigned k=0;k<D;++k){ o<<","<<((k<e.space_dimension())?L(e.coefficient(Variable(k))):0);} o<<"]"; return o.str(); }
std::string con(const Constraint& c, unsigned D){ std::ostringstream o; Linear_Expression e(c.expression()); o<<"{\"k\":\""<<(c.is_equality()?"eq":c.is_strict_inequality()?"gt":"ge")<<"\",\"v\":"<<expr(e,D)<<"}"; return o.str(); }
std::string node(const PIP_Tree_Node* n, unsigned D0, unsigned nv_dims, const std::vector<unsigned>& vars){
  if(!n) return "{\"kind\":\"bot\"}";
  std::ostringstream o; unsigned D=D0; o<<"{\"art\":[";
  bool f=true; for(PIP_Tree_Node::Artificial_Parameter_Sequence::const_iterator i=n->art_parameter_begin(); i!=n->art_parameter_end(); ++i){ if(!f) o<<","; f=false; Linear_Expression e(*i); o<<"{\"e\":"<<expr(e,D)<<",\"den\":"<<L(i->denominator())<<"}"; ++D; }
  o<<"],\"cs\":["; f=true; const Constraint_System& cs=n->constraints(); for(Constraint_System::const_iterator i=cs.begin(); i!=cs.end(); ++i){ if(!f) o<<","; f=false; o<<con(*i,D); } o<<"]";
  if(const PIP_Solution_Node* s=n->as_solution()){ o<<",\"kind\":\"sol\",\"sol\":["; for(size_t k=0;k<vars.size();++k){ if(k) o<<","; o<<expr(s->parametric_values(Variable(vars[k])),D);} o<<"]"; }
  else { const PIP_Decision_Node* d=n->as_decision(); o<<",\"kind\":\"dec\",\"t\":"<<node(d->child_node(true),D,nv_dims,vars)<<",\"f\":"<<node(d->child_node(false),D,nv_dims,vars); }
  o<<"}"; return o.str(); }
int main(int argc,char**argv){ int N=atoi(argv[1]); RNG r(atoi(argv[2]));
  for(int id=0; id<N; ++id){ unsigned nv=1+r()%2, np=1+r()%2, D=nv+np; std::uniform_int_distribution<int> cd(-2,2), bd(-3,3);
    // choose which dims are params: last np
    std::vector<unsigned> vars, pars; for(unsigned k=0;k<D;++k){ if(k<nv) vars.push_back(k); else pars.push_back(k);} 
    Variables_Set ps; for(unsigned p: pars) ps.insert(Variable(p));
    Constraint_System cs; int nc=1+r()%3; std::ostringstream pc; pc<<"[";
    for(int c=0;c<nc;++c){ Linear_Expression e; for(unsigned k=0;k<D;++k) e+=cd(r)*Variable(k); e+=0*Variable(D-1); e+=bd(r); int t=r()%6; Constraint cc = t==0? Constraint(e==0) : Constraint(e>=0); cs.insert(cc); if(c) pc<<","; pc<<con(cc,D); }
    pc<<"]";
    std::cout.flush(); int fd[2]; pipe(fd); pid_t pid=fork();
    if(pid==0){ close(fd[0]); alarm(5); std::ostringstream o;
      try { PIP_Problem pip(D, cs.begin(), cs.end(), ps); PIP_Problem_Status st=pip.solve();
        o<<"{\"id\":"<<id<<",\"D\":"<<D<<",\"nv\":"<<nv<<",\"np\":"<<np<<",\"cs\":"<<pc.str()<<",\"status\":\""<<(st==UNFEASIBLE_PIP_PROBLEM?"unfeasible":"optimized")<<"\",\"tree\":"<<node(st==OPTIMIZED_PIP_PROBLEM?pip.solution():0,D,nv,vars)<<"}\n"; }
      catch(std::exception& e){ o<<"{\"id\":"<<id<<",\"exc\":\""<<e.what()<<"\"}\n"; }
      std::string s=o.str(); write(fd[1], s.data(), s.size()); _exit(0); }
    close(fd[1]); std::string buf; char tmp[4096]; ssize_t k; while((k=read(fd[0],tmp,sizeof tmp))>0) buf.append(tmp,k); close(fd[0]); int stt; waitpid(pid,&stt,0);
    if(WIFSIGNALED(stt)) std::cout<<"{\"id\":"<<id<<",\"D\":"<<D<<",\"nv\":"<<nv<<",\"np\":"<<np<<",\"cs\":"<<pc.str()<<",\"status\":\"crash"<<WTERMSIG(stt)<<"\",\"tree\":{\"kind\":\"bot\"}}\n"; else std::cout<<buf; }
}
