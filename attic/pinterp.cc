// Mini op-interpreter for (C/NNC) polyhedra: reads flattened histories, runs each in a forked child, writes ndjson events.
#include "ppl.hh"
#include <iostream>
#include <fstream>
#include <sstream>
#include <vector>
#include <string>
#include <cstring>
#include <unistd.h>
#include <sys/wait.h>
using namespace Parma_Polyhedra_Library;
static std::string vec(const std::vector<long>& v){ std::ostringstream o; o<<"["; for(size_t i=0;i<v.size();++i){ if(i) o<<","; o<<v[i]; } o<<"]"; return o.str(); }
static bool big=false;
static long L(const Coefficient& c){ if(!c.fits_slong_p() || c > 1000000 || c < -1000000){ big=true; return 0; } return c.get_si(); }
static std::string jsH(const Constraint_System& cs, unsigned n){ std::ostringstream o; o<<"["; bool f=true;
  for (Constraint_System::const_iterator i=cs.begin(); i!=cs.end(); ++i){ std::vector<long> v(n+1); v[0]=L(i->inhomogeneous_term()); for(unsigned k=0;k<n;++k) v[k+1]=(k<i->space_dimension())?L(i->coefficient(Variable(k))):0; if(!f)o<<","; f=false; o<<"{\"k\":\""<<(i->is_equality()?"eq":i->is_strict_inequality()?"gt":"ge")<<"\",\"v\":"<<vec(v)<<"}"; } o<<"]"; return o.str(); }
static std::string jsV(const Generator_System& gs, unsigned n){ std::ostringstream o; o<<"["; bool f=true;
  for (Generator_System::const_iterator i=gs.begin(); i!=gs.end(); ++i){ std::vector<long> v(n+1); v[0]=(i->is_point()||i->is_closure_point())?L(i->divisor()):0; for(unsigned k=0;k<n;++k) v[k+1]=(k<i->space_dimension())?L(i->coefficient(Variable(k))):0; if(!f)o<<","; f=false; o<<"{\"k\":\""<<(i->is_line()?"line":i->is_ray()?"ray":i->is_point()?"point":"cpoint")<<"\",\"v\":"<<vec(v)<<"}"; } o<<"]"; return o.str(); }
struct Slot { Polyhedron* p; bool nnc; Slot():p(0),nnc(false){} };
static Polyhedron* clone(const Slot& s){ return s.nnc ? (Polyhedron*) new NNC_Polyhedron(*static_cast<NNC_Polyhedron*>(s.p)) : (Polyhedron*) new C_Polyhedron(*static_cast<C_Polyhedron*>(s.p)); }
// description of a slot taken from copies (does not perturb the object)
static std::string desc(const Slot& s){ if(!s.p) return "{\"alive\":false,\"n\":0,\"topo\":\"C\",\"H\":[],\"V\":[],\"st\":\"\"}";
  unsigned n=s.p->space_dimension(); Polyhedron* a=clone(s); Polyhedron* b=clone(s);
  std::string H=jsH(a->minimized_constraints(),n), V=jsV(b->minimized_generators(),n); delete a; delete b;
  std::ostringstream st; s.p->ascii_dump(st); std::string d=st.str(); size_t p1=d.find('\n'); size_t p2=d.find('\n',p1+1); std::string status=d.substr(p1+1,p2-p1-1);
  return std::string("{\"alive\":true,\"n\":")+std::to_string(n)+",\"topo\":\""+(s.nnc?"NNC":"C")+"\",\"H\":"+H+",\"V\":"+V+",\"st\":\""+status+"\"}"; }
static Linear_Expression le(const std::vector<long>& v, unsigned n, bool inh=true){ Linear_Expression e; for(unsigned k=0;k<n && k+1<v.size();++k) e += v[k+1]*Variable(k); if(n>0) e+=0*Variable(n-1); if(inh && !v.empty()) e+=v[0]; return e; }
struct Op { std::string op, topo, k; int dst, src, n, var, den; std::vector<long> v, w; };
static Relation_Symbol rs(const std::string& k){ return k=="le"?LESS_OR_EQUAL:k=="eq"?EQUAL:k=="ge"?GREATER_OR_EQUAL:k=="lt"?LESS_THAN:GREATER_THAN; }
static void run_history(const std::vector<Op>& H, int fd){
  Slot S[4]; std::ostringstream out;
  auto flush=[&](){ std::string s=out.str(); out.str(""); if(!s.empty()) (void)!write(fd, s.data(), s.size()); };
  out<<"{\"e\":\"Reset\"}\n"; flush();
  for(size_t t=0;t<H.size();++t){ const Op& o=H[t]; Slot& d=S[o.dst]; Slot& s=S[o.src>0?o.src:o.dst]; std::string ret="null", exc="", obs="null"; unsigned n = d.p? d.p->space_dimension():0; big=false;
    try {
      if(o.op=="new_universe"||o.op=="new_empty"){ delete d.p; d.nnc=(o.topo=="NNC"); Degenerate_Element k=(o.op=="new_empty")?EMPTY:UNIVERSE; d.p = d.nnc? (Polyhedron*)new NNC_Polyhedron(o.n,k):(Polyhedron*)new C_Polyhedron(o.n,k); }
      else if(!d.p){ exc="dead"; }
      else if(o.op=="add_constraint"||o.op=="refine_with_constraint"||o.op=="relation_with_constraint"){ Linear_Expression e=le(o.v,n); Constraint c = o.k=="eq"?Constraint(e==0):o.k=="gt"?Constraint(e>0):Constraint(e>=0);
          if(o.op=="add_constraint") d.p->add_constraint(c); else if(o.op=="refine_with_constraint") d.p->refine_with_constraint(c);
          else { Poly_Con_Relation r=d.p->relation_with(c); ret=std::string("{\"sat\":")+(r.implies(Poly_Con_Relation::saturates())?"true":"false")+",\"inc\":"+(r.implies(Poly_Con_Relation::is_included())?"true":"false")+",\"dis\":"+(r.implies(Poly_Con_Relation::is_disjoint())?"true":"false")+",\"si\":"+(r.implies(Poly_Con_Relation::strictly_intersects())?"true":"false")+"}"; } }
      else if(o.op=="add_generator"||o.op=="relation_with_generator"){ Linear_Expression e=le(o.v,n,false); long dv=o.v.empty()?1:o.v[0]; Generator g = o.k=="point"?point(e,dv):o.k=="cpoint"?closure_point(e,dv):o.k=="ray"?ray(e):line(e);
          if(o.op=="add_generator") d.p->add_generator(g); else { Poly_Gen_Relation r=d.p->relation_with(g); ret=r.implies(Poly_Gen_Relation::subsumes())?"true":"false"; } }
      else if(o.op=="constraints"){ obs=jsH(d.p->constraints(),n); } else if(o.op=="min_constraints"){ obs=jsH(d.p->minimized_constraints(),n); }
      else if(o.op=="generators"){ obs=jsV(d.p->generators(),n); } else if(o.op=="min_generators"){ obs=jsV(d.p->minimized_generators(),n); }
      else if(o.op=="is_empty") ret=d.p->is_empty()?"true":"false"; else if(o.op=="is_universe") ret=d.p->is_universe()?"true":"false"; else if(o.op=="is_bounded") ret=d.p->is_bounded()?"true":"false";
      else if(o.op=="topological_closure") d.p->topological_closure_assign();
      else if(o.op=="intersection") d.p->intersection_assign(*s.p); else if(o.op=="poly_hull") d.p->poly_hull_assign(*s.p); else if(o.op=="poly_difference") d.p->poly_difference_assign(*s.p); else if(o.op=="time_elapse") d.p->time_elapse_assign(*s.p);
      else if(o.op=="contains") ret=d.p->contains(*s.p)?"true":"false"; else if(o.op=="is_disjoint_from") ret=d.p->is_disjoint_from(*s.p)?"true":"false"; else if(o.op=="equals") ret=(*d.p==*s.p)?"true":"false";
      else if(o.op=="copy_from"){ if(&d!=&s){ Polyhedron* c=clone(s); delete d.p; d.p=c; d.nnc=s.nnc; } else { if(d.nnc) *static_cast<NNC_Polyhedron*>(d.p)=*static_cast<NNC_Polyhedron*>(d.p); else *static_cast<C_Polyhedron*>(d.p)=*static_cast<C_Polyhedron*>(d.p);} }
      else if(o.op=="swap"){ d.p->m_swap(*s.p); }
      else if(o.op=="H79_widening"){ exc="skipped"; } else if(o.op=="simplify_using_context"){ ret=d.p->simplify_using_context_assign(*s.p)?"true":"false"; }
      else if(o.op=="affine_image") d.p->affine_image(Variable(o.var), le(o.v,n), o.den); else if(o.op=="affine_preimage") d.p->affine_preimage(Variable(o.var), le(o.v,n), o.den);
      else if(o.op=="gen_affine_image") d.p->generalized_affine_image(Variable(o.var), rs(o.k), le(o.v,n), o.den); else if(o.op=="gen_affine_preimage") d.p->generalized_affine_preimage(Variable(o.var), rs(o.k), le(o.v,n), o.den);
      else if(o.op=="bounded_affine_image") d.p->bounded_affine_image(Variable(o.var), le(o.v,n), le(o.w,n), o.den); else if(o.op=="bounded_affine_preimage") d.p->bounded_affine_preimage(Variable(o.var), le(o.v,n), le(o.w,n), o.den);
      else if(o.op=="add_dims_embed") d.p->add_space_dimensions_and_embed(1); else if(o.op=="add_dims_project") d.p->add_space_dimensions_and_project(1);
      else if(o.op=="remove_higher") d.p->remove_higher_space_dimensions(n>0?n-1:0); else if(o.op=="unconstrain") d.p->unconstrain(Variable(o.var));
      else if(o.op=="expand") d.p->expand_space_dimension(Variable(o.var),1); else if(o.op=="fold"){ Variables_Set vs; vs.insert(Variable(n-1)); if(o.var==(int)n-1) exc="skipped"; else d.p->fold_space_dimensions(vs, Variable(o.var)); }
      else if(o.op=="ascii_roundtrip"){ std::stringstream ss; d.p->ascii_dump(ss); std::string t1=ss.str(); Polyhedron* q = d.nnc?(Polyhedron*)new NNC_Polyhedron():(Polyhedron*)new C_Polyhedron(); bool ok=q->ascii_load(ss); std::stringstream s2; q->ascii_dump(s2); ret=std::string("{\"ok\":")+(ok?"true":"false")+",\"same\":"+((s2.str()==t1)?"true":"false")+",\"OK\":"+(q->OK()?"true":"false")+"}"; delete d.p; d.p=q; }
      else exc="unknown-op";
    } catch(std::invalid_argument& e){ exc="invalid_argument"; } catch(std::length_error&){ exc="length_error"; } catch(std::domain_error&){ exc="domain_error"; } catch(std::logic_error&){ exc="logic_error"; } catch(std::overflow_error&){ exc="overflow_error"; } catch(std::bad_alloc&){ exc="bad_alloc"; } catch(std::exception&){ exc="exception"; }
    out<<"{\"e\":\"Op\",\"t\":"<<t<<",\"op\":\""<<o.op<<"\",\"dst\":"<<o.dst<<",\"src\":"<<o.src<<",\"argn\":"<<o.n<<",\"topo\":\""<<o.topo<<"\",\"k\":\""<<o.k<<"\",\"var\":"<<o.var<<",\"den\":"<<o.den<<",\"v\":"<<vec(o.v)<<",\"w\":"<<vec(o.w)
       <<",\"ret\":"<<ret<<",\"exc\":\""<<exc<<"\",\"obs\":"<<obs<<",\"post\":["<<desc(S[1])<<","<<desc(S[2])<<","<<desc(S[3])<<"],\"ok\":"<<((!d.p||d.p->OK())?"true":"false")<<",\"big\":"<<(big?"true":"false")<<"}\n"; flush();
    if(big){ out<<"{\"e\":\"Reset\"}\n"; flush(); for(int i=1;i<=3;++i){ delete S[i].p; S[i].p=0; } } }
}
int main(int argc,char**argv){ std::ifstream in(argv[1]); std::string line; std::vector<Op> H; long nh=0;
  auto runit=[&](){ if(H.empty()) return; ++nh; int fd[2]; if(pipe(fd)) return; pid_t pid=fork(); if(pid==0){ close(fd[0]); alarm(20); run_history(H, fd[1]); _exit(0); }
     close(fd[1]); std::string buf; char tmp[65536]; ssize_t k; while((k=read(fd[0],tmp,sizeof tmp))>0) buf.append(tmp,k); close(fd[0]); int st; waitpid(pid,&st,0);
     // keep only complete lines
     size_t last=buf.rfind('\n'); if(last!=std::string::npos) std::cout<<buf.substr(0,last+1); if(WIFSIGNALED(st)) std::cout<<"{\"e\":\"Crash\",\"sig\":"<<WTERMSIG(st)<<",\"hist\":"<<nh<<"}\n"; H.clear(); };
  while(std::getline(in,line)){ if(line=="BEGIN"){ H.clear(); continue; } if(line=="END"){ runit(); continue; }
    std::istringstream is(line); Op o; size_t nv,nw; is>>o.op>>o.dst>>o.src>>o.n>>o.topo>>o.k>>o.var>>o.den>>nv; o.v.resize(nv); for(auto&x:o.v) is>>x; is>>nw; o.w.resize(nw); for(auto&x:o.w) is>>x; H.push_back(o); }
  return 0; }
