#include "ppl.hh"
#include <iostream>
#include <sstream>
#include <random>
using namespace Parma_Polyhedra_Library;
typedef std::mt19937 RNG;
static std::string vec(const std::vector<long>& v){ std::ostringstream o; o<<"["; for(size_t i=0;i<v.size();++i){ if(i) o<<","; o<<v[i]; } o<<"]"; return o.str(); }
static long L(const Coefficient& c){ return c.get_si(); }
std::string jsH(const Constraint_System& cs, unsigned n){ std::ostringstream o; o<<"["; bool f=true;
  for (Constraint_System::const_iterator i=cs.begin(); i!=cs.end(); ++i){ std::vector<long> v(n+1); v[0]=L(i->inhomogeneous_term()); for(unsigned k=0;k<n;++k) v[k+1]=(k<i->space_dimension())?L(i->coefficient(Variable(k))):0; if(!f)o<<","; f=false; o<<"{\"k\":\""<<(i->is_equality()?"eq":i->is_strict_inequality()?"gt":"ge")<<"\",\"v\":"<<vec(v)<<"}"; } o<<"]"; return o.str(); }
std::string jsC(const Congruence_System& cs, unsigned n){ std::ostringstream o; o<<"["; bool f=true;
  for (Congruence_System::const_iterator i=cs.begin(); i!=cs.end(); ++i){ std::vector<long> v(n+1); v[0]=L(i->inhomogeneous_term()); for(unsigned k=0;k<n;++k) v[k+1]=(k<i->space_dimension())?L(i->coefficient(Variable(k))):0; if(!f)o<<","; f=false; o<<"{\"mod\":"<<L(i->modulus())<<",\"v\":"<<vec(v)<<"}"; } o<<"]"; return o.str(); }
std::vector<long> rndv(RNG& r, unsigned n, int lo, int hi){ std::uniform_int_distribution<int> d(lo,hi); std::vector<long> v(n+1); for(auto&x:v) x=d(r); return v; }
Linear_Expression le(const std::vector<long>& v, unsigned n){ Linear_Expression e; for(unsigned k=0;k<n;++k) e += v[k+1]*Variable(k); if(n>0) e+=0*Variable(n-1); e+=v[0]; return e; }
template<class P> void one(int& id, RNG& r, const char* name){ unsigned n=1+r()%2; P p(n); std::ostringstream cs, gs; cs<<"["; gs<<"["; bool f1=true,f2=true;
  int nc=1+r()%3, ng=1+r()%2;
  for(int i=0;i<nc;++i){ std::vector<long> v=rndv(r,n,-3,3); bool eq=r()%5==0; Constraint c = eq? Constraint(le(v,n)==0):Constraint(le(v,n)>=0); p.refine_with_constraint(c); if(!f1)cs<<","; f1=false; cs<<"{\"k\":\""<<(eq?"eq":"ge")<<"\",\"v\":"<<vec(v)<<"}"; }
  for(int i=0;i<ng;++i){ std::vector<long> v=rndv(r,n,-3,3); long m=r()%4; p.refine_with_congruence((le(v,n) %= 0)/m); if(!f2)gs<<","; f2=false; gs<<"{\"mod\":"<<m<<",\"v\":"<<vec(v)<<"}"; }
  cs<<"]"; gs<<"]";
  P q(p); bool emp=q.is_empty();
  P w(p); const C_Polyhedron& d1=w.domain1(); const Grid& d2=w.domain2(); C_Polyhedron a(d1); Grid b(d2);
  // affine image through product (soundness pointwise)
  unsigned kv=r()%n; std::vector<long> ev=rndv(r,n,-2,2); long den=1+r()%2; P im(p); im.affine_image(Variable(kv), le(ev,n), den); C_Polyhedron ia(im.domain1()); Grid ib(im.domain2());
  std::cout<<"{\"id\":"<<id++<<",\"prod\":\""<<name<<"\",\"m\":"<<n+1<<",\"cs\":"<<cs.str()<<",\"cgs\":"<<gs.str()<<",\"empty\":"<<(emp?"true":"false")
    <<",\"d1\":"<<jsH(a.constraints(),n)<<",\"d2\":"<<jsC(b.congruences(),n)<<",\"d2empty\":"<<(b.is_empty()?"true":"false")
    <<",\"kc\":"<<kv+2<<",\"ev\":"<<vec(ev)<<",\"den\":"<<den<<",\"i1\":"<<jsH(ia.constraints(),n)<<",\"i2\":"<<jsC(ib.congruences(),n)<<",\"i2empty\":"<<(ib.is_empty()?"true":"false")<<"}\n"; }
int main(int argc,char**argv){ int N=atoi(argv[1]); RNG r(atoi(argv[2])); int id=0; while(id<N){ int t=r()%5;
  if(t==0) one<Domain_Product<C_Polyhedron,Grid>::Direct_Product>(id,r,"direct"); else if(t==1) one<Domain_Product<C_Polyhedron,Grid>::Smash_Product>(id,r,"smash"); else if(t==2) one<Domain_Product<C_Polyhedron,Grid>::Constraints_Product>(id,r,"constraints");
  else if(t==3) one<Domain_Product<C_Polyhedron,Grid>::Congruences_Product>(id,r,"congruences"); else one<Domain_Product<C_Polyhedron,Grid>::Shape_Preserving_Product>(id,r,"shape"); } }
