#include "ppl.hh"
#include <iostream>
#include <sstream>
#include <random>
using namespace Parma_Polyhedra_Library;
typedef std::mt19937 RNG;
static std::string vec(const std::vector<long>& v){ std::ostringstream o; o<<"["; for(size_t i=0;i<v.size();++i){ if(i) o<<","; o<<v[i]; } o<<"]"; return o.str(); }
static long L(const Coefficient& c){ return c.get_si(); }
std::string jsH(const Constraint_System& cs, unsigned n){ std::ostringstream o; o<<"["; bool f=true;
  for (Constraint_System::const_iterator i=cs.begin(); i!=cs.end(); ++i){ std::vector<long> v(n+1); v[0]=L(i->inhomogeneous_term()); for(unsigned k=0;k<n;++k) v[k+1]=(k<i->space_dimension())?L(i->coefficient(Variable(k))):0; if(!f)o<<","; f=false; o<<"{\"k\":\""<<(i->is_equality()?"eq":i->is_strict_inequality()?"gt":"ge")<<"\",\"v\":"<<vec(v)<<"}"; } o<<"]"; return o.str(); }
template<class PS> std::string jsPS(const PS& ps, unsigned n){ std::ostringstream o; o<<"["; bool f=true; for(typename PS::const_iterator i=ps.begin(); i!=ps.end(); ++i){ if(!f)o<<","; f=false; typename PS::element_type p(i->pointset()); o<<jsH(p.minimized_constraints(),n); } o<<"]"; return o.str(); }
template<class PH> PH rndbox(RNG& r, unsigned n, bool nnc){ PH p(n); for(unsigned k=0;k<n;++k){ int lo=(int)(r()%6)-3, w=r()%4; if(r()%5) { if(nnc&&r()%3==0) p.add_constraint(Variable(k)>lo); else p.add_constraint(Variable(k)>=lo);} if(r()%5){ if(nnc&&r()%3==0) p.add_constraint(Variable(k)<lo+w); else p.add_constraint(Variable(k)<=lo+w);} }
  if(r()%3==0){ Linear_Expression e; for(unsigned k=0;k<n;++k) e+=((int)(r()%3)-1)*Variable(k); e+=0*Variable(n-1); p.add_constraint(e<= (int)(r()%5)-1); } return p; }
template<class PH> void one(int& id, RNG& r, bool nnc){ typedef Pointset_Powerset<PH> PS; unsigned n=1+r()%2;
  PS a(n,EMPTY), b(n,EMPTY); int na=1+r()%3, nb=1+r()%3; for(int i=0;i<na;++i) a.add_disjunct(rndbox<PH>(r,n,nnc)); for(int i=0;i<nb;++i) b.add_disjunct(rndbox<PH>(r,n,nnc));
  if(r()%4==0){ b=a; if(r()%2) b.add_disjunct(rndbox<PH>(r,n,nnc)); }
  std::ostringstream o; o<<"{\"id\":"<<id++<<",\"m\":"<<n+1<<",\"A\":"<<jsPS(a,n)<<",\"B\":"<<jsPS(b,n);
  { PS x(a), y(b); o<<",\"covers\":"<<(x.geometrically_covers(y)?"true":"false"); } { PS x(a), y(b); o<<",\"gequals\":"<<(x.geometrically_equals(y)?"true":"false"); }
  { PS x(a); x.pairwise_reduce(); o<<",\"pr\":"<<jsPS(x,n); } { PS x(a); x.omega_reduce(); o<<",\"om\":"<<jsPS(x,n); }
  { PS x(a), y(b); x.difference_assign(y); o<<",\"diff\":"<<jsPS(x,n); } { PS x(a), y(b); x.intersection_assign(y); o<<",\"meet\":"<<jsPS(x,n); }
  { PS x(a), y(b); x.upper_bound_assign(y); o<<",\"ub\":"<<jsPS(x,n); }
  o<<"}\n"; std::cout<<o.str(); }
int main(int argc,char**argv){ int N=atoi(argv[1]); RNG r(atoi(argv[2])); int id=0; while(id<N){ if(r()%2) one<NNC_Polyhedron>(id,r,true); else one<C_Polyhedron>(id,r,false);} }
