#include "ppl.hh"
#include <iostream>
#include <sstream>
#include <random>
using namespace Parma_Polyhedra_Library;
typedef std::mt19937 RNG;
static std::string vec(const std::vector<long>& v){ std::ostringstream o; o<<"["; for(size_t i=0;i<v.size();++i){ if(i) o<<","; o<<v[i]; } o<<"]"; return o.str(); }
static long L(const Coefficient& c){ return c.get_si(); }
struct Row { std::string k; std::vector<long> v; };
std::vector<Row> rowsH(const Constraint_System& cs, unsigned n){ std::vector<Row> R;
  for (Constraint_System::const_iterator i=cs.begin(); i!=cs.end(); ++i){ Row w; w.v.resize(n+1); w.v[0]=L(i->inhomogeneous_term());
    for(unsigned k=0;k<n;++k) w.v[k+1] = (k < i->space_dimension()) ? L(i->coefficient(Variable(k))) : 0;
    w.k = i->is_equality()?"eq":(i->is_strict_inequality()?"gt":"ge"); R.push_back(w);} return R; }
std::vector<Row> rowsV(const Generator_System& gs, unsigned n){ std::vector<Row> R;
  for (Generator_System::const_iterator i=gs.begin(); i!=gs.end(); ++i){ Row w; w.v.resize(n+1); w.v[0]= (i->is_point()||i->is_closure_point()) ? L(i->divisor()) : 0;
    for(unsigned k=0;k<n;++k) w.v[k+1] = (k < i->space_dimension()) ? L(i->coefficient(Variable(k))) : 0;
    w.k = i->is_line()?"line":i->is_ray()?"ray":i->is_point()?"point":"cpoint"; R.push_back(w);} return R; }
std::string js(const std::vector<Row>& R){ std::ostringstream o; o<<"["; for(size_t i=0;i<R.size();++i){ if(i) o<<","; o<<"{\"k\":\""<<R[i].k<<"\",\"v\":"<<vec(R[i].v)<<"}"; } o<<"]"; return o.str(); }
std::vector<long> rndv(RNG& r, unsigned n, int lo, int hi){ std::uniform_int_distribution<int> d(lo,hi); std::vector<long> v(n+1); for(auto&x:v) x=d(r); return v; }
Linear_Expression le(const std::vector<long>& v, unsigned n, bool inh=true){ Linear_Expression e; for(unsigned k=0;k<n;++k) e += v[k+1]*Variable(k); if(n>0) e+=0*Variable(n-1); if(inh) e+=v[0]; return e; }
const char* B(bool b){ return b?"true":"false"; }
template<class PH> PH rndpoly(RNG& r, unsigned n, bool nnc){ PH p(n);
  if(r()%3==0){ p=PH(n,EMPTY); p.add_generator(point(le(rndv(r,n,-2,2),n,false),1+r()%2)); int ng=r()%4; for(int k=0;k<ng;++k){ int t=r()%5; Linear_Expression f=le(rndv(r,n,-2,2),n,false); if(t==0) p.add_generator(point(f,1+r()%3)); else if(t==1&&nnc) p.add_generator(closure_point(f,1+r()%2)); else if(f.all_homogeneous_terms_are_zero()) continue; else if(t<=3) p.add_generator(ray(f)); else p.add_generator(line(f)); } }
  int nc=r()%4; for(int k=0;k<nc;++k){ Linear_Expression e=le(rndv(r,n,-2,2),n); int t=r()%5; if(t==0) p.add_constraint(e==0); else if(t==1&&nnc) p.add_constraint(e>0); else p.add_constraint(e>=0); }
  return p; }
template<class PH> void one(int& id, RNG& r, bool nnc){
  unsigned n=1+r()%3; PH p=rndpoly<PH>(r,n,nnc), q=rndpoly<PH>(r,n,nnc);
  if(r()%4==0){ q=p; if(r()%2){ q.add_constraint(le(rndv(r,n,-2,2),n)>=0);} }
  PH a(p),b(p),c(q),d(q);
  std::vector<Row> H=rowsH(a.minimized_constraints(),n), V=rowsV(b.minimized_generators(),n), Hq=rowsH(c.minimized_constraints(),n), Vq=rowsV(d.minimized_generators(),n);
  // constraint / generator / expr
  std::vector<long> cv=rndv(r,n,-2,2); int ck=r()%(nnc?3:2); const char* CK[3]={"ge","eq","gt"}; Linear_Expression ce=le(cv,n);
  Constraint con = ck==0? Constraint(ce>=0) : ck==1? Constraint(ce==0) : Constraint(ce>0);
  std::vector<long> gv=rndv(r,n,-2,2); int gk=r()%(nnc?4:3); const char* GK[4]={"point","ray","line","cpoint"}; Linear_Expression ge=le(gv,n,false);
  if((gk==1||gk==2) && ge.all_homogeneous_terms_are_zero()) gk=0;
  long gd = 1+r()%2; if(gk==1||gk==2) gd=0; gv[0]=gd;
  Generator gen = gk==0? point(ge,gd) : gk==1? ray(ge) : gk==2? line(ge) : closure_point(ge,gd);
  std::vector<long> ev=rndv(r,n,-2,2); Linear_Expression ee=le(ev,n);
  unsigned var=r()%n;
  std::ostringstream o;
  o<<"{\"id\":"<<id++<<",\"m\":"<<n+1<<",\"H\":"<<js(H)<<",\"V\":"<<js(V)<<",\"Hq\":"<<js(Hq)<<",\"Vq\":"<<js(Vq);
  { PH x(p); o<<",\"empty\":"<<B(x.is_empty()); } { PH x(p); o<<",\"univ\":"<<B(x.is_universe()); } { PH x(p); o<<",\"bounded\":"<<B(x.is_bounded()); }
  { PH x(p); o<<",\"closed\":"<<B(x.is_topologically_closed()); } { PH x(p),y(q); o<<",\"contains\":"<<B(x.contains(y)); } { PH x(p),y(q); o<<",\"scontains\":"<<B(x.strictly_contains(y)); }
  { PH x(p),y(q); o<<",\"disjoint\":"<<B(x.is_disjoint_from(y)); } { PH x(p),y(q); o<<",\"equal\":"<<B(x==y); } { PH x(p); o<<",\"adim\":"<<x.affine_dimension(); }
  { PH x(p); o<<",\"var\":"<<var<<",\"constrains\":"<<B(x.constrains(Variable(var))); }
  { PH x(p); Poly_Con_Relation rel=x.relation_with(con); o<<",\"c\":{\"k\":\""<<CK[ck]<<"\",\"v\":"<<vec(cv)<<"},\"rc\":{\"sat\":"<<B(rel.implies(Poly_Con_Relation::saturates()))<<",\"inc\":"<<B(rel.implies(Poly_Con_Relation::is_included()))<<",\"dis\":"<<B(rel.implies(Poly_Con_Relation::is_disjoint()))<<",\"si\":"<<B(rel.implies(Poly_Con_Relation::strictly_intersects()))<<"}"; }
  { PH x(p); Poly_Gen_Relation rel=x.relation_with(gen); o<<",\"g\":{\"k\":\""<<GK[gk]<<"\",\"v\":"<<vec(gv)<<"},\"subs\":"<<B(rel.implies(Poly_Gen_Relation::subsumes())); }
  { PH x(p); Coefficient nu,de; bool mx; bool ok=x.maximize(ee,nu,de,mx); o<<",\"e\":"<<vec(ev)<<",\"max\":{\"ok\":"<<B(ok)<<",\"num\":"<<(ok?L(nu):0)<<",\"den\":"<<(ok?L(de):1)<<",\"att\":"<<B(ok&&mx)<<"}"; }
  { PH x(p); Coefficient nu,de; bool mx; bool ok=x.minimize(ee,nu,de,mx); o<<",\"min\":{\"ok\":"<<B(ok)<<",\"num\":"<<(ok?L(nu):0)<<",\"den\":"<<(ok?L(de):1)<<",\"att\":"<<B(ok&&mx)<<"}"; }
  { PH x(p); o<<",\"bfa\":"<<B(x.bounds_from_above(ee)); } { PH x(p); o<<",\"bfb\":"<<B(x.bounds_from_below(ee)); }
  o<<"}\n"; std::cout<<o.str();
}
int main(int argc,char**argv){ int N=atoi(argv[1]); RNG r(atoi(argv[2])); int id=0; while(id<N){ if(r()%2) one<NNC_Polyhedron>(id,r,true); else one<C_Polyhedron>(id,r,false);} }
