#include "ppl.hh"
#include <iostream>
#include <sstream>
#include <random>
using namespace Parma_Polyhedra_Library;
typedef std::mt19937 RNG;
static std::string vec(const std::vector<long>& v){ std::ostringstream o; o<<"["; for(size_t i=0;i<v.size();++i){ if(i) o<<","; o<<v[i]; } o<<"]"; return o.str(); }
static long L(const Coefficient& c){ return c.get_si(); }
struct Row { std::string k; std::vector<long> v; };
std::vector<Row> rowsH(const Constraint_System& cs, unsigned n){ std::vector<Row> R;
  for (Constraint_System::const_iterator i=cs.begin(); i!=cs.end(); ++i){ Row w; w.v.resize(n+1); w.v[0]=L(i->inhomogeneous_term());
    for(unsigned k=0;k<n;++k) w.v[k+1] = (k < i->space_dimension()) ? L(i->coefficient(Variable(k))) : 0;
    w.k = i->is_equality()?"eq":(i->is_strict_inequality()?"gt":"ge"); R.push_back(w);} return R; }
std::vector<Row> rowsV(const Generator_System& gs, unsigned n){ std::vector<Row> R;
  for (Generator_System::const_iterator i=gs.begin(); i!=gs.end(); ++i){ Row w; w.v.resize(n+1); w.v[0]= (i->is_point()||i->is_closure_point()) ? L(i->divisor()) : 0;
    for(unsigned k=0;k<n;++k) w.v[k+1] = (k < i->space_dimension()) ? L(i->coefficient(Variable(k))) : 0;
    w.k = i->is_line()?"line":i->is_ray()?"ray":i->is_point()?"point":"cpoint"; R.push_back(w);} return R; }
std::string js(const std::vector<Row>& R){ std::ostringstream o; o<<"["; for(size_t i=0;i<R.size();++i){ if(i) o<<","; o<<"{\"k\":\""<<R[i].k<<"\",\"v\":"<<vec(R[i].v)<<"}"; } o<<"]"; return o.str(); }
std::vector<long> rndv(RNG& r, unsigned n, int lo, int hi){ std::uniform_int_distribution<int> d(lo,hi); std::vector<long> v(n+1); for(auto&x:v) x=d(r); return v; }
Linear_Expression le(const std::vector<long>& v, unsigned n){ Linear_Expression e; for(unsigned k=0;k<n;++k) e += v[k+1]*Variable(k); if(n>0) e+=0*Variable(n-1); e+=v[0]; return e; }
// relation row: s*(expr - den*w) REL 0
Row relrow(const std::vector<long>& ev, long den, const char* k, int s){ Row w; w.k=k; w.v=ev; w.v.push_back(-den); for(auto&x:w.v) x*=s; return w; }
template<class PH> void one(int& id, RNG& r, bool nnc){
  unsigned n=1+r()%3; PH p(n); int nc=1+r()%4;
  for(int k=0;k<nc;++k){ Linear_Expression e=le(rndv(r,n,-2,2),n); int t=r()%5; if(t==0) p.add_constraint(e==0); else if(t==1&&nnc) p.add_constraint(e>0); else p.add_constraint(e>=0); }
  if (p.is_empty()) return; unsigned kv=r()%n; Variable var(kv); std::vector<long> ev=rndv(r,n,-2,2), ev2=rndv(r,n,-2,2); long den = (r()%4==0)? -(1+(long)(r()%2)) : 1+(long)(r()%2);
  int op=r()%6; int rs=r()%(nnc?5:3); // 0 <=,1 ==,2 >=,3 <,4 >
  Relation_Symbol RS[5]={LESS_OR_EQUAL,EQUAL,GREATER_OR_EQUAL,LESS_THAN,GREATER_THAN};
  bool neg = r()%3==0; // produce a negative example by perturbing the relation we log
  std::vector<Row> R; PH q(p); bool pre=false; int sd = den>0?1:-1;
  auto relsym=[&](int rs_, const std::vector<long>& e)->Row{ // w REL e/den
    if(rs_==1) return relrow(e,den,"eq",1);
    if(rs_==0) return relrow(e,den,"ge",sd);     // e/den - w >=0
    if(rs_==2) return relrow(e,den,"ge",-sd);
    if(rs_==3) return relrow(e,den,"gt",sd);
    return relrow(e,den,"gt",-sd); };
  switch(op){
   case 0: q.affine_image(var, le(ev,n), den); R.push_back(relrow(ev,den,"eq",1)); break;
   case 1: q.affine_preimage(var, le(ev,n), den); R.push_back(relrow(ev,den,"eq",1)); pre=true; break;
   case 2: q.generalized_affine_image(var, RS[rs], le(ev,n), den); R.push_back(relsym(rs,ev)); break;
   case 3: q.generalized_affine_preimage(var, RS[rs], le(ev,n), den); R.push_back(relsym(rs,ev)); pre=true; break;
   case 4: q.bounded_affine_image(var, le(ev,n), le(ev2,n), den); R.push_back(relsym(2,ev)); R.push_back(relsym(0,ev2)); break;
   case 5: q.bounded_affine_preimage(var, le(ev,n), le(ev2,n), den); R.push_back(relsym(2,ev)); R.push_back(relsym(0,ev2)); pre=true; break; }
  bool expect=true;
  PH pc(p), qc(q);
  std::vector<Row> H=rowsH(pc.constraints(),n), V=rowsV(qc.minimized_generators(),n);
  if(neg){ // compare against result of a perturbed op: recompute q2 with perturbed ev
    std::vector<long> e3=ev; e3[r()%e3.size()] += (r()%2?1:-1); PH q2(p);
    switch(op){ case 0: q2.affine_image(var, le(e3,n), den); break; case 1: q2.affine_preimage(var, le(e3,n), den); break;
      case 2: q2.generalized_affine_image(var, RS[rs], le(e3,n), den); break; case 3: q2.generalized_affine_preimage(var, RS[rs], le(e3,n), den); break;
      case 4: q2.bounded_affine_image(var, le(e3,n), le(ev2,n), den); break; case 5: q2.bounded_affine_preimage(var, le(e3,n), le(ev2,n), den); break; }
    expect = (q2==q); PH q2c(q2); V=rowsV(q2c.minimized_generators(),n); }
  std::cout<<"{\"id\":"<<id++<<",\"m\":"<<n+1<<",\"kc\":"<<kv+2<<",\"pre\":"<<(pre?"true":"false")<<",\"op\":"<<op<<",\"expect\":"<<(expect?"true":"false")
    <<",\"H\":"<<js(H)<<",\"R\":"<<js(R)<<",\"V\":"<<js(V)<<"}\n";
}
int main(int argc,char**argv){ int N=atoi(argv[1]); RNG r(atoi(argv[2])); int id=0; while(id<N){ if(r()%2) one<NNC_Polyhedron>(id,r,true); else one<C_Polyhedron>(id,r,false);} }
