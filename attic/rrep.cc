#include "ppl.hh"
#include <iostream>
#include <sstream>
#include <vector>
#include <string>
using namespace Parma_Polyhedra_Library;
template <class Row> struct Pair { Row r[2]; Pair(){ r[0]=Row(4); r[1]=Row(4);} };
template <class Row> bool same(const Row& x, const std::vector<long>& e){ if(x.size()!=e.size()) return false; for(size_t i=0;i<e.size();++i) if(x.get(i)!=e[i]) return false;
  // iteration must agree with get and (for sparse) list only non-... entries in increasing order
  long last=-1; for(typename Row::const_iterator it=x.begin(); it!=x.end(); ++it){ if((long)it.index()<=last) return false; last=it.index(); if(*it!=e[it.index()]) return false; } return x.OK(); }
inline void do_reset_after(Sparse_Row& s, int i){ s.reset_after(i); }
inline void do_reset_after(Dense_Row& s, int i){ for(dimension_type k=i;k<s.size();++k) s.reset(k); }
inline void do_delete(Sparse_Row& s, int i){ s.delete_element_and_shift(i); }
inline void do_delete(Dense_Row& s, int i){ for(dimension_type k=i;k+1<s.size();++k) s.swap_coefficients(k,k+1); s.shrink(s.size()-1); }
template <class Row> int apply(Pair<Row>& P, const std::string& op, int k, int i, int j, int v, int c1, int c2){ Row& s=P.r[k-1]; Row& o=P.r[2-k];
  if(op=="insert"){ s.insert(i, Coefficient(v)); }
  else if(op=="reset"){ s.reset(i); }
  else if(op=="reset_after"){ do_reset_after(s,i); }
  else if(op=="swap"){ s.swap_coefficients(i,j); }
  else if(op=="lincomb"){ s.linear_combine(o, Coefficient(c1), Coefficient(c2)); }
  else if(op=="lincomb_range"){ s.linear_combine(o, Coefficient(c1), Coefficient(c2), i, j); }
  else if(op=="normalize"){ s.normalize(); }
  else if(op=="delete_shift"){ do_delete(s,i); }
  else if(op=="add_zeroes_shift"){ s.add_zeroes_and_shift(j, i); }
  else if(op=="assign_other"){ s=o; }
  else if(op=="m_swap"){ swap(P.r[0], P.r[1]); }
  else return 1; return 0; }
int main(){ std::string line; Pair<Sparse_Row>* S=0; Pair<Dense_Row>* D=0; long nb=0, bad=0, steps=0; int step=0; bool dead=false;
  while(std::getline(std::cin,line)){ if(line=="BEGIN"){ delete S; delete D; S=new Pair<Sparse_Row>(); D=new Pair<Dense_Row>(); ++nb; step=0; dead=false; continue; } if(line=="END"||dead) continue;
    std::istringstream is(line); std::string op; int k,i,j,v,c1,c2; is>>op>>k>>i>>j>>v>>c1>>c2; size_t n1; is>>n1; std::vector<long> e1(n1); for(auto&x:e1) is>>x; size_t n2; is>>n2; std::vector<long> e2(n2); for(auto&x:e2) is>>x;
    ++step; ++steps; apply(*S,op,k,i,j,v,c1,c2); apply(*D,op,k,i,j,v,c1,c2);
    bool okS = same(S->r[0],e1)&&same(S->r[1],e2), okD = same(D->r[0],e1)&&same(D->r[1],e2);
    if(!okS||!okD){ ++bad; dead=true; std::cout<<"MISMATCH beh "<<nb<<" step "<<step<<" op "<<op<<" sparse_ok="<<okS<<" dense_ok="<<okD<<" :: "<<line<<"\n"; } }
  std::cout<<"behaviours "<<nb<<" steps "<<steps<<" mismatching "<<bad<<"\n"; }
