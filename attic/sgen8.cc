#include "ppl.hh"
#include <iostream>
#include <sstream>
#include <random>
using namespace Parma_Polyhedra_Library;
typedef std::mt19937 RNG;
static std::string vec(const std::vector<long>& v){ std::ostringstream o; o<<"["; for(size_t i=0;i<v.size();++i){ if(i) o<<","; o<<v[i]; } o<<"]"; return o.str(); }
static long L(const Coefficient& c){ return c.get_si(); }
struct Row { std::string k; std::vector<long> v; };
std::vector<Row> rowsH(const Constraint_System& cs, unsigned n){ std::vector<Row> R;
  for (Constraint_System::const_iterator i=cs.begin(); i!=cs.end(); ++i){ Row w; w.v.resize(n+1); w.v[0]=L(i->inhomogeneous_term());
    for(unsigned k=0;k<n;++k) w.v[k+1] = (k < i->space_dimension()) ? L(i->coefficient(Variable(k))) : 0;
    w.k = i->is_equality()?"eq":(i->is_strict_inequality()?"gt":"ge"); R.push_back(w);} return R; }
std::string js(const std::vector<Row>& R){ std::ostringstream o; o<<"["; for(size_t i=0;i<R.size();++i){ if(i) o<<","; o<<"{\"k\":\""<<R[i].k<<"\",\"v\":"<<vec(R[i].v)<<"}"; } o<<"]"; return o.str(); }
std::vector<long> rndv(RNG& r, unsigned n, int lo, int hi){ std::uniform_int_distribution<int> d(lo,hi); std::vector<long> v(n+1); for(auto&x:v) x=d(r); return v; }
Linear_Expression le(const std::vector<long>& v, unsigned n, bool inh=true){ Linear_Expression e; for(unsigned k=0;k<n;++k) e += v[k+1]*Variable(k); if(n>0) e+=0*Variable(n-1); if(inh) e+=v[0]; return e; }
const char* B(bool b){ return b?"true":"false"; }
// random constraint of the domain's shape: kind 0 box, 1 bd, 2 oct
Constraint rndcon(RNG& r, unsigned n, int kind){ unsigned i=r()%n, j=r()%n; int b=(r()%4==0)? (int)(r()%250)-125 : (int)(r()%7)-3; int d=1+r()%2; int si=r()%2?1:-1, sj=r()%2?1:-1;
  Linear_Expression e; if(kind==0||i==j||n==1) e = si*d*Variable(i); else if(kind==1) e = d*Variable(i) - d*Variable(j); else e = si*d*Variable(i) + sj*d*Variable(j);
  e += 0*Variable(n-1); return (r()%6==0) ? Constraint(e == b) : Constraint(e <= b); }
template<class D> D rnd(RNG& r, unsigned n, int kind){ D x(n); int nc=1+r()%5; for(int k=0;k<nc;++k) x.add_constraint(rndcon(r,n,kind)); return x; }
template<class D> void one(int& id, RNG& r, int kind, const char* dn){
  unsigned n=2+r()%2; D x=rnd<D>(r,n,kind), y=rnd<D>(r,n,kind);
  std::ostringstream o; o<<"{\"id\":"<<id++<<",\"dom\":\""<<dn<<"\",\"kind\":"<<kind<<",\"m\":"<<n+1;
  { D a(x), b(y); o<<",\"X\":"<<js(rowsH(a.constraints(),n))<<",\"Y\":"<<js(rowsH(b.constraints(),n)); }
  { D a(x), b(y); a.intersection_assign(b); o<<",\"inter\":"<<js(rowsH(a.constraints(),n)); }
  { D a(x), b(y); a.upper_bound_assign(b); o<<",\"join\":"<<js(rowsH(a.constraints(),n)); }
  { D a(x), b(y); a.difference_assign(b); o<<",\"diff\":"<<js(rowsH(a.constraints(),n)); }
  { D a(x), b(y); o<<",\"disjoint\":"<<B(a.is_disjoint_from(b)); } { D a(x), b(y); o<<",\"contains\":"<<B(a.contains(b)); } { D a(x); o<<",\"empty\":"<<B(a.is_empty()); }
  { D a(x), b(y); o<<",\"equal\":"<<B(a==b); }
  // transformers
  unsigned kv=r()%n; std::vector<long> ev=rndv(r,n,-2,2); long den=(r()%4==0)?-1:1+(long)(r()%2); int rs=r()%3; Relation_Symbol RS[3]={LESS_OR_EQUAL,EQUAL,GREATER_OR_EQUAL};
  o<<",\"kc\":"<<kv+2<<",\"ev\":"<<vec(ev)<<",\"den\":"<<den<<",\"rs\":"<<rs;
  { D a(x); a.affine_image(Variable(kv), le(ev,n), den); o<<",\"aimg\":"<<js(rowsH(a.constraints(),n)); }
  { D a(x); a.affine_preimage(Variable(kv), le(ev,n), den); o<<",\"apre\":"<<js(rowsH(a.constraints(),n)); }
  { D a(x); a.generalized_affine_image(Variable(kv), RS[rs], le(ev,n), den); o<<",\"gimg\":"<<js(rowsH(a.constraints(),n)); }
  { D a(x); a.generalized_affine_preimage(Variable(kv), RS[rs], le(ev,n), den); o<<",\"gpre\":"<<js(rowsH(a.constraints(),n)); }
  o<<"}\n"; std::cout<<o.str();
}
int main(int argc,char**argv){ int N=atoi(argv[1]); RNG r(atoi(argv[2])); int id=0; while(id<N){ int t=r()%4; if(t==0) one<BD_Shape<int8_t> >(id,r,1,"bds8"); else if(t==1) one<Octagonal_Shape<int8_t> >(id,r,2,"oct8"); else if(t==2) one<BD_Shape<mpz_class> >(id,r,1,"bdsz"); else one<Octagonal_Shape<mpz_class> >(id,r,2,"octz"); } }
