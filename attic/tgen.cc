#include "ppl.hh"
#include <iostream>
#include <sstream>
#include <random>
using namespace Parma_Polyhedra_Library;
typedef std::mt19937 RNG;
static std::string vec(const std::vector<long>& v){ std::ostringstream o; o<<"["; for(size_t i=0;i<v.size();++i){ if(i) o<<","; o<<v[i]; } o<<"]"; return o.str(); }
static long L(const Coefficient& c){ return c.get_si(); }
std::string jsH(const Constraint_System& cs, unsigned n){ std::ostringstream o; o<<"["; bool f=true;
  for (Constraint_System::const_iterator i=cs.begin(); i!=cs.end(); ++i){ std::vector<long> v(n+1); v[0]=L(i->inhomogeneous_term()); for(unsigned k=0;k<n;++k) v[k+1]=(k<i->space_dimension())?L(i->coefficient(Variable(k))):0; if(!f)o<<","; f=false; o<<"{\"k\":\""<<(i->is_equality()?"eq":i->is_strict_inequality()?"gt":"ge")<<"\",\"v\":"<<vec(v)<<"}"; } o<<"]"; return o.str(); }
std::string jsV(const Generator_System& gs, unsigned n){ std::ostringstream o; o<<"["; bool f=true;
  for (Generator_System::const_iterator i=gs.begin(); i!=gs.end(); ++i){ std::vector<long> v(n+1); v[0]=(i->is_point()||i->is_closure_point())?L(i->divisor()):0; for(unsigned k=0;k<n;++k) v[k+1]=(k<i->space_dimension())?L(i->coefficient(Variable(k))):0; if(!f)o<<","; f=false; o<<"{\"k\":\""<<(i->is_line()?"line":i->is_ray()?"ray":i->is_point()?"point":"cpoint")<<"\",\"v\":"<<vec(v)<<"}"; } o<<"]"; return o.str(); }
int main(int argc,char**argv){ int N=atoi(argv[1]); RNG r(atoi(argv[2])); std::uniform_int_distribution<int> cd(-2,2), bd(-3,3);
  for(int id=0; id<N; ++id){ unsigned n=1+r()%2; unsigned D=2*n; C_Polyhedron R(D);
    // guard on unprimed x (dims n..2n-1)
    int ng=1+r()%2; for(int g=0;g<ng;++g){ Linear_Expression e; for(unsigned k=0;k<n;++k) e+=cd(r)*Variable(n+k); e+=0*Variable(D-1); e+=bd(r); R.add_constraint(e>=0); }
    // updates: x'_i (dim i) REL a.x + b
    for(unsigned i=0;i<n;++i){ Linear_Expression e; for(unsigned k=0;k<n;++k) e+=cd(r)*Variable(n+k); e+=0*Variable(D-1); e+=bd(r); int t=r()%4; if(t<=1) R.add_constraint(Variable(i)==e); else if(t==2) R.add_constraint(Variable(i)<=e); else R.add_constraint(Variable(i)>=e); }
    std::ostringstream o; C_Polyhedron a(R), b(R);
    o<<"{\"id\":"<<id<<",\"n\":"<<n<<",\"m\":"<<D+1<<",\"H\":"<<jsH(a.minimized_constraints(),D)<<",\"V\":"<<jsV(b.minimized_generators(),D);
    bool ms=termination_test_MS(R), pr=termination_test_PR(R); o<<",\"ms\":"<<(ms?"true":"false")<<",\"pr\":"<<(pr?"true":"false");
    Generator mu(point()); bool ms1=one_affine_ranking_function_MS(R, mu); o<<",\"ms1\":"<<(ms1?"true":"false")<<",\"mu\":";
    if(ms1){ std::vector<long> v(n+2); v[0]=L(mu.divisor()); for(unsigned k=0;k<=n;++k) v[k+1]=(k<mu.space_dimension())?L(mu.coefficient(Variable(k))):0; o<<vec(v);} else o<<"[]";
    Generator mu2(point()); bool pr1=one_affine_ranking_function_PR(R, mu2); o<<",\"pr1\":"<<(pr1?"true":"false")<<",\"mupr\":";
    if(pr1){ std::vector<long> v(n+2); v[0]=L(mu2.divisor()); for(unsigned k=0;k<=n;++k) v[k+1]=(k<mu2.space_dimension())?L(mu2.coefficient(Variable(k))):0; o<<vec(v);} else o<<"[]";
    C_Polyhedron ms_space; all_affine_ranking_functions_MS(R, ms_space); o<<",\"space\":"<<jsV(ms_space.minimized_generators(), n+1)<<",\"space_empty\":"<<(ms_space.is_empty()?"true":"false");
    o<<"}\n"; std::cout<<o.str(); } }
