#include "ppl.hh"
#include <iostream>
#include <csignal>
#include <sys/time.h>
#include <vector>
using namespace Parma_Polyhedra_Library;
// ---- virtual timer interposition (definitions in the executable pre-empt libc's) ----
static long vnow = 0;            // virtual time in microseconds
static long vtimer = 0;          // remaining microseconds; 0 = disarmed
static void (*handler)(int) = 0;
static int the_signal = 0;
extern "C" int setitimer(int which, const struct itimerval* nv, struct itimerval* ov) {
  (void) which; if (ov) { ov->it_value.tv_sec = vtimer/1000000; ov->it_value.tv_usec = vtimer%1000000; ov->it_interval.tv_sec=0; ov->it_interval.tv_usec=0; }
  vtimer = nv->it_value.tv_sec*1000000L + nv->it_value.tv_usec;
  std::cout << "  [setitimer " << vtimer << "us at " << vnow << "]\n"; return 0; }
extern "C" int getitimer(int which, struct itimerval* v) { (void) which; v->it_value.tv_sec = vtimer/1000000; v->it_value.tv_usec = vtimer%1000000; v->it_interval.tv_sec=0; v->it_interval.tv_usec=0; return 0; }
extern "C" int sigaction(int signum, const struct sigaction* act, struct sigaction* old) { (void) old; if (act) { handler = act->sa_handler; the_signal = signum; std::cout << "  [sigaction signum=" << signum << "]\n"; } return 0; }
static void advance(long us) { // advance virtual time, delivering the signal when the timer expires
  while (us > 0) { if (vtimer > 0 && vtimer <= us) { us -= vtimer; vnow += vtimer; vtimer = 0; std::cout << "  [deliver at " << vnow << "]\n"; handler(the_signal); } else { if (vtimer > 0) vtimer -= us; vnow += us; us = 0; } } }
static int fired[8]; static long fired_at[8];
template <int K> void act() { ++fired[K]; fired_at[K] = vnow; std::cout << "  FIRE " << K << " at " << vnow << "\n"; }
int main() {
  std::cout << "start\n";
  Watchdog* w0 = new Watchdog(10, act<0>);     // 10 cs = 100000 us
  advance(30000);
  Watchdog* w1 = new Watchdog(20, act<1>);     // deadline 30000+200000
  advance(50000);
  Watchdog* w2 = new Watchdog(1, act<2>);      // deadline 80000+10000 = 90000
  advance(15000);  // now 95000: w2 should have fired at 90000
  delete w0;       // remove first pending (w0, deadline 100000) -> re-arm for w1
  advance(200000); // now 295000: w1 should fire at 230000
  delete w1; delete w2;
  for (int k=0;k<3;++k) std::cout << "wd" << k << " fired " << fired[k] << " at " << fired_at[k] << "\n";
  return 0; }
