#include "ppl.hh"
#include <iostream>
#include <sstream>
#include <random>
#include <algorithm>
using namespace Parma_Polyhedra_Library;
typedef std::mt19937 RNG;
static std::string vec(const std::vector<long>& v){ std::ostringstream o; o<<"["; for(size_t i=0;i<v.size();++i){ if(i) o<<","; o<<v[i]; } o<<"]"; return o.str(); }
static long L(const Coefficient& c){ return c.get_si(); }
std::string jsH(const Constraint_System& cs, unsigned n){ std::ostringstream o; o<<"["; bool f=true;
  for (Constraint_System::const_iterator i=cs.begin(); i!=cs.end(); ++i){ std::vector<long> v(n+1); v[0]=L(i->inhomogeneous_term()); for(unsigned k=0;k<n;++k) v[k+1]=(k<i->space_dimension())?L(i->coefficient(Variable(k))):0; if(!f)o<<","; f=false; o<<"{\"k\":\""<<(i->is_equality()?"eq":i->is_strict_inequality()?"gt":"ge")<<"\",\"v\":"<<vec(v)<<"}"; } o<<"]"; return o.str(); }
std::string jsV(const Generator_System& gs, unsigned n){ std::ostringstream o; o<<"["; bool f=true;
  for (Generator_System::const_iterator i=gs.begin(); i!=gs.end(); ++i){ std::vector<long> v(n+1); v[0]=(i->is_point()||i->is_closure_point())?L(i->divisor()):0; for(unsigned k=0;k<n;++k) v[k+1]=(k<i->space_dimension())?L(i->coefficient(Variable(k))):0; if(!f)o<<","; f=false; o<<"{\"k\":\""<<(i->is_line()?"line":i->is_ray()?"ray":i->is_point()?"point":"cpoint")<<"\",\"v\":"<<vec(v)<<"}"; } o<<"]"; return o.str(); }
std::string desc(const C_Polyhedron& p, unsigned n){ C_Polyhedron a(p), b(p); return "{\"H\":"+jsH(a.minimized_constraints(),n)+",\"V\":"+jsV(b.minimized_generators(),n)+"}"; }
Linear_Expression rle(RNG& r, unsigned n, int lo, int hi, bool inh){ std::uniform_int_distribution<int> d(lo,hi); Linear_Expression e; for(unsigned k=0;k<n;++k) e+=d(r)*Variable(k); e+=0*Variable(n-1); if(inh) e+=d(r); return e; }
// rebuild an equal polyhedron through a different history
C_Polyhedron rebuild(const C_Polyhedron& p, RNG& r, unsigned n){ int style=r()%4; C_Polyhedron c(p);
  if(style==0){ C_Polyhedron q(n, EMPTY); Generator_System gs=c.minimized_generators(); std::vector<Generator> g(gs.begin(), gs.end()); 
      // points first then shuffled others
      std::vector<Generator> pts, oth; for(auto&x:g) (x.is_point()?pts:oth).push_back(x); std::shuffle(oth.begin(),oth.end(),r); for(auto&x:pts) q.add_generator(x); for(auto&x:oth) q.add_generator(x); return q; }
  if(style==1){ C_Polyhedron q(n); Constraint_System cs=c.minimized_constraints(); std::vector<Constraint> v(cs.begin(), cs.end()); std::shuffle(v.begin(),v.end(),r); for(auto&x:v) q.add_constraint(x); return q; }
  if(style==2){ C_Polyhedron q(n); Constraint_System cs=c.constraints(); for(Constraint_System::const_iterator i=cs.begin();i!=cs.end();++i){ q.add_constraint(*i); } 
      // add redundant constraints: sums of pairs
      Constraint_System ms=c.minimized_constraints(); std::vector<Constraint> v(ms.begin(), ms.end()); if(v.size()>=2){ Linear_Expression e(v[0].expression()); e+=Linear_Expression(v[1].expression()); if(!v[0].is_equality() && !v[1].is_equality()) q.add_constraint(e>=0); } (void)q.generators(); return q; }
  C_Polyhedron q(p); (void) q.minimized_generators(); (void) q.minimized_constraints(); return q; }
int main(int argc,char**argv){ int N=atoi(argv[1]); RNG r(atoi(argv[2]));
  for(int id=0; id<N; ++id){ unsigned n=1+r()%3; int which=r()%2; // 0 H79, 1 BHRZ03
    C_Polyhedron y(n, EMPTY); y.add_generator(point(rle(r,n,-2,2,false))); int np=r()%3; for(int k=0;k<np;++k) y.add_generator(point(rle(r,n,-2,2,false), 1+r()%2));
    C_Polyhedron x(y); std::ostringstream o; o<<"{\"id\":"<<id<<",\"m\":"<<n+1<<",\"w\":\""<<(which?"BHRZ03":"H79")<<"\",\"x0\":"<<desc(x,n)<<",\"steps\":[";
    int len=3+r()%6; for(int s=0;s<len;++s){ // grow y
      int t=r()%5; Linear_Expression e=rle(r,n,-3,3,false); if(t<=2) y.add_generator(point(e,1+r()%2)); else if(!e.all_homogeneous_terms_are_zero()){ if(t==3) y.add_generator(ray(e)); else y.add_generator(line(e)); }
      C_Polyhedron z(x); z.upper_bound_assign(y); C_Polyhedron zarg(z);
      C_Polyhedron w1(z); if(which) w1.BHRZ03_widening_assign(x); else w1.H79_widening_assign(x);
      C_Polyhedron z2=rebuild(z,r,n), x2=rebuild(x,r,n); if(which) z2.BHRZ03_widening_assign(x2); else z2.H79_widening_assign(x2);
      // tokens
      unsigned tok=1; C_Polyhedron w3(z); if(which) w3.BHRZ03_widening_assign(x,&tok); else w3.H79_widening_assign(x,&tok);
      if(s) o<<","; o<<"{\"z\":"<<desc(zarg,n)<<",\"xprev\":"<<desc(x,n)<<",\"w\":"<<desc(w1,n)<<",\"w2\":"<<desc(z2,n)<<",\"wtok\":"<<desc(w3,n)<<",\"tok\":"<<tok<<"}";
      x=w1; }
    o<<"]}\n"; std::cout<<o.str(); } }
