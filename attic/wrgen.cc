#include "ppl.hh"
#include <iostream>
#include <sstream>
#include <random>
using namespace Parma_Polyhedra_Library;
typedef std::mt19937 RNG;
static std::string vec(const std::vector<long>& v){ std::ostringstream o; o<<"["; for(size_t i=0;i<v.size();++i){ if(i) o<<","; o<<v[i]; } o<<"]"; return o.str(); }
static long L(const Coefficient& c){ return c.get_si(); }
std::string jsH(const Constraint_System& cs, unsigned n){ std::ostringstream o; o<<"["; bool f=true;
  for (Constraint_System::const_iterator i=cs.begin(); i!=cs.end(); ++i){ std::vector<long> v(n+1); v[0]=L(i->inhomogeneous_term()); for(unsigned k=0;k<n;++k) v[k+1]=(k<i->space_dimension())?L(i->coefficient(Variable(k))):0; if(!f)o<<","; f=false; o<<"{\"k\":\""<<(i->is_equality()?"eq":i->is_strict_inequality()?"gt":"ge")<<"\",\"v\":"<<vec(v)<<"}"; } o<<"]"; return o.str(); }
template<class D> void one(int& id, RNG& r, const char* dn, int kind){ unsigned n=1+r()%2; D x(n);
  for(unsigned k=0;k<n;++k){ int lo=(int)(r()%900)-450; int w=(r()%3==0)? (int)(r()%700) : (int)(r()%60); if(r()%6) x.add_constraint(Variable(k)>=lo); if(r()%6) x.add_constraint(Variable(k)<=lo+w); }
  if(n==2 && kind>0 && r()%2){ int c=(int)(r()%200)-100; if(kind==1) x.add_constraint(Variable(0)-Variable(1)<=c); else x.add_constraint(Variable(0)+Variable(1)<=c); }
  Variables_Set vs; vs.insert(Variable(0)); if(n==2 && r()%2) vs.insert(Variable(1));
  int rep=r()%2, ov=r()%3; bool indiv=r()%2; unsigned thr = (r()%2)? 16 : 1+r()%3;
  Constraint_System guard; bool useg = r()%3==0; int gb=(int)(r()%256)-128; if(useg) guard.insert(Variable(0) <= gb);
  D y(x); std::string exc="";
  try { y.wrap_assign(vs, BITS_8, rep?SIGNED_2_COMPLEMENT:UNSIGNED, ov==0?OVERFLOW_WRAPS:ov==1?OVERFLOW_UNDEFINED:OVERFLOW_IMPOSSIBLE, useg?&guard:0, thr, indiv); } catch(std::exception& e){ exc=e.what(); }
  D xc(x), yc(y); std::vector<long> wv; for(Variables_Set::const_iterator i=vs.begin();i!=vs.end();++i) wv.push_back(*i+2);
  std::cout<<"{\"id\":"<<id++<<",\"dom\":\""<<dn<<"\",\"m\":"<<n+1<<",\"X\":"<<jsH(xc.constraints(),n)<<",\"Y\":"<<jsH(yc.constraints(),n)<<",\"vars\":"<<vec(wv)<<",\"signed\":"<<(rep?"true":"false")<<",\"ov\":"<<ov<<",\"guard\":"<<(useg?"true":"false")<<",\"gb\":"<<gb<<",\"exc\":\""<<(exc.empty()?"":"exc")<<"\"}\n"; }
int main(int argc,char**argv){ int N=atoi(argv[1]); RNG r(atoi(argv[2])); int id=0; while(id<N){ int t=r()%4; if(t==0) one<C_Polyhedron>(id,r,"poly",2); else if(t==1) one<Rational_Box>(id,r,"box",0); else if(t==2) one<BD_Shape<mpq_class> >(id,r,"bds",1); else one<Octagonal_Shape<mpq_class> >(id,r,"oct",2);} }
