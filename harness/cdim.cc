// C20 harness: replay of the behaviours of specs/cif/DimHist.tla (the dimension machine) through the C entry points of EVERY interfaced
// domain class.  A behaviour is a list of steps, each with the outcome the machine prescribes ("ok" / "inv") and the dimension of the
// receiver afterwards.  For every class the harness executes the step through ppl_c.h, observes (return value, how often the registered
// error handler ran and with which code, ppl_<C>_space_dimension of every live handle) and prints one line per (class, step) that differs
// from the prescription; nothing else is judged here.  Output: {"e":"Dim","cls":...,"t":...,"op":...,"exp":...,"rc":...,"hc":...,"hcode":...,
// "dims":[...],"expdims":[...],"bad":"<reason or empty>"} for every step (python counts, the mismatching ones are the violations).
#include "ppl_c.h"
#include "vjson.hh"
#include <gmp.h>
#include <iostream>
#include <sstream>
#include <vector>
#include <string>
typedef std::vector<long> LV;

static int hcalls = 0, hcode = 0;
extern "C" void on_error(enum ppl_enum_error_code code, const char*) { ++hcalls; hcode = (int) code; }

struct Coef { ppl_Coefficient_t c; explicit Coef(long v) : c(0) { mpz_t z; mpz_init_set_si(z, v); ppl_new_Coefficient_from_mpz_t(&c, z); mpz_clear(z); } ~Coef() { ppl_delete_Coefficient(c); } };
// the linear expression x_{d-1} (0 when d = 0): space dimension exactly d
struct LE { ppl_Linear_Expression_t e; explicit LE(unsigned d) : e(0) { ppl_new_Linear_Expression_with_dimension(&e, d); if (d > 0) { Coef one(1); ppl_Linear_Expression_add_to_coefficient(e, d - 1, one.c); } } ~LE() { ppl_delete_Linear_Expression(e); } };
struct Con { ppl_Constraint_t c; explicit Con(unsigned d) : c(0) { LE e(d); ppl_new_Constraint(&c, e.e, PPL_CONSTRAINT_TYPE_EQUAL); } ~Con() { ppl_delete_Constraint(c); } };
struct Cg { ppl_Congruence_t c; explicit Cg(unsigned d) : c(0) { LE e(d); Coef m(2); ppl_new_Congruence(&c, e.e, m.c); } ~Cg() { ppl_delete_Congruence(c); } };

struct Step { std::string op, out; int s, t; long a, b, nd; LV vs; };

struct Api {
  const char* name;
  int (*neu)(void**, size_t, int); int (*copy)(void**, void*); int (*assign)(void*, void*); int (*del)(void*); int (*dim)(void*, size_t*);
  int (*bin)(int, void*, void*); int (*un)(int, void*, size_t, size_t, size_t*, size_t); int (*ex)(int, void*, size_t, unsigned, long); int (*dc)(int, void*, unsigned);
};

#define HAS_ASSIGN(T, C, CT) static int T##_assign(void* d, void* s) { return ppl_assign_##CT##_from_##CT((ppl_##C##_t) d, (ppl_const_##C##_t) s); } static int (* const T##_assign_p)(void*, void*) = T##_assign;
// (the powersets and the product have no ppl_assign_<C>_from_<C>: the step is replayed as delete + copy-construct)
#define NO_ASSIGN(T, C, CT) static int (* const T##_assign_p)(void*, void*) = 0;
#define CLASS_API(T, C, CT, ASSIGN) \
  static int T##_new(void** h, size_t n, int e) { ppl_##C##_t x = 0; int r = ppl_new_##CT##_from_space_dimension(&x, n, e); if (r >= 0) *h = x; return r; } \
  static int T##_copy(void** h, void* s) { ppl_##C##_t x = 0; int r = ppl_new_##CT##_from_##CT(&x, (ppl_const_##C##_t) s); if (r >= 0) *h = x; return r; } \
  ASSIGN(T, C, CT) \
  static int T##_del(void* h) { return ppl_delete_##C((ppl_const_##C##_t) h); } \
  static int T##_dim(void* h, size_t* n) { return ppl_##C##_space_dimension((ppl_const_##C##_t) h, n); } \
  static int T##_bin(int k, void* dv, void* sv) { ppl_##C##_t d = (ppl_##C##_t) dv; ppl_const_##C##_t s = (ppl_const_##C##_t) sv; switch (k) { \
    case 0: return ppl_##C##_intersection_assign(d, s); case 1: return ppl_##C##_upper_bound_assign(d, s); case 2: return ppl_##C##_difference_assign(d, s); \
    case 3: return ppl_##C##_time_elapse_assign(d, s); case 4: return ppl_##C##_contains_##C(d, s); case 5: return ppl_##C##_strictly_contains_##C(d, s); \
    case 6: return ppl_##C##_is_disjoint_from_##C(d, s); case 8: return ppl_##C##_equals_##C(d, s); default: return ppl_##C##_concatenate_assign(d, s); } } \
  static int T##_un(int k, void* dv, size_t a, size_t b, size_t* ds, size_t n) { ppl_##C##_t d = (ppl_##C##_t) dv; switch (k) { \
    case 0: return ppl_##C##_add_space_dimensions_and_embed(d, a); case 1: return ppl_##C##_add_space_dimensions_and_project(d, a); \
    case 2: return ppl_##C##_remove_higher_space_dimensions(d, a); case 3: return ppl_##C##_remove_space_dimensions(d, ds, n); \
    case 4: return ppl_##C##_expand_space_dimension(d, a, b); case 5: return ppl_##C##_fold_space_dimensions(d, ds, n, a); \
    case 6: return ppl_##C##_map_space_dimensions(d, ds, n); case 7: return ppl_##C##_unconstrain_space_dimension(d, a); \
    case 8: { size_t m; return ppl_##C##_space_dimension(d, &m); } case 9: return ppl_##C##_is_empty(d); case 10: return ppl_##C##_is_universe(d); \
    case 11: return ppl_##C##_is_bounded(d); case 12: return ppl_##C##_OK(d); case 13: return ppl_##C##_topological_closure_assign(d); \
    default: { size_t m; return ppl_##C##_affine_dimension(d, &m); } } } \
  static int T##_ex(int k, void* dv, size_t var, unsigned ed, long den) { ppl_##C##_t d = (ppl_##C##_t) dv; LE e(ed); LE e2(ed); Coef c(den); switch (k) { \
    case 0: return ppl_##C##_affine_image(d, var, e.e, c.c); case 1: return ppl_##C##_affine_preimage(d, var, e.e, c.c); \
    case 2: return ppl_##C##_generalized_affine_image(d, var, PPL_CONSTRAINT_TYPE_EQUAL, e.e, c.c); default: return ppl_##C##_bounded_affine_image(d, var, e.e, e2.e, c.c); } } \
  static int T##_dc(int k, void* dv, unsigned cd) { ppl_##C##_t d = (ppl_##C##_t) dv; switch (k) { \
    case 0: { Con c(cd); return ppl_##C##_refine_with_constraint(d, c.c); } case 1: { Con c(cd); return ppl_##C##_add_constraint(d, c.c); } \
    case 2: { Con c(cd); return ppl_##C##_relation_with_Constraint(d, c.c); } case 3: { LE e(cd); return ppl_##C##_bounds_from_above(d, e.e); } \
    case 4: { LE e(cd); Coef n(0), dd(1); int mx = 0; return ppl_##C##_maximize(d, e.e, n.c, dd.c, &mx); } default: { Cg c(cd); return ppl_##C##_refine_with_congruence(d, c.c); } } } \
  static const Api T##_api = { #T, T##_new, T##_copy, T##_assign_p, T##_del, T##_dim, T##_bin, T##_un, T##_ex, T##_dc };

CLASS_API(C_Polyhedron, Polyhedron, C_Polyhedron, HAS_ASSIGN)
CLASS_API(NNC_Polyhedron, Polyhedron, NNC_Polyhedron, HAS_ASSIGN)
CLASS_API(Grid, Grid, Grid, HAS_ASSIGN)
CLASS_API(Rational_Box, Rational_Box, Rational_Box, HAS_ASSIGN)
CLASS_API(Double_Box, Double_Box, Double_Box, HAS_ASSIGN)
CLASS_API(BD_Shape_mpz_class, BD_Shape_mpz_class, BD_Shape_mpz_class, HAS_ASSIGN)
CLASS_API(BD_Shape_mpq_class, BD_Shape_mpq_class, BD_Shape_mpq_class, HAS_ASSIGN)
CLASS_API(BD_Shape_double, BD_Shape_double, BD_Shape_double, HAS_ASSIGN)
CLASS_API(Octagonal_Shape_mpz_class, Octagonal_Shape_mpz_class, Octagonal_Shape_mpz_class, HAS_ASSIGN)
CLASS_API(Octagonal_Shape_mpq_class, Octagonal_Shape_mpq_class, Octagonal_Shape_mpq_class, HAS_ASSIGN)
CLASS_API(Octagonal_Shape_double, Octagonal_Shape_double, Octagonal_Shape_double, HAS_ASSIGN)
CLASS_API(Pointset_Powerset_C_Polyhedron, Pointset_Powerset_C_Polyhedron, Pointset_Powerset_C_Polyhedron, NO_ASSIGN)
CLASS_API(Pointset_Powerset_NNC_Polyhedron, Pointset_Powerset_NNC_Polyhedron, Pointset_Powerset_NNC_Polyhedron, NO_ASSIGN)
CLASS_API(Constraints_Product_C_Polyhedron_Grid, Constraints_Product_C_Polyhedron_Grid, Constraints_Product_C_Polyhedron_Grid, NO_ASSIGN)
static const Api* APIS[] = { &C_Polyhedron_api, &NNC_Polyhedron_api, &Grid_api, &Rational_Box_api, &Double_Box_api, &BD_Shape_mpz_class_api, &BD_Shape_mpq_class_api,
  &BD_Shape_double_api, &Octagonal_Shape_mpz_class_api, &Octagonal_Shape_mpq_class_api, &Octagonal_Shape_double_api, &Pointset_Powerset_C_Polyhedron_api,
  &Pointset_Powerset_NNC_Polyhedron_api, &Constraints_Product_C_Polyhedron_Grid_api, 0 };

static int idx(const char* const* names, const std::string& op) { for (int i = 0; names[i]; ++i) if (op == names[i]) return i; return -1; }
static const char* BIN[] = { "intersection", "upper_bound", "difference", "time_elapse", "contains", "strictly_contains", "is_disjoint_from", "concatenate", 0 };
static const char* UN[] = { "embed", "project", "remove_higher", "remove_dims", "expand", "fold", "map_dims", "unconstrain", "space_dimension", "is_empty", "is_universe", "is_bounded", "OK", "topological_closure", "affine_dimension", 0 };
static const char* EX[] = { "affine_image", "affine_preimage", "generalized_affine_image", "bounded_affine_image", 0 };
static const char* DC[] = { "refine_with_constraint", "add_constraint", "relation_with_constraint", "bounds_from_above", "maximize", "refine_with_congruence", 0 };

static void run_class(const Api& A, const std::vector<Step>& st, vj::Writer& W) {
  void* H[5] = { 0, 0, 0, 0, 0 }; long model[5] = { -1, -1, -1, -1, -1 };
  for (size_t t = 0; t < st.size(); ++t) {
    const Step& x = st[t]; hcalls = 0; hcode = 0; int rc = 0; const std::string& op = x.op; int k;
    std::vector<size_t> ds(x.vs.size()); ppl_dimension_type nad; ppl_not_a_dimension(&nad); for (size_t i = 0; i < x.vs.size(); ++i) ds[i] = x.vs[i] >= 0 ? (size_t) x.vs[i] : (size_t) nad;
    // (observation used to classify divergences: is an operand empty before the call?)
    bool emp = false; if (op != "new" && op != "copy") { if (H[x.s] && A.un(9, H[x.s], 0, 0, 0, 0) > 0) emp = true; if (x.t > 0 && H[x.t] && A.un(9, H[x.t], 0, 0, 0, 0) > 0) emp = true; } hcalls = 0; hcode = 0;
    // a rejected call and an observer must leave the value behind the handle unchanged: compared with a copy taken before the call
    static const char* OBS[] = { "contains", "strictly_contains", "is_disjoint_from", "relation_with_constraint", "bounds_from_above", "maximize", "space_dimension", "is_empty", "is_universe", "is_bounded", "OK", "affine_dimension", 0 };
    void* snap = 0; void* snapt = 0;
    if (op != "new" && op != "copy" && op != "delete" && (x.out == "inv" || idx(OBS, op) >= 0)) { if (H[x.s]) A.copy(&snap, H[x.s]); if (x.t > 0 && x.t != x.s && H[x.t]) A.copy(&snapt, H[x.t]); }
    hcalls = 0; hcode = 0;
    if (op == "new") rc = A.neu(&H[x.s], x.a, (int) x.b);
    else if (op == "copy") rc = A.copy(&H[x.s], H[x.t]);
    else if (op == "delete") { rc = A.del(H[x.s]); H[x.s] = 0; }
    else if (op == "assign_copy") { if (A.assign) rc = A.assign(H[x.s], H[x.t]); else if (x.s != x.t) { void* nh = 0; rc = A.copy(&nh, H[x.t]); if (rc >= 0) { A.del(H[x.s]); H[x.s] = nh; } } }
    else if ((k = idx(BIN, op)) >= 0) rc = A.bin(k, H[x.s], H[x.t]);
    else if ((k = idx(EX, op)) >= 0) rc = A.ex(k, H[x.s], x.vs.empty() ? 0 : x.vs[0], (unsigned) x.a, x.b);
    else if ((k = idx(DC, op)) >= 0) rc = A.dc(k, H[x.s], (unsigned) x.a);
    else if ((k = idx(UN, op)) >= 0) rc = A.un(k, H[x.s], (size_t) x.a, (size_t) x.b, ds.empty() ? 0 : &ds[0], ds.size());
    else rc = -1000;
    int rcode = rc, hc = hcalls, hcd = hcode;
    // the model's view of every slot after the step
    if (op == "delete") model[x.s] = -1; else model[x.s] = x.nd;
    std::string bad = "";
    if (rc == -1000) bad = "unknown-op";
    else if (x.out == "ok" && rc < 0) bad = "well-formed-call-returned-an-error-code";
    else if (x.out == "ok" && hc != 0) bad = "handler-invoked-on-a-successful-call";
    else if (x.out == "inv" && rc != PPL_ERROR_INVALID_ARGUMENT) bad = rc >= 0 ? "ill-formed-call-not-rejected" : "ill-formed-call-rejected-with-a-different-code";
    else if (x.out == "inv" && hc != 1) bad = "negative-code-but-handler-not-invoked-exactly-once";
    else if (x.out == "inv" && hcd != rc) bad = "handler-code-differs-from-return-code";
    LV dims, exp;
    for (int s = 1; s <= 4; ++s) { long dd = -1; if (H[s]) { size_t m = 0; hcalls = 0; int r2 = A.dim(H[s], &m); dd = r2 < 0 ? -2 : (long) m; } dims.push_back(dd); exp.push_back(model[s]); }
    if (bad == "" && dims != exp) bad = "space-dimensions-differ-from-the-model";
    if (snap) { if (bad == "" && H[x.s] && A.bin(8, H[x.s], snap) <= 0) bad = (x.out == "inv") ? "rejected-call-changed-the-value-behind-the-handle" : "observer-changed-the-value-behind-the-handle"; A.del(snap); }
    if (snapt) { if (bad == "" && H[x.t] && A.bin(8, H[x.t], snapt) <= 0) bad = "call-changed-the-value-of-its-const-argument"; A.del(snapt); }
    vj::Obj e; e.s("e", "Dim").s("cls", A.name).i("t", t).s("op", op).s("exp", x.out).i("rc", rcode).i("hc", hc).i("hcode", hcd).raw("dims", vj::arr(dims)).raw("expdims", vj::arr(exp)).s("bad", bad).b("emp", emp).b("big", false);
    W.line(e.str());
    if (bad != "") break;   // after a divergence (e.g. an ill-formed call that was not rejected) the handles no longer mirror the model: stop this class
  }
  for (int s = 1; s <= 4; ++s) if (H[s]) A.del(H[s]);
}

static LV rdv(std::istringstream& is) { size_t n; is >> n; LV v(n); for (size_t i = 0; i < n; ++i) is >> v[i]; return v; }
static void run_history(const std::vector<std::string>& lines, int fd) {
  vj::install_terminate(); vj::Writer W(fd);
  ppl_initialize(); ppl_set_error_handler(on_error);
  std::vector<Step> st;
  for (size_t t = 1; t < lines.size(); ++t) { std::istringstream is(lines[t]); std::string tag; Step x; is >> tag >> x.op >> x.s >> x.t >> x.a >> x.b >> x.out >> x.nd; is >> tag; x.vs = rdv(is); st.push_back(x); }
  W.line("{\"e\":\"Reset\"}");
  for (int i = 0; APIS[i]; ++i) run_class(*APIS[i], st, W);
}
int main(int argc, char** argv) {
  vj::for_each_history(std::cin, argc > 1 ? atoi(argv[1]) : 30, std::cout, run_history);
  return 0;
}
