// C11 harness: enumerates checked-number primitives (exhaustively for 8-bit types, boundary-biased
// for 16-bit, small-valued for GMP types) and logs, per (type, primitive, rounding direction, first
// operand), the row of second operands with the returned Result code and the stored value, decoded
// to [class, numerator, denominator] (class 0 finite, 1 -inf, 2 +inf, 3 NaN).  No judgement here.
#include "ppl.hh"
#include <cstdio>
#include <vector>
#include <string>
#include <limits>
#include <stdint.h>
using namespace Parma_Polyhedra_Library;

struct Val { int c; long n, d; };
template <typename T, typename P> static Val dec(const Checked_Number<T, P>& x) {
  Val v; v.n = 0; v.d = 1;
  if (is_not_a_number(x)) v.c = 3; else if (is_minus_infinity(x)) v.c = 1; else if (is_plus_infinity(x)) v.c = 2;
  else { v.c = 0; v.n = (long) raw_value(x); }
  return v;
}
template <typename P> static Val dec(const Checked_Number<mpz_class, P>& x) {
  Val v; v.n = 0; v.d = 1;
  if (is_not_a_number(x)) v.c = 3; else if (is_minus_infinity(x)) v.c = 1; else if (is_plus_infinity(x)) v.c = 2;
  else { v.c = 0; v.n = raw_value(x).get_si(); }
  return v;
}
template <typename P> static Val dec(const Checked_Number<mpq_class, P>& x) {
  Val v; v.n = 0; v.d = 1;
  if (is_not_a_number(x)) v.c = 3; else if (is_minus_infinity(x)) v.c = 1; else if (is_plus_infinity(x)) v.c = 2;
  else { v.c = 0; v.n = raw_value(x).get_num().get_si(); v.d = raw_value(x).get_den().get_si(); }
  return v;
}
template <typename N> static N enc(const Val& v) {
  N x;
  if (v.c == 3) assign_r(x, NOT_A_NUMBER, ROUND_NOT_NEEDED); else if (v.c == 1) assign_r(x, MINUS_INFINITY, ROUND_NOT_NEEDED);
  else if (v.c == 2) assign_r(x, PLUS_INFINITY, ROUND_NOT_NEEDED);
  else if (v.d == 1) assign_r(x, v.n, ROUND_NOT_NEEDED);
  else { mpq_class q(v.n, v.d); q.canonicalize(); assign_r(x, q, ROUND_NOT_NEEDED); }
  return x;
}
static void pv(const Val& v) { std::printf("[%d,%ld,%ld]", v.c, v.n, v.d); }

static const Rounding_Dir DIRS[3] = { ROUND_DOWN, ROUND_UP, ROUND_IGNORE };
static const char* DN[3] = { "down", "up", "ignore" };

template <typename N> struct Ctx { const char* ty; long lo, hi; bool ext, integral; std::vector<Val> ops; };

template <typename N, typename F>
static void binop(const Ctx<N>& C, const char* name, F f, bool fused) {
  std::vector<Val> zs; Val z0 = { 0, 0, 1 }; zs.push_back(z0);
  if (fused) { Val a = { 0, 3, 1 }, b = { 0, -5, 1 }, c = { 0, C.hi, 1 }, d = { 0, C.lo, 1 }; zs.push_back(a); zs.push_back(b); zs.push_back(c); zs.push_back(d); if (C.ext) { Val e = { 2, 0, 1 }; zs.push_back(e); Val g = { 3, 0, 1 }; zs.push_back(g); } }
  for (int d = 0; d < 3; ++d) for (size_t zi = 0; zi < zs.size(); ++zi) for (size_t a = 0; a < C.ops.size(); ++a) {
    if (fused && zi > 0 && a % 7 != 0) continue;  // thin the accumulator dimension
    std::printf("{\"ty\":\"%s\",\"lo\":%ld,\"hi\":%ld,\"ext\":%s,\"integral\":%s,\"op\":\"%s\",\"dir\":\"%s\",\"a\":", C.ty, C.lo, C.hi, C.ext ? "true" : "false", C.integral ? "true" : "false", name, DN[d]);
    pv(dec(enc<N>(C.ops[a]))); std::printf(",\"z\":"); pv(dec(enc<N>(zs[zi]))); std::printf(",\"ys\":[");
    for (size_t b = 0; b < C.ops.size(); ++b) { if (b) std::printf(","); pv(dec(enc<N>(C.ops[b]))); }
    std::printf("],\"rs\":[");
    for (size_t b = 0; b < C.ops.size(); ++b) {
      N x = enc<N>(C.ops[a]), y = enc<N>(C.ops[b]), z = enc<N>(zs[zi]);
      Result r = f(z, x, y, DIRS[d]); Val s = dec(z);
      std::printf("%s[%d,%d,%ld,%ld]", b ? "," : "", (int) r, s.c, s.n, s.d);
    }
    std::printf("]}\n");
  }
}
template <typename N, typename F>
static void unop(const Ctx<N>& C, const char* name, F f) {
  for (int d = 0; d < 3; ++d) {
    std::printf("{\"ty\":\"%s\",\"lo\":%ld,\"hi\":%ld,\"ext\":%s,\"integral\":%s,\"op\":\"%s\",\"dir\":\"%s\",\"a\":[0,0,1],\"z\":[0,0,1],\"ys\":[", C.ty, C.lo, C.hi, C.ext ? "true" : "false", C.integral ? "true" : "false", name, DN[d]);
    for (size_t b = 0; b < C.ops.size(); ++b) { if (b) std::printf(","); pv(dec(enc<N>(C.ops[b]))); }
    std::printf("],\"rs\":[");
    for (size_t b = 0; b < C.ops.size(); ++b) { N y = enc<N>(C.ops[b]), z = enc<N>(C.ops[0]); Result r = f(z, y, DIRS[d]); Val s = dec(z); std::printf("%s[%d,%d,%ld,%ld]", b ? "," : "", (int) r, s.c, s.n, s.d); }
    std::printf("]}\n");
  }
}
template <typename N, typename F>
static void expop(const Ctx<N>& C, const char* name, F f, int maxexp) {
  for (int d = 0; d < 3; ++d) for (int k = 0; k <= maxexp; ++k) {
    std::printf("{\"ty\":\"%s\",\"lo\":%ld,\"hi\":%ld,\"ext\":%s,\"integral\":%s,\"op\":\"%s\",\"dir\":\"%s\",\"a\":[0,%d,1],\"z\":[0,0,1],\"ys\":[", C.ty, C.lo, C.hi, C.ext ? "true" : "false", C.integral ? "true" : "false", name, DN[d], k);
    for (size_t b = 0; b < C.ops.size(); ++b) { if (b) std::printf(","); pv(dec(enc<N>(C.ops[b]))); }
    std::printf("],\"rs\":[");
    for (size_t b = 0; b < C.ops.size(); ++b) { N y = enc<N>(C.ops[b]), z = enc<N>(C.ops[0]); Result r = f(z, y, (unsigned) k, DIRS[d]); Val s = dec(z); std::printf("%s[%d,%d,%ld,%ld]", b ? "," : "", (int) r, s.c, s.n, s.d); }
    std::printf("]}\n");
  }
}

template <typename N, bool Integral> struct Int_Ops { static void run(const Ctx<N>&, int) {} };
template <typename N> struct Int_Ops<N, true> {
  static void run(const Ctx<N>& C, int maxexp) {
    binop(C, "idiv", [](N& z, const N& x, const N& y, Rounding_Dir d) { return idiv_assign_r(z, x, y, d); }, false);
    binop(C, "rem", [](N& z, const N& x, const N& y, Rounding_Dir d) { return rem_assign_r(z, x, y, d); }, false);
    binop(C, "gcd", [](N& z, const N& x, const N& y, Rounding_Dir d) { return gcd_assign_r(z, x, y, d); }, false);
    binop(C, "lcm", [](N& z, const N& x, const N& y, Rounding_Dir d) { return lcm_assign_r(z, x, y, d); }, false);
    expop(C, "smod_2exp", [](N& z, const N& y, unsigned k, Rounding_Dir d) { return smod_2exp_assign_r(z, y, k, d); }, maxexp);
    expop(C, "umod_2exp", [](N& z, const N& y, unsigned k, Rounding_Dir d) { return umod_2exp_assign_r(z, y, k, d); }, maxexp);
  }
};
template <typename N, bool Integral>
static void all_ops(const Ctx<N>& C, int maxexp) {
  binop(C, "add", [](N& z, const N& x, const N& y, Rounding_Dir d) { return add_assign_r(z, x, y, d); }, false);
  binop(C, "sub", [](N& z, const N& x, const N& y, Rounding_Dir d) { return sub_assign_r(z, x, y, d); }, false);
  binop(C, "mul", [](N& z, const N& x, const N& y, Rounding_Dir d) { return mul_assign_r(z, x, y, d); }, false);
  binop(C, "div", [](N& z, const N& x, const N& y, Rounding_Dir d) { return div_assign_r(z, x, y, d); }, false);
  Int_Ops<N, Integral>::run(C, maxexp);
  binop(C, "add_mul", [](N& z, const N& x, const N& y, Rounding_Dir d) { return add_mul_assign_r(z, x, y, d); }, true);
  binop(C, "sub_mul", [](N& z, const N& x, const N& y, Rounding_Dir d) { return sub_mul_assign_r(z, x, y, d); }, true);
  unop(C, "neg", [](N& z, const N& y, Rounding_Dir d) { return neg_assign_r(z, y, d); });
  unop(C, "abs", [](N& z, const N& y, Rounding_Dir d) { return abs_assign_r(z, y, d); });
  unop(C, "sqrt", [](N& z, const N& y, Rounding_Dir d) { return sqrt_assign_r(z, y, d); });
  unop(C, "assign", [](N& z, const N& y, Rounding_Dir d) { return assign_r(z, y, d); });
  unop(C, "floor", [](N& z, const N& y, Rounding_Dir d) { return floor_assign_r(z, y, d); });
  unop(C, "ceil", [](N& z, const N& y, Rounding_Dir d) { return ceil_assign_r(z, y, d); });
  unop(C, "trunc", [](N& z, const N& y, Rounding_Dir d) { return trunc_assign_r(z, y, d); });
  expop(C, "mul_2exp", [](N& z, const N& y, unsigned k, Rounding_Dir d) { return mul_2exp_assign_r(z, y, k, d); }, maxexp);
  expop(C, "div_2exp", [](N& z, const N& y, unsigned k, Rounding_Dir d) { return div_2exp_assign_r(z, y, k, d); }, maxexp);
}

template <typename T>
static void int_type(const char* name, bool exhaustive) {
  typedef Checked_Number<T, Debug_WRD_Extended_Number_Policy> N;
  Ctx<N> C; C.ty = name; C.ext = true; C.integral = true;
  // finite range of the extended policy: probe by exact assignment
  long mn = (long) std::numeric_limits<T>::min(), mx = (long) std::numeric_limits<T>::max();
  N t; C.lo = mx; C.hi = mn;
  for (long v = mn; v <= mn + 4; ++v) if (assign_r(t, v, ROUND_NOT_NEEDED) == V_EQ && !is_minus_infinity(t) && !is_not_a_number(t) && !is_plus_infinity(t)) { C.lo = v; break; }
  for (long v = mx; v >= mx - 4; --v) if (assign_r(t, v, ROUND_NOT_NEEDED) == V_EQ && !is_minus_infinity(t) && !is_not_a_number(t) && !is_plus_infinity(t)) { C.hi = v; break; }
  std::vector<long> vals;
  if (exhaustive) for (long v = C.lo; v <= C.hi; ++v) vals.push_back(v);
  else {
    long pts[] = { C.lo, C.lo + 1, C.lo + 2, C.lo / 2 - 1, C.lo / 2, C.lo / 2 + 1, -258, -257, -256, -255, -182, -181, -130, -129, -128, -127, -126, -17, -16, -15, -7, -4, -3, -2, -1, 0, 1, 2, 3, 4, 5, 7, 15, 16, 17, 126, 127, 128, 129, 130, 180, 181, 182, 254, 255, 256, 257, 258, C.hi / 2 - 1, C.hi / 2, C.hi / 2 + 1, C.hi - 2, C.hi - 1, C.hi };
    for (size_t i = 0; i < sizeof pts / sizeof pts[0]; ++i) if (pts[i] >= C.lo && pts[i] <= C.hi) vals.push_back(pts[i]);
  }
  for (size_t i = 0; i < vals.size(); ++i) { Val v = { 0, vals[i], 1 }; C.ops.push_back(v); }
  Val a = { 1, 0, 1 }, b = { 2, 0, 1 }, c = { 3, 0, 1 }; C.ops.push_back(a); C.ops.push_back(b); C.ops.push_back(c);
  all_ops<N, true>(C, (int) sizeof(T) * 8 + 1);
}
template <typename T, bool integral>
static void gmp_type(const char* name) {
  typedef Checked_Number<T, Debug_WRD_Extended_Number_Policy> N;
  Ctx<N> C; C.ty = name; C.ext = true; C.integral = integral; C.lo = -1000000; C.hi = 1000000;
  long pts[] = { -300, -128, -17, -9, -4, -3, -2, -1, 0, 1, 2, 3, 4, 5, 9, 16, 127, 300 };
  for (size_t i = 0; i < sizeof pts / sizeof pts[0]; ++i) { Val v = { 0, pts[i], 1 }; C.ops.push_back(v); }
  if (!integral) { long qs[][2] = { { 1, 2 }, { -1, 3 }, { 7, 4 }, { -9, 5 }, { 1, 7 }, { 22, 7 } }; for (size_t i = 0; i < 6; ++i) { Val v = { 0, qs[i][0], qs[i][1] }; C.ops.push_back(v); } }
  Val a = { 1, 0, 1 }, b = { 2, 0, 1 }, c = { 3, 0, 1 }; C.ops.push_back(a); C.ops.push_back(b); C.ops.push_back(c);
  all_ops<N, integral>(C, 6);
}


// ---------------------------------------------------------------- 32- and 64-bit types (values as base-2^14 limbs)
static void pbig(int c, bool neg, unsigned long long mag) {
  std::printf("[%d,%d", c, mag == 0 ? 0 : (neg ? -1 : 1));
  for (int i = 0; i < 5; ++i) { std::printf(",%llu", mag & 16383ULL); mag >>= 14; }
  std::printf("]");
}
template <typename T> static void pnum(T v) { if (v < 0) pbig(0, true, (unsigned long long) (-(v + 1)) + 1ULL); else pbig(0, false, (unsigned long long) v); }
template <typename T, typename P> static void pstored(const Checked_Number<T, P>& x) {
  if (is_not_a_number(x)) pbig(3, false, 0); else if (is_minus_infinity(x)) pbig(1, false, 0); else if (is_plus_infinity(x)) pbig(2, false, 0); else pnum<T>(raw_value(x));
}
template <typename T>
static void wide_type(const char* name) {
  typedef Checked_Number<T, Debug_WRD_Extended_Number_Policy> N;
  const bool sgn = std::numeric_limits<T>::is_signed; const int w = sizeof(T) * 8;
  T mx = std::numeric_limits<T>::max(), mn = std::numeric_limits<T>::min();
  // finite range of the extended policy
  T lo = mn, hi = mx; N t;
  for (int k = 0; k < 4; ++k) { T v = mx - k; t = N(); raw_value(t) = v; if (!is_plus_infinity(t) && !is_not_a_number(t) && !is_minus_infinity(t)) { hi = v; break; } }
  for (int k = 0; k < 4; ++k) { T v = mn + k; t = N(); raw_value(t) = v; if (!is_plus_infinity(t) && !is_not_a_number(t) && !is_minus_infinity(t)) { lo = v; break; } }
  std::vector<T> pos;  // magnitudes: small values, powers of two +-1, the integer square root of the maximum and neighbours, halves and thirds
  T small[] = { 0, 1, 2, 3, 5, 7, 16, 255, 256, 257 }; for (size_t i = 0; i < sizeof small / sizeof small[0]; ++i) pos.push_back(small[i]);
  for (int k = 14; k < w - (sgn ? 1 : 0); k += (k < w / 2 - 2 || k > w / 2 + 1) ? 7 : 1) { T p = (T) 1 << k; pos.push_back(p - 1); pos.push_back(p); pos.push_back(p + 1); }
  unsigned long long r = 1; while ((r + 1) * (r + 1) - 1 <= (unsigned long long) hi && r < 4294967295ULL) r = (r * r < (unsigned long long) hi / 4 ? r * 2 : r + (((unsigned long long) hi - r * r) / (2 * r + 1) > 0 ? ((unsigned long long) hi - r * r) / (2 * r + 1) : 1));
  while (r * r > (unsigned long long) hi) --r; while ((r + 1) * (r + 1) <= (unsigned long long) hi && r + 1 <= 4294967295ULL) ++r;
  pos.push_back((T) (r - 1)); pos.push_back((T) r); pos.push_back((T) (r + 1)); pos.push_back((T) (r + 2));
  pos.push_back(hi / 3); pos.push_back(hi / 2); pos.push_back(hi / 2 + 1); pos.push_back(hi - 2); pos.push_back(hi - 1); pos.push_back(hi);
  std::vector<T> vals;
  for (size_t i = 0; i < pos.size(); ++i) { T v = pos[i]; if (v < 0 || v > hi) continue; vals.push_back(v); if (sgn && v != 0) vals.push_back((T) (0 - v)); }
  if (sgn) { vals.push_back(lo); vals.push_back(lo + 1); vals.push_back(lo / 2); }
  const char* ops[] = { "add", "sub", "mul", "div", "add_mul", "sub_mul", "neg", "abs", "assign", "sqrt" };
  T zsv[] = { 0, 3, hi, lo, (T) (hi / 2) };
  for (int oi = 0; oi < 10; ++oi) for (int d = 0; d < 3; ++d) {
    std::string op = ops[oi]; bool unary = (oi >= 6); bool fused = (op == "add_mul" || op == "sub_mul");
    for (size_t zi = 0; zi < (fused ? 5u : 1u); ++zi) for (size_t a = 0; a < (unary ? 1u : vals.size()); ++a) {
      if (fused && zi > 0 && a % 5 != 0) continue;
      std::printf("{\"ty\":\"%s\",\"op\":\"%s\",\"dir\":\"%s\",\"lo\":", name, ops[oi], DN[d]); pnum<T>(lo); std::printf(",\"hi\":"); pnum<T>(hi);
      std::printf(",\"a\":"); pnum<T>(vals[a]); std::printf(",\"z\":"); pnum<T>(zsv[zi]); std::printf(",\"ys\":[");
      for (size_t b = 0; b < vals.size(); ++b) { if (b) std::printf(","); pnum<T>(vals[b]); }
      std::printf("],\"rs\":[");
      for (size_t b = 0; b < vals.size(); ++b) {
        N x, y, z; raw_value(x) = vals[a]; raw_value(y) = vals[b]; raw_value(z) = zsv[zi]; Result rr = V_EQ;
        if (op == "add") rr = add_assign_r(z, x, y, DIRS[d]); else if (op == "sub") rr = sub_assign_r(z, x, y, DIRS[d]); else if (op == "mul") rr = mul_assign_r(z, x, y, DIRS[d]);
        else if (op == "div") rr = div_assign_r(z, x, y, DIRS[d]); else if (op == "add_mul") rr = add_mul_assign_r(z, x, y, DIRS[d]); else if (op == "sub_mul") rr = sub_mul_assign_r(z, x, y, DIRS[d]);
        else if (op == "neg") rr = neg_assign_r(z, y, DIRS[d]); else if (op == "abs") rr = abs_assign_r(z, y, DIRS[d]); else if (op == "assign") rr = assign_r(z, y, DIRS[d]); else rr = sqrt_assign_r(z, y, DIRS[d]);
        std::printf("%s[%d,", b ? "," : "", (int) rr); 
        // stored value without the leading '[': print as flat tuple after the code
        { std::string dummy; }
        if (is_not_a_number(z)) std::printf("3,0,0,0,0,0,0]"); else if (is_minus_infinity(z)) std::printf("1,0,0,0,0,0,0]"); else if (is_plus_infinity(z)) std::printf("2,0,0,0,0,0,0]");
        else { T v = raw_value(z); bool ng = v < 0; unsigned long long mag = ng ? (unsigned long long) (-(v + 1)) + 1ULL : (unsigned long long) v; std::printf("0,%d", mag == 0 ? 0 : (ng ? -1 : 1)); for (int q = 0; q < 5; ++q) { std::printf(",%llu", mag & 16383ULL); mag >>= 14; } std::printf("]"); }
      }
      std::printf("]}\n");
    }
  }
}

int main(int argc, char** argv) {
  std::string which = argc > 1 ? argv[1] : "all";
  if (which == "int8" || which == "all") int_type<int8_t>("int8", true);
  if (which == "uint8" || which == "all") int_type<uint8_t>("uint8", true);
  if (which == "int16" || which == "all") int_type<int16_t>("int16", false);
  if (which == "uint16" || which == "all") int_type<uint16_t>("uint16", false);
  if (which == "int32") wide_type<int32_t>("int32");
  if (which == "uint32") wide_type<uint32_t>("uint32");
  if (which == "int64") wide_type<int64_t>("int64");
  if (which == "uint64") wide_type<uint64_t>("uint64");
  if (which == "mpz" || which == "all") gmp_type<mpz_class, true>("mpz");
  if (which == "mpq" || which == "all") gmp_type<mpq_class, false>("mpq");
  return 0;
}
