// Fault-enumeration framework shared by harness/fault.cc (polyhedra) and harness/faultsolv.cc (MIP / PIP problems); see fault.cc for the protocol.
// A system under test provides:   size_t size();  const char* name(size_t t);  void step(size_t t)  (executes call t, may throw);
//   std::string answer()  (result of the last step; called with fault injection off);  std::string final_state();
//   void recover(bool& usable, bool& okafter)  (assign to / use / check / destroy every object; leaves the system empty).
#ifndef VERIF_FAULTFW_HH
#define VERIF_FAULTFW_HH
#include <new>
#include <cstring>
#include <unistd.h>
#include <sys/wait.h>
#include <time.h>
// every block carries a header: position in the list of live blocks + the number of the allocation request that created it
struct Hdr { Hdr* prev; Hdr* next; long seq; long pad; };
static Hdr live_list = { &live_list, &live_list, -1, 0 };
static long live = 0, total = 0, fail_at = -1, seqno = 0; static bool counting = false, fired = false;
static long bt_seq[64]; static int bt_n = 0; static long run_seq0 = 0;
#include <execinfo.h>
static inline void tick() { if (counting) { if (fail_at >= 0 && total == fail_at) { ++total; fired = true; throw std::bad_alloc(); } ++total; } }
static void* my_alloc(size_t n) {
  tick(); Hdr* h = (Hdr*) std::malloc(sizeof(Hdr) + (n ? n : 1)); if (!h) throw std::bad_alloc();
  h->seq = seqno++; h->next = live_list.next; h->prev = &live_list; live_list.next->prev = h; live_list.next = h; ++live;
  for (int i = 0; i < bt_n; ++i) if (bt_seq[i] == h->seq - run_seq0) { void* fr[40]; int k = backtrace(fr, 40); fprintf(stderr, "---- leaked block, allocation #%ld of the run, %zu bytes\n", h->seq - run_seq0, n); backtrace_symbols_fd(fr, k, 2); }
  return h + 1;
}
static void my_free(void* p) { if (!p) return; Hdr* h = ((Hdr*) p) - 1; h->prev->next = h->next; h->next->prev = h->prev; --live; std::free(h); }
void* operator new(size_t n) { return my_alloc(n); }
void* operator new[](size_t n) { return my_alloc(n); }
void operator delete(void* p) noexcept { my_free(p); }
void operator delete[](void* p) noexcept { my_free(p); }
void operator delete(void* p, size_t) noexcept { my_free(p); }
void operator delete[](void* p, size_t) noexcept { my_free(p); }
extern "C" void* g_malloc(size_t n) { return my_alloc(n); }
extern "C" void* g_realloc(void* q, size_t, size_t n) {
  if (!q) return my_alloc(n);
  tick(); Hdr* h = ((Hdr*) q) - 1; Hdr* pv = h->prev; Hdr* nx = h->next;
  Hdr* h2 = (Hdr*) std::realloc(h, sizeof(Hdr) + (n ? n : 1)); if (!h2) throw std::bad_alloc();
  pv->next = h2; nx->prev = h2; return h2 + 1;
}
extern "C" void g_free(void* p, size_t) { my_free(p); }
// before any static initializer of the library allocates a big number with the default functions
__attribute__((constructor(101))) static void early_gmp() { mp_set_memory_functions(g_malloc, g_realloc, g_free); }


static double g_limit = 60.0;   // seconds granted to one history (the process is killed, and reported as a hang, beyond it)
static double now_s() { struct timespec ts; clock_gettime(CLOCK_MONOTONIC, &ts); return ts.tv_sec + ts.tv_nsec * 1e-9; }
static int MODE = 0;   // 0 alloc, 1 abandon, 2 overflow (natural), 3 alloc in a cold process (no warm-up: first-use allocations of library-global buffers are fault positions too)
static long ab_calls = 0, ab_at = -1;
struct Abandoned : public Throwable { void throw_me() const { if (counting) { if (ab_at >= 0 && ab_calls == ab_at) { ++ab_calls; fired = true; throw *this; } ++ab_calls; } } };
static Abandoned the_abandon;

struct Res { std::vector<std::string> answers; std::vector<std::string> excs; std::string fin; int stop_at; std::string thrown; std::string op; };
// runs the history; stops after the call in which the injected fault fired (or, mode overflow, after the first overflow_error)
template <typename Sys> static void run_once(Sys& sys, Res& r) {
  r.stop_at = -1; r.thrown = "none"; r.op = "";
  for (size_t t = 0; t < sys.size(); ++t) {
    std::string exc = ""; const char* ex = 0;
    counting = true;
    // (no allocation inside the handlers: the fault may be pending)
    try { sys.step(t); }
    catch (std::bad_alloc&) { ex = "bad_alloc"; } catch (Abandoned&) { ex = "abandoned"; }
    catch (std::invalid_argument&) { ex = "invalid_argument"; } catch (std::length_error&) { ex = "length_error"; }
    catch (std::domain_error&) { ex = "domain_error"; } catch (std::overflow_error&) { ex = "overflow_error"; }
    catch (std::logic_error&) { ex = "logic_error"; } catch (std::runtime_error&) { ex = "runtime_error"; }
    catch (std::exception&) { ex = "exception"; } catch (...) { ex = "unknown"; }
    counting = false;
    if (ex) exc = ex; else exc = sys.soft_exc();
    if (fired || (MODE == 2 && exc == "overflow_error")) { r.stop_at = (int) t; r.thrown = (exc == "" || exc == "dead" || exc == "skipped") ? "none" : exc; r.op = sys.name(t); return; }
    r.answers.push_back(exc + "|" + sys.answer()); r.excs.push_back(exc);
  }
  r.fin = sys.final_state();
}
struct Pod { int stop_at; char thrown[40]; char op[48]; bool fired, usable, okafter, same; };
static void cp(char* d, size_t n, const std::string& s) { size_t k = s.size() < n - 1 ? s.size() : n - 1; memcpy(d, s.data(), k); d[k] = 0; }
// one run with fault position k (k < 0: undisturbed), recovery included; every heap object of the run is gone on return
template <typename Sys> static Pod one(Sys& sys, long k, const Res* ref) {
  Pod q; Res r; fired = false; total = 0; ab_calls = 0; fail_at = -1; ab_at = -1;
  if (k >= 0) { if (MODE == 0 || MODE == 3) fail_at = k; else if (MODE == 1) ab_at = k; }
  run_once(sys, r);
  fail_at = -1; ab_at = -1; q.fired = fired; fired = false;
  sys.recover(q.usable, q.okafter);
  q.stop_at = r.stop_at; cp(q.thrown, sizeof q.thrown, r.thrown); cp(q.op, sizeof q.op, r.op);
  q.same = ref ? (r.stop_at == ref->stop_at && r.fin == ref->fin && r.answers == ref->answers) : true;
  return q;
}
static void bt_collect(long s0) { bt_n = 0; for (Hdr* h = live_list.next; h != &live_list; h = h->next) if (h->seq >= s0 && bt_n < 64) bt_seq[bt_n++] = h->seq - s0; run_seq0 = seqno; }

static unsigned long hash_res(const Res& r) { unsigned long h = 1469598103934665603UL; std::string all = r.fin; for (size_t i = 0; i < r.answers.size(); ++i) { all += "#"; all += r.answers[i]; }
  for (size_t i = 0; i < all.size(); ++i) { h ^= (unsigned char) all[i]; h *= 1099511628211UL; } return h ^ (unsigned long) (r.stop_at + 7); }
// MODE 3: every fault position is explored in a process of its own that has not run the history before.  Leaks are not measured there
// (static pools legitimately grow on first use); everything else is: exception class, recovery, and the undisturbed re-run must give the
// answers of an undisturbed run in another fresh process.
template <typename Sys> static void cold_history(Sys& sys, vj::Writer& W) {
  W.line("{\"e\":\"Reset\"}");
  int pf[2]; if (pipe(pf)) return;
  pid_t c0 = fork();
  if (c0 == 0) { close(pf[0]); Res ref; total = 0; fired = false; fail_at = -1; run_once(sys, ref); long N = total; bool us, ok; sys.recover(us, ok);
    unsigned long v[4] = { (unsigned long) N, hash_res(ref), (unsigned long) (us && ok), 0 }; if (write(pf[1], v, sizeof v) < 0) _exit(3); _exit(0); }
  close(pf[1]); unsigned long v[4] = { 0, 0, 0, 0 }; ssize_t got = read(pf[0], v, sizeof v); close(pf[0]); int st; waitpid(c0, &st, 0);
  if (got != (ssize_t) sizeof v) { W.line("{\"e\":\"Crash\",\"sig\":0,\"h\":0}"); return; }   // the undisturbed run itself died: not a fault behaviour
  long N = (long) v[0]; unsigned long refhash = v[1];
  { vj::Obj h; h.s("e", "Hist").i("mode", MODE).i("n", N).i("ops", sys.size()).i("stop", -1).s("thrown", "none").s("op", "").b("usable", v[2] != 0).b("okafter", v[2] != 0).b("big", false); W.line(h.str()); }
  double t_begin = now_s();
  long stride = N > 100 ? (N + 99) / 100 : 1;
  for (long k = 0; k < N; k += stride) {
    if (now_s() - t_begin > g_limit / 2) break;
    pid_t c = fork();
    if (c == 0) {
      alarm(20);
      Pod q = one(sys, k, 0);
      Res r3; fired = false; total = 0; run_once(sys, r3); bool same = (hash_res(r3) == refhash); bool u3, o3; sys.recover(u3, o3);
      Res r4; run_once(sys, r4); same = same && (hash_res(r4) == refhash); sys.recover(u3, o3);
      std::string rx = (q.stop_at >= 0 && (size_t) q.stop_at < r3.excs.size()) ? r3.excs[q.stop_at] : std::string("");
      vj::Obj e; e.s("e", "Fault").i("mode", MODE).i("k", k).i("n", N).s("op", q.op).i("opi", q.stop_at).s("thrown", q.thrown).s("refexc", rx).b("fired", q.fired)
        .i("leak", 0).i("leak2", 0).b("usable", q.usable).b("okafter", q.okafter).b("same", same && u3 && o3).b("crashed", false).b("big", false);
      W.line(e.str()); _exit(0);
    }
    int stc; waitpid(c, &stc, 0);
    if (!(WIFEXITED(stc) && WEXITSTATUS(stc) == 0)) {
      vj::Obj e; e.s("e", "Fault").i("mode", MODE).i("k", k).i("n", N).s("op", "?").i("opi", -1).s("thrown", "none").s("refexc", "").b("fired", true)
        .i("leak", 0).i("leak2", 0).b("usable", true).b("okafter", true).b("same", true).b("crashed", true).b("big", false);
      W.line(e.str());
    }
  }
}

template <typename Sys> static void fault_history(Sys& sys, vj::Writer& W) {
  if (MODE == 3) { cold_history(sys, W); return; }
  if (MODE == 1) abandon_expensive_computations = &the_abandon;
  W.buf.reserve(1 << 16);
  W.line("{\"e\":\"Reset\"}");
  double t_begin = now_s();
  for (int w = 0; w < 3; ++w) (void) one(sys, -1, 0);
  double t_run = (now_s() - t_begin) / 3.0;   // cost of one undisturbed run
  Res ref; long N;
  { total = 0; ab_calls = 0; fail_at = -1; ab_at = -1; fired = false; run_once(sys, ref); N = (MODE == 1) ? ab_calls : total;
    bool us, ok; sys.recover(us, ok);
    vj::Obj h; h.s("e", "Hist").i("mode", MODE).i("n", N).i("ops", sys.size()).i("stop", ref.stop_at).s("thrown", ref.thrown).s("op", ref.op).b("usable", us).b("okafter", ok).b("big", false);
    W.line(h.str()); }
  if (MODE == 2) {
    // natural faults: every run stops at the library's first overflow_error (if any)
    long l0 = live; long s0 = seqno; Pod a = one(sys, -1, &ref); long lk = live - l0;
    if (lk != 0 && getenv("FAULT_BT")) bt_collect(s0);
    long l1 = live; Pod b = one(sys, -1, &ref); long lk2 = live - l1; bt_n = 0;
    vj::Obj e; e.s("e", "Fault").i("mode", MODE).i("k", 0).i("n", 1).s("op", a.op).i("opi", a.stop_at).s("thrown", a.thrown).s("refexc", "").b("fired", a.stop_at >= 0)
      .i("leak", lk).i("leak2", lk2).b("usable", a.usable && b.usable).b("okafter", a.okafter && b.okafter).b("same", a.same && b.same).b("crashed", false).b("big", false);
    W.line(e.str());
    return;
  }
  // the time limit of the history is a guard against genuine non-termination after a fault, not a budget: a history whose undisturbed
  // run is slow is enumerated only as far as half the limit allows (and not at all if four runs would not fit in a third of it)
  if (t_run * 4 > g_limit / 3) return;
  long stride = N > 240 ? (N + 239) / 240 : 1;
  for (long k = 0; k < N; k += stride) {
    if (now_s() - t_begin > g_limit / 2) break;
    long live0 = live; long s0 = seqno; Pod q = one(sys, k, 0); long leak = live - live0, leak2 = 0;
    if (leak != 0) {
      if (getenv("FAULT_BT")) {   // diagnosis: list the blocks of that run that are still alive and show where the repetition allocates them
        bt_collect(s0); fprintf(stderr, "==== fault position %ld in call %d (%s): %ld block(s) still alive\n", k, q.stop_at, q.op, leak); }
      long l1 = live; (void) one(sys, k, 0); leak2 = live - l1; bt_n = 0; }
    Pod u = one(sys, -1, &ref);
    const std::string& rx = (q.stop_at >= 0 && (size_t) q.stop_at < ref.excs.size()) ? ref.excs[q.stop_at] : std::string("");
    vj::Obj e; e.s("e", "Fault").i("mode", MODE).i("k", k).i("n", N).s("op", q.op).i("opi", q.stop_at).s("thrown", q.thrown).s("refexc", rx).b("fired", q.fired)
      .i("leak", leak).i("leak2", leak2).b("usable", q.usable).b("okafter", q.okafter).b("same", u.same && u.usable && u.okafter).b("crashed", false).b("big", false);
    W.line(e.str());
  }
}
#endif
