// Shared helpers of the conformance harnesses: a tiny JSON writer, a token reader for the flat
// history format, and fork-per-history isolation (DESIGN.md R5).
#ifndef VERIF_VJSON_HH
#define VERIF_VJSON_HH
#include <string>
#include <sstream>
#include <vector>
#include <iostream>
#include <fstream>
#include <cstring>
#include <cstdlib>
#include <functional>
#include <unistd.h>
#include <signal.h>
#include <sys/wait.h>

namespace vj {

struct Obj {
  std::ostringstream o; bool first;
  Obj() : first(true) { o << "{"; }
  void key(const char* k) { if (!first) o << ","; first = false; o << "\"" << k << "\":"; }
  Obj& s(const char* k, const std::string& v) { key(k); o << "\"" << v << "\""; return *this; }
  Obj& i(const char* k, long v) { key(k); o << v; return *this; }
  Obj& b(const char* k, bool v) { key(k); o << (v ? "true" : "false"); return *this; }
  Obj& raw(const char* k, const std::string& v) { key(k); o << v; return *this; }
  std::string str() const { return o.str() + "}"; }
};

inline std::string arr(const std::vector<long>& v) {
  std::ostringstream o; o << "[";
  for (size_t i = 0; i < v.size(); ++i) { if (i) o << ","; o << v[i]; }
  o << "]"; return o.str();
}
inline std::string arrs(const std::vector<std::string>& v) {
  std::ostringstream o; o << "[";
  for (size_t i = 0; i < v.size(); ++i) { if (i) o << ","; o << v[i]; }
  o << "]"; return o.str();
}

// One history = the lines between BEGIN and END.  run(lines, fd) executes in a forked child and
// writes ndjson events to fd; the parent copies complete lines to `out` and appends a Crash /
// Hang event when the child dies on a signal or exceeds the wall-clock limit.
inline void run_isolated(const std::vector<std::string>& lines, long hist, int limit_s, std::ostream& out,
                         const std::function<void(const std::vector<std::string>&, int)>& run) {
  int fd[2];
  if (pipe(fd)) return;
  pid_t pid = fork();
  if (pid == 0) {
    close(fd[0]);
    alarm(limit_s);
    run(lines, fd[1]);
    _exit(0);
  }
  close(fd[1]);
  std::string buf; char tmp[65536]; ssize_t k;
  while ((k = read(fd[0], tmp, sizeof tmp)) > 0) buf.append(tmp, k);
  close(fd[0]);
  int st = 0; waitpid(pid, &st, 0);
  size_t last = buf.rfind('\n');
  if (last != std::string::npos) out << buf.substr(0, last + 1);
  if (WIFSIGNALED(st))
    out << "{\"e\":\"" << (WTERMSIG(st) == SIGALRM ? "Hang" : "Crash") << "\",\"sig\":" << WTERMSIG(st) << ",\"h\":" << hist << "}\n";
  else if (WIFEXITED(st) && WEXITSTATUS(st) != 0)
    out << "{\"e\":\"Crash\",\"sig\":" << (1000 + WEXITSTATUS(st)) << ",\"h\":" << hist << "}\n";
}

inline void for_each_history(std::istream& in, int limit_s, std::ostream& out,
                             const std::function<void(const std::vector<std::string>&, int)>& run) {
  std::string line; std::vector<std::string> H; long nh = 0;
  while (std::getline(in, line)) {
    if (line.compare(0, 5, "BEGIN") == 0) { H.clear(); H.push_back(line); continue; }
    if (line == "END") { ++nh; run_isolated(H, nh, limit_s, out, run); H.clear(); continue; }
    H.push_back(line);
  }
  out.flush();
}

struct Writer {
  int fd; std::string buf;
  explicit Writer(int f) : fd(f) {}
  void line(const std::string& s) { buf = s; buf += "\n"; size_t off = 0; while (off < buf.size()) { ssize_t k = write(fd, buf.data() + off, buf.size() - off); if (k <= 0) break; off += k; } }
};

// terminate handler: an uncaught exception inside the library is reported as a crash-class event
inline void install_terminate() {
  std::set_terminate([]() { _exit(77); });
}

} // namespace vj
#endif
