// C16 replayer for specs/rows/CoTree.tla: CO_Tree as an ordered map.  After every action the
// stored key set, the data, forward and backward iteration, size()/empty() and OK() are compared
// with the specification's post-state; search results must satisfy the documented contract.
#include "ppl.hh"
#include <iostream>
#include <sstream>
#include <vector>
#include <string>
using namespace Parma_Polyhedra_Library;

static const char* same(const CO_Tree& t, const std::vector<long>& P, const std::vector<long>& V) {
  std::vector<long> keys; for (size_t i = 0; i < P.size(); ++i) if (P[i]) keys.push_back(i);
  if (t.size() != keys.size()) return "size";
  if (t.empty() != keys.empty()) return "empty";
  size_t n = 0;
  for (CO_Tree::const_iterator it = t.begin(); it != t.end(); ++it, ++n) {
    if (n >= keys.size()) return "iteration-too-long";
    if ((long) it.index() != keys[n]) return "iteration-key";
    if (*it != V[keys[n]]) return "iteration-data";
  }
  if (n != keys.size()) return "iteration-too-short";
  if (!keys.empty()) {  // backward from the last element
    CO_Tree::const_iterator it = t.bisect(keys.back());
    for (size_t k = keys.size(); k-- > 0; ) { if ((long) it.index() != keys[k] || *it != V[keys[k]]) return "backward-iteration"; if (k > 0) --it; }
  }
  return 0;   // CO_Tree::OK() is private; Sparse_Row::OK() (rows.cc) checks the tree invariant
}
static long pred(const std::vector<long>& P, long key, long lo) { for (long i = key - 1; i >= lo; --i) if (P[i]) return i; return -1; }
static long succ(const std::vector<long>& P, long key, long hi) { for (long i = key + 1; i <= hi; ++i) if (P[i]) return i; return -1; }
static CO_Tree::iterator hint_of(CO_Tree& t, long h, long K) { return (h >= K || t.empty()) ? t.end() : t.bisect(h); }

static const char* apply(CO_Tree& t, const std::string& op, long a, long b, long c, long d, long obs,
                         const std::vector<long>& P, const std::vector<long>& V, long step) {
  long K = P.size();
  if (op == "insert") { CO_Tree::iterator it = t.insert(a); if ((long) it.index() != a || *it != obs) return "insert-result"; }
  else if (op == "insert_data") { CO_Tree::iterator it = t.insert(a, Coefficient(b)); if ((long) it.index() != a || *it != b) return "insert-result"; }
  else if (op == "insert_hint") { CO_Tree::iterator it = t.insert(hint_of(t, b, K), a); if ((long) it.index() != a || *it != obs) return "insert-result"; }
  else if (op == "insert_hint_data") { CO_Tree::iterator it = t.insert(hint_of(t, c, K), a, Coefficient(b)); if ((long) it.index() != a || *it != b) return "insert-result"; }
  else if (op == "erase" || op == "erase_iter") {
    CO_Tree::iterator it;
    if (op == "erase") it = t.erase(a); else { CO_Tree::iterator q = t.bisect(a); if ((long) q.index() != a) return "bisect-missed-present-key"; it = t.erase(q); }
    if (it == t.end()) { if (obs != K) return "erase-returned-end"; } else if ((long) it.index() != obs) return "erase-returned-wrong-next"; }
  else if (op == "erase_shift_left") t.erase_element_and_shift_left(a);
  else if (op == "increase_keys_from") t.increase_keys_from(a, b);
  else if (op == "bisect" || op == "bisect_near" || op == "bisect_in") {
    const CO_Tree& ct = t; CO_Tree::const_iterator it; long lo = 0, hi = K - 1;
    if (op == "bisect") it = (step % 2) ? ct.bisect(a) : CO_Tree::const_iterator(t.bisect(a));
    else if (op == "bisect_near") { CO_Tree::const_iterator h = (b >= K || ct.empty()) ? ct.end() : ct.bisect(b); it = ct.bisect_near(h, a); }
    else { lo = b; hi = c; it = ct.bisect_in(ct.bisect(b), ct.bisect(c), a); }
    bool any = false; for (long i = 0; i < K; ++i) any = any || P[i];
    if (!any) { if (it != ct.end()) return "bisect-on-empty-tree"; }
    else {
      if (it == ct.end()) return "bisect-returned-end";
      long g = it.index();
      if (g < lo || g > hi || !P[g]) return "bisect-outside";
      if (a >= lo && a <= hi && P[a]) { if (g != a) return "bisect-missed-present-key"; }
      else { long pr = pred(P, a < lo ? lo : (a > hi + 1 ? hi + 1 : a), lo), su = succ(P, a > hi ? hi : (a < lo - 1 ? lo - 1 : a), hi);
        if (g != pr && g != su) return "bisect-not-a-neighbour"; }
      if (*it != V[g]) return "bisect-data";
    } }
  else if (op == "copy") { CO_Tree u(t); CO_Tree w; w = u; t.m_swap(w); }
  else if (op == "swap") { CO_Tree u; u.m_swap(t); swap(u, t); }
  else if (op == "clear") t.clear();
  else if (op == "fast_shift") { CO_Tree::iterator it = t.bisect(b); t.fast_shift(a, it); }
  else if (op == "size") { if ((long) t.size() != obs) return "size()"; }
  else if (op == "fill") { CO_Tree::iterator h = t.end(); for (long i = c; i < K; i += a) { if (step % 2) h = t.insert(h, i, Coefficient(b)); else t.insert(i, Coefficient(b)); } }
  else if (op == "thin") { for (long i = 0; i < K; ++i) if (i % a != 0) t.erase(i); }
  else if (op == "set_via_iter") { CO_Tree::iterator it = t.bisect(a); if ((long) it.index() != a) return "bisect-missed-present-key"; *it = Coefficient(b); }
  else return "unknown-op";
  return 0;
}

int main() {
  std::string line; CO_Tree* T = 0; long nb = 0, bad = 0, steps = 0; int step = 0; bool dead = false;
  std::vector<long> P, V;
  while (std::getline(std::cin, line)) {
    if (line.compare(0, 5, "BEGIN") == 0) { delete T; T = new CO_Tree(); ++nb; step = 0; dead = false; P.clear(); V.clear(); continue; }
    if (line == "END" || dead) continue;
    std::istringstream is(line); std::string op; long k, a, b, c, d, obs; is >> op >> k >> a >> b >> c >> d >> obs;
    size_t n1; is >> n1; std::vector<long> e1(n1); for (auto& x : e1) is >> x; size_t n2; is >> n2; std::vector<long> e2(n2); for (auto& x : e2) is >> x;
    if (P.empty()) { P.assign(n1, 0); V.assign(n1, 0); }
    ++step; ++steps;
    const char* why = apply(*T, op, a, b, c, d, obs, P, V, step);   // P, V = state before the action
    if (!why) why = same(*T, e1, e2);
    P = e1; V = e2;
    if (why) { ++bad; dead = true; std::cout << "MISMATCH " << nb << " " << step << " " << op << " cotree " << why << "\n"; }
  }
  std::cout << "SUMMARY " << nb << " " << steps << " " << bad << "\n";
  return 0;
}
