// C20 harness: the SAME histories as harness/poly.cc, executed through the C language interface (ppl_c.h) on ppl_Polyhedron_t handles.
// Every call goes through a C entry point; a negative return value is mapped to the name of the C++ exception class it stands for
// and the registered error handler is observed (number of invocations, code).  The projected state is read through the C++ object
// behind the handle (test instrumentation only).  Judged by specs/poly/CifTrace.tla = PolyTrace + the error-reporting protocol.
// (original header of poly.cc follows)
// Conformance harness for C/NNC polyhedra
// A dumb logger (DESIGN.md R3): executes TLC-generated histories over a pool of 3 slots, one forked
// child per history, and after every call writes one ndjson event with the call, its answer, the
// exception (if any) and the projected abstract state of every slot (minimized constraints and
// generators taken from COPIES, status line of ascii_dump, OK()).  All judgement is in TLA+.
// Input (stdin), per history:  BEGIN / OP lines / END      (see vlib/polylib.py for the line format)
#include "ppl.hh"
#include "ppl_c.h"
#include "vjson.hh"
#include <gmp.h>
using namespace Parma_Polyhedra_Library;
typedef std::vector<long> LV;

static bool big = false;
static long LIM = 1000000;
static long L(const Coefficient& c) {  // portable across coefficient configurations (GMP or checked native integers)
  long v = 0; Result r = assign_r(v, c, ROUND_DOWN);
  if (r != V_EQ || v > LIM || v < -LIM) { big = true; return 0; }
  return v;
}

static std::string row(const char* k, const LV& v) { return std::string("{\"k\":\"") + k + "\",\"v\":" + vj::arr(v) + "}"; }
static std::string jsH(const Constraint_System& cs, unsigned n) {
  std::vector<std::string> r;
  for (Constraint_System::const_iterator i = cs.begin(); i != cs.end(); ++i) {
    LV v(n + 1); v[0] = L(i->inhomogeneous_term());
    for (unsigned k = 0; k < n; ++k) v[k + 1] = (k < i->space_dimension()) ? L(i->coefficient(Variable(k))) : 0;
    r.push_back(row(i->is_equality() ? "eq" : i->is_strict_inequality() ? "gt" : "ge", v));
  }
  return vj::arrs(r);
}
static std::string jsG1(const Generator& g, unsigned n) {
  LV v(n + 1); v[0] = (g.is_point() || g.is_closure_point()) ? L(g.divisor()) : 0;
  for (unsigned k = 0; k < n; ++k) v[k + 1] = (k < g.space_dimension()) ? L(g.coefficient(Variable(k))) : 0;
  return row(g.is_line() ? "line" : g.is_ray() ? "ray" : g.is_point() ? "point" : "cpoint", v);
}
static std::string jsV(const Generator_System& gs, unsigned n) {
  std::vector<std::string> r;
  for (Generator_System::const_iterator i = gs.begin(); i != gs.end(); ++i) r.push_back(jsG1(*i, n));
  return vj::arrs(r);
}
static std::string jsCG(const Congruence_System& cgs, unsigned n) {
  std::vector<std::string> r;
  for (Congruence_System::const_iterator i = cgs.begin(); i != cgs.end(); ++i) {
    LV v(n + 1); v[0] = L(i->inhomogeneous_term());
    for (unsigned k = 0; k < n; ++k) v[k + 1] = (k < i->space_dimension()) ? L(i->coefficient(Variable(k))) : 0;
    r.push_back(std::string("{\"mod\":") + std::to_string(L(i->modulus())) + ",\"v\":" + vj::arr(v) + "}");
  }
  return vj::arrs(r);
}


struct Slot { ppl_Polyhedron_t p; bool nnc; Slot() : p(0), nnc(false) {} };
static const Polyhedron* cxx(ppl_const_Polyhedron_t h) { return reinterpret_cast<const Polyhedron*>(h); }
static Polyhedron* clone(const Slot& s) {
  return s.nnc ? (Polyhedron*) new NNC_Polyhedron(*static_cast<const NNC_Polyhedron*>(cxx(s.p))) : (Polyhedron*) new C_Polyhedron(*static_cast<const C_Polyhedron*>(cxx(s.p)));
}
static std::string status_line(const Polyhedron& p) {
  std::ostringstream st; p.ascii_dump(st); std::string d = st.str();
  size_t p1 = d.find('\n'); size_t p2 = d.find('\n', p1 + 1);
  return (p1 == std::string::npos || p2 == std::string::npos) ? "" : d.substr(p1 + 1, p2 - p1 - 1);
}
static const char* DEADP = "{\"alive\":false,\"n\":0,\"topo\":\"C\",\"H\":[],\"V\":[],\"st\":\"\",\"ok\":true}";
static std::string desc1(const Slot& s) {
  if (!s.p) return DEADP;
  unsigned n = cxx(s.p)->space_dimension();
  Polyhedron* a = clone(s); Polyhedron* b = clone(s);
  std::string H = jsH(a->minimized_constraints(), n), V = jsV(b->minimized_generators(), n);
  delete a; delete b;
  vj::Obj o; o.b("alive", true).i("n", n).s("topo", s.nnc ? "NNC" : "C").raw("H", H).raw("V", V).s("st", status_line(*cxx(s.p))).b("ok", cxx(s.p)->OK());
  return o.str();
}
static std::string desc(const Slot& s) {
  try { return desc1(s); }
  catch (std::exception&) { big = true; return DEADP; }
}
struct Op {
  std::string op, topo, k; int dst, src, n, var, den, mod; LV v, w, vs;
  std::vector<std::pair<std::string, LV> > cs, gs;
};
static LV rdv(std::istringstream& is) { size_t n; is >> n; LV v(n); for (size_t i = 0; i < n; ++i) is >> v[i]; return v; }
static Op parse(const std::string& line) {
  std::istringstream is(line); Op o; std::string tag;
  is >> tag >> o.op >> o.dst >> o.src >> o.n >> o.topo >> o.k >> o.var >> o.den >> o.mod;
  is >> tag; o.v = rdv(is); is >> tag; o.w = rdv(is); is >> tag; o.vs = rdv(is);
  size_t c; is >> tag >> c; for (size_t i = 0; i < c; ++i) { std::string k; is >> k; LV v = rdv(is); o.cs.push_back(std::make_pair(k, v)); }
  is >> tag >> c; for (size_t i = 0; i < c; ++i) { std::string k; is >> k; LV v = rdv(is); o.gs.push_back(std::make_pair(k, v)); }
  return o;
}
// expression over exactly n dimensions (v[0] inhomogeneous unless inh == false)
static Linear_Expression le(const LV& v, unsigned n, bool inh = true) {
  Linear_Expression e;
  unsigned m = v.size() > 0 ? v.size() - 1 : 0;
  for (unsigned k = 0; k < m; ++k) e += v[k + 1] * Variable(k);
  if (n > m) e += 0 * Variable(n - 1);
  if (inh && !v.empty()) e += v[0];
  return e;
}
static Constraint mkc(const std::string& k, const LV& v, unsigned n) { Linear_Expression e = le(v, n); return k == "eq" ? Constraint(e == 0) : k == "gt" ? Constraint(e > 0) : Constraint(e >= 0); }
static Generator mkg(const std::string& k, const LV& v, unsigned n) {
  Linear_Expression e = le(v, n, false); long d = v.empty() ? 1 : v[0];
  return k == "point" ? point(e, d) : k == "cpoint" ? closure_point(e, d) : k == "ray" ? ray(e) : line(e);
}
static Congruence mkcg(const LV& v, long mod, unsigned n) { Linear_Expression e = le(v, n); return (e %= 0) / mod; }
static Relation_Symbol rs(const std::string& k) { return k == "le" ? LESS_OR_EQUAL : k == "eq" ? EQUAL : k == "ge" ? GREATER_OR_EQUAL : k == "lt" ? LESS_THAN : GREATER_THAN; }
static std::string relcon(const Poly_Con_Relation& r) {
  vj::Obj o; o.b("sat", r.implies(Poly_Con_Relation::saturates())).b("inc", r.implies(Poly_Con_Relation::is_included()))
    .b("dis", r.implies(Poly_Con_Relation::is_disjoint())).b("si", r.implies(Poly_Con_Relation::strictly_intersects()));
  return o.str();
}
static Constraint_System mkcs(const Op& o, unsigned n) { Constraint_System cs; for (size_t i = 0; i < o.cs.size(); ++i) cs.insert(mkc(o.cs[i].first, o.cs[i].second, n)); return cs; }
static Generator_System mkgs(const Op& o, unsigned n) { Generator_System gs; for (size_t i = 0; i < o.gs.size(); ++i) gs.insert(mkg(o.gs[i].first, o.gs[i].second, n)); return gs; }


// ---- error reporting protocol of the C interface
static int hcalls = 0, hcode = 0;
extern "C" void on_error(enum ppl_enum_error_code code, const char*) { ++hcalls; hcode = (int) code; }
struct CErr { int code; explicit CErr(int c) : code(c) {} };
static int CK(int rc) { if (rc < 0) throw CErr(rc); return rc; }
static const char* err_name(int c) {
  switch (c) { case PPL_ERROR_OUT_OF_MEMORY: return "bad_alloc"; case PPL_ERROR_INVALID_ARGUMENT: return "invalid_argument"; case PPL_ERROR_DOMAIN_ERROR: return "domain_error";
    case PPL_ERROR_LENGTH_ERROR: return "length_error"; case PPL_ARITHMETIC_OVERFLOW: return "overflow_error"; case PPL_ERROR_LOGIC_ERROR: return "logic_error";
    case PPL_ERROR_INTERNAL_ERROR: return "internal_error"; case PPL_ERROR_UNKNOWN_STANDARD_EXCEPTION: return "exception"; case PPL_ERROR_UNEXPECTED_ERROR: return "unknown"; case PPL_TIMEOUT_EXCEPTION: return "timeout"; default: return "error-code"; }
}
// ---- temporaries built through the C interface and released exactly once
struct CCoef { ppl_Coefficient_t c; explicit CCoef(long v) : c(0) { mpz_t z; mpz_init_set_si(z, v); int rc = ppl_new_Coefficient_from_mpz_t(&c, z); mpz_clear(z); CK(rc); } ~CCoef() { if (c) ppl_delete_Coefficient(c); }
  long get() const { mpz_t z; mpz_init(z); ppl_Coefficient_to_mpz_t(c, z); long r = mpz_fits_slong_p(z) ? mpz_get_si(z) : 0; if (!mpz_fits_slong_p(z) || r > LIM || r < -LIM) big = true; mpz_clear(z); return r; } };
// a linear expression is built either (style 0) with its final dimension and the non-zero coefficients only, or (style 1) as a client filling a
// dense row does: from the 0-dimensional expression, adding EVERY coefficient (zeros included: they extend the dimension) in index order
static unsigned le_style = 0;
struct CLE { ppl_Linear_Expression_t e; CLE(const LV& v, unsigned n, bool inh = true) : e(0) {
    unsigned m = v.size() > 0 ? v.size() - 1 : 0; unsigned style = (le_style++) % 2;
    if (style == 0) CK(ppl_new_Linear_Expression_with_dimension(&e, n > m ? n : m)); else CK(ppl_new_Linear_Expression(&e));
    try { for (unsigned k = 0; k < m; ++k) if (style == 1 || v[k + 1] != 0) { CCoef c(v[k + 1]); CK(ppl_Linear_Expression_add_to_coefficient(e, k, c.c)); }
          if (style == 1 && n > m) { CCoef z(0); CK(ppl_Linear_Expression_add_to_coefficient(e, n - 1, z.c)); }
          if (inh && !v.empty() && (style == 1 || v[0] != 0)) { CCoef c(v[0]); CK(ppl_Linear_Expression_add_to_inhomogeneous(e, c.c)); } } catch (...) { ppl_delete_Linear_Expression(e); throw; } }
  ~CLE() { if (e) ppl_delete_Linear_Expression(e); } };
struct CCon { ppl_Constraint_t c; CCon(const std::string& k, const LV& v, unsigned n) : c(0) { CLE e(v, n); CK(ppl_new_Constraint(&c, e.e, k == "eq" ? PPL_CONSTRAINT_TYPE_EQUAL : k == "gt" ? PPL_CONSTRAINT_TYPE_GREATER_THAN : PPL_CONSTRAINT_TYPE_GREATER_OR_EQUAL)); } ~CCon() { if (c) ppl_delete_Constraint(c); } };
struct CGen { ppl_Generator_t g; CGen(const std::string& k, const LV& v, unsigned n) : g(0) { CLE e(v, n, false); CCoef d(v.empty() ? 1 : v[0]);
    CK(ppl_new_Generator(&g, e.e, k == "point" ? PPL_GENERATOR_TYPE_POINT : k == "cpoint" ? PPL_GENERATOR_TYPE_CLOSURE_POINT : k == "ray" ? PPL_GENERATOR_TYPE_RAY : PPL_GENERATOR_TYPE_LINE, d.c)); } ~CGen() { if (g) ppl_delete_Generator(g); } };
struct CCg { ppl_Congruence_t c; CCg(const LV& v, long mod, unsigned n) : c(0) { CLE e(v, n); CCoef m(mod); CK(ppl_new_Congruence(&c, e.e, m.c)); } ~CCg() { if (c) ppl_delete_Congruence(c); } };
struct CCS { ppl_Constraint_System_t s; CCS(const Op& o, unsigned n) : s(0) { CK(ppl_new_Constraint_System(&s)); try { for (size_t i = 0; i < o.cs.size(); ++i) { CCon c(o.cs[i].first, o.cs[i].second, n); CK(ppl_Constraint_System_insert_Constraint(s, c.c)); } } catch (...) { ppl_delete_Constraint_System(s); throw; } } ~CCS() { if (s) ppl_delete_Constraint_System(s); } };
struct CGS { ppl_Generator_System_t s; CGS(const Op& o, unsigned n) : s(0) { CK(ppl_new_Generator_System(&s)); try { for (size_t i = 0; i < o.gs.size(); ++i) { CGen g(o.gs[i].first, o.gs[i].second, n); CK(ppl_Generator_System_insert_Generator(s, g.g)); } } catch (...) { ppl_delete_Generator_System(s); throw; } } ~CGS() { if (s) ppl_delete_Generator_System(s); } };
struct CCGS { ppl_Congruence_System_t s; CCGS(const Op& o, unsigned n) : s(0) { CK(ppl_new_Congruence_System(&s)); try { for (size_t i = 0; i < o.cs.size(); ++i) { CCg c(o.cs[i].second, o.cs[i].first == "eq" ? 0 : o.mod, n); CK(ppl_Congruence_System_insert_Congruence(s, c.c)); } } catch (...) { ppl_delete_Congruence_System(s); throw; } } ~CCGS() { if (s) ppl_delete_Congruence_System(s); } };
static enum ppl_enum_Constraint_Type crs(const std::string& k) { return k == "le" ? PPL_CONSTRAINT_TYPE_LESS_OR_EQUAL : k == "eq" ? PPL_CONSTRAINT_TYPE_EQUAL : k == "ge" ? PPL_CONSTRAINT_TYPE_GREATER_OR_EQUAL : k == "lt" ? PPL_CONSTRAINT_TYPE_LESS_THAN : PPL_CONSTRAINT_TYPE_GREATER_THAN; }
static std::string relcon_bits(int r) { vj::Obj o; o.b("sat", (r & PPL_POLY_CON_RELATION_SATURATES) != 0).b("inc", (r & PPL_POLY_CON_RELATION_IS_INCLUDED) != 0).b("dis", (r & PPL_POLY_CON_RELATION_IS_DISJOINT) != 0).b("si", (r & PPL_POLY_CON_RELATION_STRICTLY_INTERSECTS) != 0); return o.str(); }
static void replace(Slot& d, ppl_Polyhedron_t q, bool nnc) { if (d.p) CK(ppl_delete_Polyhedron(d.p)); d.p = q; d.nnc = nnc; }

struct Out { std::string exc, obs, rr, rc; bool rb; long ri; };
static void exec_op(const Op& o, Slot* S, Slot& d, Slot& s, Out& out) {
  std::string& exc = out.exc; std::string& obs = out.obs; std::string& rr = out.rr; std::string& rc = out.rc; bool& rb = out.rb; long& ri = out.ri;
  unsigned n = d.p ? cxx(d.p)->space_dimension() : 0; const std::string& op = o.op; bool nn = (o.topo == "NNC");
      if (op == "new") { ppl_Polyhedron_t q; CK(nn ? ppl_new_NNC_Polyhedron_from_space_dimension(&q, o.n, o.k == "empty") : ppl_new_C_Polyhedron_from_space_dimension(&q, o.n, o.k == "empty")); replace(d, q, nn); }
      else if (op == "from_cs") { CCS cs(o, o.n); ppl_Polyhedron_t q; CK(nn ? ppl_new_NNC_Polyhedron_from_Constraint_System(&q, cs.s) : ppl_new_C_Polyhedron_from_Constraint_System(&q, cs.s)); replace(d, q, nn); }
      else if (op == "from_gs") { CGS gs(o, o.n); ppl_Polyhedron_t q; CK(nn ? ppl_new_NNC_Polyhedron_from_Generator_System(&q, gs.s) : ppl_new_C_Polyhedron_from_Generator_System(&q, gs.s)); replace(d, q, nn); }
      else if (op == "from_cgs") { CCGS cgs(o, o.n); ppl_Polyhedron_t q; CK(nn ? ppl_new_NNC_Polyhedron_from_Congruence_System(&q, cgs.s) : ppl_new_C_Polyhedron_from_Congruence_System(&q, cgs.s));
        // (a C congruence system has no dimension of its own: an empty one builds a 0-dimensional object, the C++ harness passes Congruence_System(n))
        { size_t qd; ppl_Polyhedron_space_dimension(q, &qd); if (qd < (size_t) o.n) CK(ppl_Polyhedron_add_space_dimensions_and_embed(q, o.n - qd)); }
        replace(d, q, nn); }
      else if (op == "destroy") { if (d.p) CK(ppl_delete_Polyhedron(d.p)); d.p = 0; }
      else if ((op == "copy_from" || op == "conv_topo" || op == "rebuild") ? !s.p : (op == "dumpload") ? !d.p : (!d.p || (o.src > 0 && !s.p))) { exc = "dead"; }
      else if (op == "copy_from") { if (&d != &s) { ppl_Polyhedron_t q; CK(s.nnc ? ppl_new_NNC_Polyhedron_from_NNC_Polyhedron(&q, s.p) : ppl_new_C_Polyhedron_from_C_Polyhedron(&q, s.p)); replace(d, q, s.nnc); }
        else CK(d.nnc ? ppl_assign_NNC_Polyhedron_from_NNC_Polyhedron(d.p, d.p) : ppl_assign_C_Polyhedron_from_C_Polyhedron(d.p, d.p)); }
      else if (op == "assign") { if (d.nnc == s.nnc) CK(d.nnc ? ppl_assign_NNC_Polyhedron_from_NNC_Polyhedron(d.p, s.p) : ppl_assign_C_Polyhedron_from_C_Polyhedron(d.p, s.p)); else exc = "skipped"; }
      else if (op == "conv_topo") { ppl_Polyhedron_t q; CK(s.nnc ? ppl_new_C_Polyhedron_from_NNC_Polyhedron(&q, s.p) : ppl_new_NNC_Polyhedron_from_C_Polyhedron(&q, s.p)); replace(d, q, !s.nnc); }
      else if (op == "rebuild") { ppl_const_Constraint_System_t cs; CK(ppl_Polyhedron_get_minimized_constraints(s.p, &cs)); ppl_Polyhedron_t q; bool sn = s.nnc;
        CK(sn ? ppl_new_NNC_Polyhedron_from_Constraint_System(&q, cs) : ppl_new_C_Polyhedron_from_Constraint_System(&q, cs));
        // (the system of a polyhedron whose constraints all vanished has a smaller dimension)
        { size_t qd, sd; ppl_Polyhedron_space_dimension(q, &qd); ppl_Polyhedron_space_dimension(s.p, &sd); if (qd < sd) CK(ppl_Polyhedron_add_space_dimensions_and_embed(q, sd - qd)); }
        replace(d, q, sn); }
      // ---------------- observers
      else if (op == "constraints") { ppl_const_Constraint_System_t cs; CK(ppl_Polyhedron_get_constraints(d.p, &cs)); obs = jsH(*reinterpret_cast<const Constraint_System*>(cs), n); }
      else if (op == "min_constraints") { ppl_const_Constraint_System_t cs; CK(ppl_Polyhedron_get_minimized_constraints(d.p, &cs)); obs = jsH(*reinterpret_cast<const Constraint_System*>(cs), n); }
      else if (op == "generators") { ppl_const_Generator_System_t gs; CK(ppl_Polyhedron_get_generators(d.p, &gs)); obs = jsV(*reinterpret_cast<const Generator_System*>(gs), n); }
      else if (op == "min_generators") { ppl_const_Generator_System_t gs; CK(ppl_Polyhedron_get_minimized_generators(d.p, &gs)); obs = jsV(*reinterpret_cast<const Generator_System*>(gs), n); }
      else if (op == "congruences") { ppl_const_Congruence_System_t cs; CK(ppl_Polyhedron_get_congruences(d.p, &cs)); obs = jsCG(*reinterpret_cast<const Congruence_System*>(cs), n); }
      else if (op == "min_congruences") { ppl_const_Congruence_System_t cs; CK(ppl_Polyhedron_get_minimized_congruences(d.p, &cs)); obs = jsCG(*reinterpret_cast<const Congruence_System*>(cs), n); }
      else if (op == "space_dimension") { size_t m; CK(ppl_Polyhedron_space_dimension(d.p, &m)); ri = m; }
      else if (op == "affine_dimension") { size_t m; CK(ppl_Polyhedron_affine_dimension(d.p, &m)); ri = m; }
      else if (op == "is_empty") rb = CK(ppl_Polyhedron_is_empty(d.p)) > 0;
      else if (op == "is_universe") rb = CK(ppl_Polyhedron_is_universe(d.p)) > 0;
      else if (op == "is_bounded") rb = CK(ppl_Polyhedron_is_bounded(d.p)) > 0;
      else if (op == "is_discrete") rb = CK(ppl_Polyhedron_is_discrete(d.p)) > 0;
      else if (op == "is_topologically_closed") rb = CK(ppl_Polyhedron_is_topologically_closed(d.p)) > 0;
      else if (op == "contains_integer_point") rb = CK(ppl_Polyhedron_contains_integer_point(d.p)) > 0;
      else if (op == "constrains") rb = CK(ppl_Polyhedron_constrains(d.p, o.var)) > 0;
      else if (op == "OK") rb = CK(ppl_Polyhedron_OK(d.p)) > 0;
      else if (op == "contains") rb = CK(ppl_Polyhedron_contains_Polyhedron(d.p, s.p)) > 0;
      else if (op == "strictly_contains") rb = CK(ppl_Polyhedron_strictly_contains_Polyhedron(d.p, s.p)) > 0;
      else if (op == "is_disjoint_from") rb = CK(ppl_Polyhedron_is_disjoint_from_Polyhedron(d.p, s.p)) > 0;
      else if (op == "equals") rb = CK(ppl_Polyhedron_equals_Polyhedron(d.p, s.p)) > 0;
      else if (op == "not_equals") rb = !(CK(ppl_Polyhedron_equals_Polyhedron(d.p, s.p)) > 0);
      else if (op == "relation_with_constraint") { CCon c(o.k, o.v, n); rc = relcon_bits(CK(ppl_Polyhedron_relation_with_Constraint(d.p, c.c))); }
      else if (op == "relation_with_congruence") { CCg c(o.v, o.mod, n); rc = relcon_bits(CK(ppl_Polyhedron_relation_with_Congruence(d.p, c.c))); }
      else if (op == "relation_with_generator") { CGen g(o.k, o.v, n); rb = (CK(ppl_Polyhedron_relation_with_Generator(d.p, g.g)) & PPL_POLY_GEN_RELATION_SUBSUMES) != 0; }
      else if (op == "bounds_from_above") { CLE e(o.v, n); rb = CK(ppl_Polyhedron_bounds_from_above(d.p, e.e)) > 0; }
      else if (op == "bounds_from_below") { CLE e(o.v, n); rb = CK(ppl_Polyhedron_bounds_from_below(d.p, e.e)) > 0; }
      else if (op == "maximize" || op == "minimize" || op == "maximize_pt" || op == "minimize_pt") {
        CLE e(o.v, n); CCoef num(0), den(1); int ext = 0; bool withpt = (op == "maximize_pt" || op == "minimize_pt"); int ok; ppl_Generator_t g = 0;
        if (withpt) CK(ppl_new_Generator_zero_dim_point(&g));
        try {
          if (op == "maximize") ok = CK(ppl_Polyhedron_maximize(d.p, e.e, num.c, den.c, &ext)); else if (op == "minimize") ok = CK(ppl_Polyhedron_minimize(d.p, e.e, num.c, den.c, &ext));
          else if (op == "maximize_pt") ok = CK(ppl_Polyhedron_maximize_with_point(d.p, e.e, num.c, den.c, &ext, g)); else ok = CK(ppl_Polyhedron_minimize_with_point(d.p, e.e, num.c, den.c, &ext, g));
          vj::Obj r; r.b("ok", ok > 0).i("num", ok > 0 ? num.get() : 0).i("den", ok > 0 ? den.get() : 1).b("ext", ok > 0 ? ext != 0 : false);
          r.raw("pt", (ok > 0 && withpt) ? std::string("[") + jsG1(*reinterpret_cast<const Generator*>(g), n) + "]" : std::string("[]")); rr = r.str();
        } catch (...) { if (g) ppl_delete_Generator(g); throw; }
        if (g) ppl_delete_Generator(g); }
      else if (op == "frequency") { CLE e(o.v, n); CCoef fn(0), fd(1), vn(0), vd(1); int ok = CK(ppl_Polyhedron_frequency(d.p, e.e, fn.c, fd.c, vn.c, vd.c));
        vj::Obj r; r.b("ok", ok > 0).i("num", ok > 0 ? vn.get() : 0).i("den", ok > 0 ? vd.get() : 1).b("ext", ok > 0 ? (fn.get() == 0) : false).raw("pt", "[]"); rr = r.str(); }
      // ---------------- mutators
      else if (op == "add_constraint") { CCon c(o.k, o.v, o.n); CK(ppl_Polyhedron_add_constraint(d.p, c.c)); }
      else if (op == "refine_with_constraint") { CCon c(o.k, o.v, o.n); CK(ppl_Polyhedron_refine_with_constraint(d.p, c.c)); }
      else if (op == "add_constraints") { CCS cs(o, o.n); if (o.var % 2) CK(ppl_Polyhedron_add_recycled_constraints(d.p, cs.s)); else CK(ppl_Polyhedron_add_constraints(d.p, cs.s)); }
      else if (op == "refine_with_constraints") { CCS cs(o, o.n); CK(ppl_Polyhedron_refine_with_constraints(d.p, cs.s)); }
      else if (op == "add_generator") { CGen g(o.k, o.v, o.n); CK(ppl_Polyhedron_add_generator(d.p, g.g)); }
      else if (op == "add_generators") { CGS gs(o, o.n); if (o.var % 2) CK(ppl_Polyhedron_add_recycled_generators(d.p, gs.s)); else CK(ppl_Polyhedron_add_generators(d.p, gs.s)); }
      else if (op == "add_congruence") { CCg c(o.v, o.mod, o.n); CK(ppl_Polyhedron_add_congruence(d.p, c.c)); }
      else if (op == "refine_with_congruence") { CCg c(o.v, o.mod, o.n); CK(ppl_Polyhedron_refine_with_congruence(d.p, c.c)); }
      else if (op == "add_congruences") { CCGS cgs(o, o.n); if (o.var % 2) CK(ppl_Polyhedron_add_recycled_congruences(d.p, cgs.s)); else CK(ppl_Polyhedron_add_congruences(d.p, cgs.s)); }
      else if (op == "refine_with_congruences") { CCGS cgs(o, o.n); CK(ppl_Polyhedron_refine_with_congruences(d.p, cgs.s)); }
      else if (op == "unconstrain") CK(ppl_Polyhedron_unconstrain_space_dimension(d.p, o.var));
      else if (op == "unconstrain_set") { std::vector<ppl_dimension_type> ds(o.vs.begin(), o.vs.end()); CK(ppl_Polyhedron_unconstrain_space_dimensions(d.p, ds.empty() ? 0 : &ds[0], ds.size())); }
      else if (op == "intersection") CK(ppl_Polyhedron_intersection_assign(d.p, s.p));
      else if (op == "poly_hull") CK((o.var % 2) ? ppl_Polyhedron_poly_hull_assign(d.p, s.p) : ppl_Polyhedron_upper_bound_assign(d.p, s.p));
      else if (op == "poly_difference") CK((o.var % 2) ? ppl_Polyhedron_poly_difference_assign(d.p, s.p) : ppl_Polyhedron_difference_assign(d.p, s.p));
      else if (op == "time_elapse") CK(ppl_Polyhedron_time_elapse_assign(d.p, s.p));
      else if (op == "positive_time_elapse") CK(ppl_Polyhedron_positive_time_elapse_assign(d.p, s.p));
      else if (op == "topological_closure") CK(ppl_Polyhedron_topological_closure_assign(d.p));
      else if (op == "simplify_using_context") rb = CK(ppl_Polyhedron_simplify_using_context_assign(d.p, s.p)) > 0;
      else if (op == "hull_if_exact") rb = CK((o.var % 2) ? ppl_Polyhedron_poly_hull_assign_if_exact(d.p, s.p) : ppl_Polyhedron_upper_bound_assign_if_exact(d.p, s.p)) > 0;
      else if (op == "affine_image") { CLE e(o.v, n); CCoef dd(o.den); CK(ppl_Polyhedron_affine_image(d.p, o.var, e.e, dd.c)); }
      else if (op == "affine_preimage") { CLE e(o.v, n); CCoef dd(o.den); CK(ppl_Polyhedron_affine_preimage(d.p, o.var, e.e, dd.c)); }
      else if (op == "gen_affine_image") { CLE e(o.v, n); CCoef dd(o.den); CK(ppl_Polyhedron_generalized_affine_image(d.p, o.var, crs(o.k), e.e, dd.c)); }
      else if (op == "gen_affine_preimage") { CLE e(o.v, n); CCoef dd(o.den); CK(ppl_Polyhedron_generalized_affine_preimage(d.p, o.var, crs(o.k), e.e, dd.c)); }
      else if (op == "gen_affine_image_lhs") { CLE l(o.w, n), r(o.v, n); CK(ppl_Polyhedron_generalized_affine_image_lhs_rhs(d.p, l.e, crs(o.k), r.e)); }
      else if (op == "gen_affine_preimage_lhs") { CLE l(o.w, n), r(o.v, n); CK(ppl_Polyhedron_generalized_affine_preimage_lhs_rhs(d.p, l.e, crs(o.k), r.e)); }
      else if (op == "bounded_affine_image") { CLE l(o.v, n), u(o.w, n); CCoef dd(o.den); CK(ppl_Polyhedron_bounded_affine_image(d.p, o.var, l.e, u.e, dd.c)); }
      else if (op == "bounded_affine_preimage") { CLE l(o.v, n), u(o.w, n); CCoef dd(o.den); CK(ppl_Polyhedron_bounded_affine_preimage(d.p, o.var, l.e, u.e, dd.c)); }
      else if (op == "add_dims_embed") CK(ppl_Polyhedron_add_space_dimensions_and_embed(d.p, o.var));
      else if (op == "add_dims_project") CK(ppl_Polyhedron_add_space_dimensions_and_project(d.p, o.var));
      else if (op == "concatenate") CK(ppl_Polyhedron_concatenate_assign(d.p, s.p));
      else if (op == "remove_dims") { std::vector<ppl_dimension_type> ds(o.vs.begin(), o.vs.end()); CK(ppl_Polyhedron_remove_space_dimensions(d.p, ds.empty() ? 0 : &ds[0], ds.size())); }
      else if (op == "remove_higher") CK(ppl_Polyhedron_remove_higher_space_dimensions(d.p, o.var));
      else if (op == "map_dims") { std::vector<ppl_dimension_type> mp(o.vs.size()); ppl_dimension_type nd; ppl_not_a_dimension(&nd); for (size_t i = 0; i < o.vs.size(); ++i) mp[i] = o.vs[i] >= 0 ? (ppl_dimension_type) o.vs[i] : nd; CK(ppl_Polyhedron_map_space_dimensions(d.p, mp.empty() ? 0 : &mp[0], mp.size())); }
      else if (op == "expand") CK(ppl_Polyhedron_expand_space_dimension(d.p, o.var, o.den));
      else if (op == "fold") { std::vector<ppl_dimension_type> ds(o.vs.begin(), o.vs.end()); CK(ppl_Polyhedron_fold_space_dimensions(d.p, ds.empty() ? 0 : &ds[0], ds.size(), o.var)); }
      else if (op == "H79_widening" || op == "BHRZ03_widening" || op == "widening") { unsigned tk = o.den;
        { size_t a, b; ppl_Polyhedron_space_dimension(d.p, &a); ppl_Polyhedron_space_dimension(s.p, &b); if (a == b && d.nnc == s.nnc && &d != &s) CK(ppl_Polyhedron_poly_hull_assign(d.p, s.p)); }
        if (o.mod > 0) CK(op == "H79_widening" ? ppl_Polyhedron_H79_widening_assign_with_tokens(d.p, s.p, &tk) : op == "BHRZ03_widening" ? ppl_Polyhedron_BHRZ03_widening_assign_with_tokens(d.p, s.p, &tk) : ppl_Polyhedron_widening_assign_with_tokens(d.p, s.p, &tk));
        else CK(op == "H79_widening" ? ppl_Polyhedron_H79_widening_assign(d.p, s.p) : op == "BHRZ03_widening" ? ppl_Polyhedron_BHRZ03_widening_assign(d.p, s.p) : ppl_Polyhedron_widening_assign(d.p, s.p));
        ri = tk; }
      else exc = "unknown-op";
}
static void run_history(const std::vector<std::string>& lines, int fd) {
  vj::install_terminate();
  vj::Writer W(fd); Slot S[4];
  { std::istringstream is(lines[0]); std::string t; is >> t >> LIM; if (LIM <= 0) LIM = 1000000; }
  ppl_initialize(); ppl_set_error_handler(on_error);
  W.line("{\"e\":\"Reset\"}");
  for (size_t t = 1; t < lines.size(); ++t) {
    Op o = parse(lines[t]); Slot& d = S[o.dst]; Slot& s = S[o.src > 0 ? o.src : o.dst];
    std::string exc = ""; big = false; hcalls = 0; hcode = 0; int rcode = 0;
    Out out; out.exc = ""; out.obs = "[]"; out.rr = "{\"ok\":false,\"num\":0,\"den\":1,\"ext\":false,\"pt\":[]}"; out.rc = "{\"sat\":false,\"inc\":false,\"dis\":false,\"si\":false}"; out.rb = false; out.ri = 0;
    try { exec_op(o, S, d, s, out); exc = out.exc; }
    catch (CErr& e) { rcode = e.code; exc = err_name(e.code); }
    catch (std::exception&) { exc = "c++-exception-crossed-the-interface"; rcode = 1; } catch (...) { exc = "c++-exception-crossed-the-interface"; rcode = 1; }
    std::string p1 = desc(S[1]), p2 = desc(S[2]), p3 = desc(S[3]);
    std::vector<std::string> ccs, ggs;
    for (size_t i = 0; i < o.cs.size(); ++i) ccs.push_back(row(o.cs[i].first.c_str(), o.cs[i].second));
    for (size_t i = 0; i < o.gs.size(); ++i) ggs.push_back(row(o.gs[i].first.c_str(), o.gs[i].second));
    vj::Obj e; e.s("e", "Op").i("t", t).s("op", o.op).i("dst", o.dst).i("src", o.src).i("argn", ((o.op == "add_congruences" || o.op == "refine_with_congruences") && o.cs.empty()) ? 0 : o.n)   /* a C congruence system without rows has no space dimension */.s("topo", o.topo).s("k", o.k).i("var", o.var).i("den", o.den).i("mod", o.mod)
      .raw("v", vj::arr(o.v)).raw("w", vj::arr(o.w)).raw("vs", vj::arr(o.vs)).raw("cs", vj::arrs(ccs)).raw("gs", vj::arrs(ggs))
      .b("rb", out.rb).i("ri", out.ri).raw("rr", out.rr).raw("rc", out.rc).s("exc", exc).raw("obs", out.obs).i("rcode", rcode).i("hcalls", hcalls).i("hcode", hcode)
      .raw("post", std::string("[") + p1 + "," + p2 + "," + p3 + "]").raw("twin", DEADP).raw("plain", DEADP).raw("wtwin", DEADP).b("big", big);
    W.line(e.str());
    if (big) { W.line("{\"e\":\"Reset\"}"); for (int i = 1; i <= 3; ++i) { if (S[i].p) ppl_delete_Polyhedron(S[i].p); S[i].p = 0; } }
  }
}

int main(int argc, char** argv) {
  int limit = argc > 1 ? atoi(argv[1]) : 20;
  vj::for_each_history(std::cin, limit, std::cout, run_history);
  return 0;
}
