// C14(b) harness: fault enumeration.  The call histories are the same TLC-generated polyhedron histories as in harness/poly.cc (whose
// interpreter is reused).  For one history the harness
//   1. runs it undisturbed (after warm-up runs that fill the library's static caches) counting the allocation requests (operator new
//      and the GMP allocation functions) resp. the maybe_abandon() checkpoints issued inside the calls: N fault positions;
//   2. for every position k < N (or a stride sample when N is large) runs it again on fresh objects and makes the k-th allocation
//      throw std::bad_alloc (mode alloc) / the k-th checkpoint throw the client's Throwable (mode abandon); with the bounded-coefficient
//      library (mode overflow) the fault is the library's own std::overflow_error;
//   3. after the interrupted call: every object is checked (OK()), used (observers, copy), assigned to, used again and destroyed;
//      the number of live blocks is compared with the number before the run (leak), a leaking position is run a second time
//      (a genuine leak repeats, a static pool that grew does not);
//   4. runs the history undisturbed once more on fresh objects and compares every answer and every final value with the reference
//      (the library remains fully usable).
// One event per fault position; judged by specs/poly/FaultTrace.tla.
#define main poly_main_unused
#include "poly.cc"
#undef main
#include <new>

// every block carries a header: position in the list of live blocks + the number of the allocation request that created it
struct Hdr { Hdr* prev; Hdr* next; long seq; long pad; };
static Hdr live_list = { &live_list, &live_list, -1, 0 };
static long live = 0, total = 0, fail_at = -1, seqno = 0; static bool counting = false, fired = false;
static long bt_seq[64]; static int bt_n = 0; static long run_seq0 = 0;
#include <execinfo.h>
static inline void tick() { if (counting) { if (fail_at >= 0 && total == fail_at) { ++total; fired = true; throw std::bad_alloc(); } ++total; } }
static void* my_alloc(size_t n) {
  tick(); Hdr* h = (Hdr*) std::malloc(sizeof(Hdr) + (n ? n : 1)); if (!h) throw std::bad_alloc();
  h->seq = seqno++; h->next = live_list.next; h->prev = &live_list; live_list.next->prev = h; live_list.next = h; ++live;
  for (int i = 0; i < bt_n; ++i) if (bt_seq[i] == h->seq - run_seq0) { void* fr[40]; int k = backtrace(fr, 40); fprintf(stderr, "---- leaked block, allocation #%ld of the run, %zu bytes\n", h->seq - run_seq0, n); backtrace_symbols_fd(fr, k, 2); }
  return h + 1;
}
static void my_free(void* p) { if (!p) return; Hdr* h = ((Hdr*) p) - 1; h->prev->next = h->next; h->next->prev = h->prev; --live; std::free(h); }
void* operator new(size_t n) { return my_alloc(n); }
void* operator new[](size_t n) { return my_alloc(n); }
void operator delete(void* p) noexcept { my_free(p); }
void operator delete[](void* p) noexcept { my_free(p); }
void operator delete(void* p, size_t) noexcept { my_free(p); }
void operator delete[](void* p, size_t) noexcept { my_free(p); }
extern "C" void* g_malloc(size_t n) { return my_alloc(n); }
extern "C" void* g_realloc(void* q, size_t, size_t n) {
  if (!q) return my_alloc(n);
  tick(); Hdr* h = ((Hdr*) q) - 1; Hdr* pv = h->prev; Hdr* nx = h->next;
  Hdr* h2 = (Hdr*) std::realloc(h, sizeof(Hdr) + (n ? n : 1)); if (!h2) throw std::bad_alloc();
  pv->next = h2; nx->prev = h2; return h2 + 1;
}
extern "C" void g_free(void* p, size_t) { my_free(p); }
// before any static initializer of the library allocates a big number with the default functions
__attribute__((constructor(101))) static void early_gmp() { mp_set_memory_functions(g_malloc, g_realloc, g_free); }

static int MODE = 0;   // 0 alloc, 1 abandon, 2 overflow (natural)
static long ab_calls = 0, ab_at = -1;
struct Abandoned : public Throwable { void throw_me() const { if (counting) { if (ab_at >= 0 && ab_calls == ab_at) { ++ab_calls; fired = true; throw *this; } ++ab_calls; } } };
static Abandoned the_abandon;

struct Res { std::vector<std::string> answers; std::vector<std::string> excs; std::string fin; int stop_at; std::string thrown; std::string op; };
// runs the history on S; stops after the call in which the injected fault fired (or, mode overflow, after the first overflow_error)
static void run_once(const std::vector<Op>& ops, Slot* S, Res& r) {
  r.stop_at = -1; r.thrown = "none"; r.op = "";
  for (size_t t = 0; t < ops.size(); ++t) {
    const Op& o = ops[t]; Slot& d = S[o.dst]; Slot& s = S[o.src > 0 ? o.src : o.dst];
    Out out; out.rb = false; out.ri = 0; std::string exc = ""; big = false; const char* ex = 0;
    counting = true;
    // (no allocation inside the handlers: the fault may be pending)
    try { exec_op(o, S, d, s, out); }
    catch (std::bad_alloc&) { ex = "bad_alloc"; } catch (Abandoned&) { ex = "abandoned"; }
    catch (std::invalid_argument&) { ex = "invalid_argument"; } catch (std::length_error&) { ex = "length_error"; }
    catch (std::domain_error&) { ex = "domain_error"; } catch (std::overflow_error&) { ex = "overflow_error"; }
    catch (std::logic_error&) { ex = "logic_error"; } catch (std::runtime_error&) { ex = "runtime_error"; }
    catch (std::exception&) { ex = "exception"; } catch (...) { ex = "unknown"; }
    counting = false;
    if (ex) exc = ex; else exc = out.exc;
    if (fired || (MODE == 2 && exc == "overflow_error")) { r.stop_at = (int) t; r.thrown = (exc == "" || exc == "dead" || exc == "skipped") ? "none" : exc; r.op = o.op; return; }
    std::ostringstream a; a << exc << "|" << out.rb << "|" << out.ri << "|" << out.obs << "|" << out.rr << "|" << out.rc;
    r.answers.push_back(a.str()); r.excs.push_back(exc);
  }
  std::string f; for (int i = 1; i <= 3; ++i) f += desc(S[i]); r.fin = f;
}
static void wipe(Slot* S) { for (int i = 0; i <= 3; ++i) { delete S[i].p; S[i].p = 0; } }
// every object: assignment, use after assignment, invariant, copy, destruction.  The object is NOT inspected before the assignment: its value
// after an exception is unspecified, and on the unchanged tree OK() itself can crash on a polyhedron whose minimization was interrupted.
static bool g_okbefore = true;
static void recover(Slot* S, bool& usable, bool& okafter) {
  usable = true; okafter = true; g_okbefore = true;
  try {
    for (int i = 1; i <= 3; ++i) if (S[i].p) {
      Polyhedron* p = S[i].p; unsigned n = p->space_dimension();
      if (S[i].nnc) { NNC_Polyhedron u(n); *static_cast<NNC_Polyhedron*>(p) = u; } else { C_Polyhedron u(n); *static_cast<C_Polyhedron*>(p) = u; }
      if (!p->is_universe()) usable = false;
      if (n > 0) { p->add_constraint(Variable(0) >= 1); if (p->is_empty() || p->is_universe()) usable = false; p->add_constraint(Variable(0) <= 0); if (!p->is_empty()) usable = false; }
      if (!p->OK()) okafter = false;
      if (S[i].nnc) { NNC_Polyhedron c(*static_cast<NNC_Polyhedron*>(p)); (void) c.minimized_generators(); if (!c.OK()) okafter = false; }
      else { C_Polyhedron c(*static_cast<C_Polyhedron*>(p)); (void) c.minimized_generators(); if (!c.OK()) okafter = false; }
    }
  } catch (...) { usable = false; }
  wipe(S);
}
struct Pod { int stop_at; char thrown[40]; char op[48]; bool fired, usable, okafter, okbefore, same; };
static void cp(char* d, size_t n, const std::string& s) { size_t k = s.size() < n - 1 ? s.size() : n - 1; memcpy(d, s.data(), k); d[k] = 0; }
// one run with fault position k (k < 0: undisturbed), recovery included; every heap object of the run is gone on return
static Pod one(const std::vector<Op>& ops, Slot* S, long k, const Res* ref) {
  Pod q; Res r; fired = false; total = 0; ab_calls = 0; fail_at = -1; ab_at = -1;
  if (k >= 0) { if (MODE == 0) fail_at = k; else if (MODE == 1) ab_at = k; }
  run_once(ops, S, r);
  fail_at = -1; ab_at = -1; q.fired = fired; fired = false;
  recover(S, q.usable, q.okafter); q.okbefore = g_okbefore;
  q.stop_at = r.stop_at; cp(q.thrown, sizeof q.thrown, r.thrown); cp(q.op, sizeof q.op, r.op);
  if (ref && false) {}

  q.same = ref ? (r.stop_at == ref->stop_at && r.fin == ref->fin && r.answers == ref->answers) : true;
  return q;
}

static void run_history_f(const std::vector<std::string>& lines, int fd) {
  vj::install_terminate();
  if (MODE == 1) abandon_expensive_computations = &the_abandon;
  vj::Writer W(fd); Slot S[4]; W.buf.reserve(1 << 16); g_lean = true;
  { std::istringstream is(lines[0]); std::string t; is >> t >> LIM; if (LIM <= 0) LIM = 1000000; }
  std::vector<Op> ops; for (size_t t = 1; t < lines.size(); ++t) ops.push_back(parse(lines[t]));
  W.line("{\"e\":\"Reset\"}");
  for (int w = 0; w < 3; ++w) (void) one(ops, S, -1, 0);
  Res ref; long N;
  { total = 0; ab_calls = 0; fail_at = -1; ab_at = -1; fired = false; run_once(ops, S, ref); N = (MODE == 1) ? ab_calls : total;
    bool us, ok; recover(S, us, ok);
    vj::Obj h; h.s("e", "Hist").i("mode", MODE).i("n", N).i("ops", ops.size()).i("stop", ref.stop_at).s("thrown", ref.thrown).s("op", ref.op).b("usable", us).b("okafter", ok).b("big", false);
    W.line(h.str()); }
  if (MODE == 2) {
    // natural faults: every run stops at the library's first overflow_error (if any)
    long l0 = live; Pod a = one(ops, S, -1, &ref); long lk = live - l0;
    long l1 = live; Pod b = one(ops, S, -1, &ref); long lk2 = live - l1;
    vj::Obj e; e.s("e", "Fault").i("mode", MODE).i("k", 0).i("n", 1).s("op", a.op).i("opi", a.stop_at).s("thrown", a.thrown).s("refexc", "").b("fired", a.stop_at >= 0)
      .i("leak", lk).i("leak2", lk2).b("usable", a.usable && b.usable).b("okafter", a.okafter && b.okafter).b("okbefore", a.okbefore && b.okbefore).b("same", a.same && b.same).b("big", false);
    W.line(e.str());
    return;
  }
  long stride = N > 240 ? (N + 239) / 240 : 1;
  for (long k = 0; k < N; k += stride) {
    long live0 = live; long s0 = seqno; Pod q = one(ops, S, k, 0); long leak = live - live0, leak2 = 0;
    if (leak != 0) {
      if (getenv("FAULT_BT")) {   // diagnosis: list the blocks of that run that are still alive and show where the repetition allocates them
        bt_n = 0; for (Hdr* h = live_list.next; h != &live_list; h = h->next) if (h->seq >= s0 && bt_n < 64) bt_seq[bt_n++] = h->seq - s0;
        fprintf(stderr, "==== fault position %ld in call %d (%s): %ld block(s) still alive\n", k, q.stop_at, q.op, leak);
        run_seq0 = seqno;
      }
      long l1 = live; (void) one(ops, S, k, 0); leak2 = live - l1; bt_n = 0; }
    Pod u = one(ops, S, -1, &ref);
    const std::string& rx = (q.stop_at >= 0 && (size_t) q.stop_at < ref.excs.size()) ? ref.excs[q.stop_at] : std::string("");
    vj::Obj e; e.s("e", "Fault").i("mode", MODE).i("k", k).i("n", N).s("op", q.op).i("opi", q.stop_at).s("thrown", q.thrown).s("refexc", rx).b("fired", q.fired)
      .i("leak", leak).i("leak2", leak2).b("usable", q.usable).b("okafter", q.okafter).b("okbefore", q.okbefore).b("same", u.same && u.usable && u.okafter).b("big", false);
    W.line(e.str());
  }
}

int main(int argc, char** argv) {
  int limit = argc > 1 ? atoi(argv[1]) : 60;
  MODE = argc > 2 ? atoi(argv[2]) : 0;
  vj::for_each_history(std::cin, limit, std::cout, run_history_f);
  return 0;
}
