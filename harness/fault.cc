// C14(b) harness: fault enumeration.  The call histories are the same TLC-generated polyhedron histories as in harness/poly.cc (whose
// interpreter is reused).  For one history the harness
//   1. runs it undisturbed (after warm-up runs that fill the library's static caches) counting the allocation requests (operator new
//      and the GMP allocation functions) resp. the maybe_abandon() checkpoints issued inside the calls: N fault positions;
//   2. for every position k < N (or a stride sample when N is large) runs it again on fresh objects and makes the k-th allocation
//      throw std::bad_alloc (mode alloc) / the k-th checkpoint throw the client's Throwable (mode abandon); with the bounded-coefficient
//      library (mode overflow) the fault is the library's own std::overflow_error;
//   3. after the interrupted call: every object is checked (OK()), used (observers, copy), assigned to, used again and destroyed;
//      the number of live blocks is compared with the number before the run (leak), a leaking position is run a second time
//      (a genuine leak repeats, a static pool that grew does not);
//   4. runs the history undisturbed once more on fresh objects and compares every answer and every final value with the reference
//      (the library remains fully usable).
// One event per fault position; judged by specs/poly/FaultTrace.tla.
#define main poly_main_unused
#include "poly.cc"
#undef main

#include "faultfw.hh"

struct PolySys {
  std::vector<Op> ops; Slot S[4]; Out out;
  size_t size() const { return ops.size(); }
  const char* name(size_t t) const { return ops[t].op.c_str(); }
  void step(size_t t) { const Op& o = ops[t]; out = Out(); out.rb = false; out.ri = 0; big = false; exec_op(o, S, S[o.dst], S[o.src > 0 ? o.src : o.dst], out); }
  std::string soft_exc() const { return out.exc; }
  std::string answer() const { std::ostringstream a; a << out.rb << "|" << out.ri << "|" << out.obs << "|" << out.rr << "|" << out.rc; return a.str(); }
  std::string final_state() { std::string f; for (int i = 1; i <= 3; ++i) f += desc(S[i]); return f; }
  // every object: assignment, use after assignment, invariant, copy, destruction.  The object is NOT inspected before the assignment: its value
  // after an exception is unspecified, and on the unchanged tree OK() itself can crash on a polyhedron whose minimization was interrupted.
  void recover(bool& usable, bool& okafter) {
    usable = true; okafter = true;
    try {
      for (int i = 1; i <= 3; ++i) if (S[i].p) {
        Polyhedron* p = S[i].p; unsigned n = p->space_dimension();
        if (S[i].nnc) { NNC_Polyhedron u(n); *static_cast<NNC_Polyhedron*>(p) = u; } else { C_Polyhedron u(n); *static_cast<C_Polyhedron*>(p) = u; }
        if (!p->is_universe()) usable = false;
        if (n > 0) { p->add_constraint(Variable(0) >= 1); if (p->is_empty() || p->is_universe()) usable = false; p->add_constraint(Variable(0) <= 0); if (!p->is_empty()) usable = false; }
        if (!p->OK()) okafter = false;
        if (S[i].nnc) { NNC_Polyhedron c(*static_cast<NNC_Polyhedron*>(p)); (void) c.minimized_generators(); if (!c.OK()) okafter = false; }
        else { C_Polyhedron c(*static_cast<C_Polyhedron*>(p)); (void) c.minimized_generators(); if (!c.OK()) okafter = false; }
      }
    } catch (...) { usable = false; }
    for (int i = 0; i <= 3; ++i) { delete S[i].p; S[i].p = 0; }
    out = Out();
  }
};

static void run_history_f(const std::vector<std::string>& lines, int fd) {
  vj::install_terminate();
  vj::Writer W(fd); g_lean = true;
  { std::istringstream is(lines[0]); std::string t; is >> t >> LIM; if (LIM <= 0) LIM = 1000000; }
  PolySys sys; for (size_t t = 1; t < lines.size(); ++t) sys.ops.push_back(parse(lines[t]));
  fault_history(sys, W);
}

int main(int argc, char** argv) {
  int limit = argc > 1 ? atoi(argv[1]) : 60; g_limit = limit;
  MODE = argc > 2 ? atoi(argv[2]) : 0;
  vj::for_each_history(std::cin, limit, std::cout, run_history_f);
  return 0;
}
