// C14(b) for boxes, BD shapes and octagons: fault enumeration (see fault.cc / common/faultfw.hh) over the shape-mode histories of
// specs/poly/PolyHist.tla, executed by the interpreter of harness/shape.cc (-DVDOM=1|2|3 -DVT=...).
#define main shape_main_unused
#include "shape.cc"
#undef main
#include "faultfw.hh"

struct ShapeSys {
  std::vector<Op> ops; Slot S[4]; Out out;
  size_t size() const { return ops.size(); }
  const char* name(size_t t) const { return ops[t].op.c_str(); }
  void step(size_t t) { const Op& o = ops[t]; out = Out(); out.rb = false; out.ri = 0; big = false; rowbig = false; exec_op(o, S, S[o.dst], S[o.src > 0 ? o.src : o.dst], out); }
  std::string soft_exc() const { return out.exc; }
  std::string answer() const { std::ostringstream a; a << out.rb << "|" << out.ri << "|" << out.obs << "|" << out.rr << "|" << out.rc; return a.str(); }
  std::string final_state() { std::string f; for (int i = 1; i <= 3; ++i) f += desc(S[i]); return f; }
  void recover(bool& usable, bool& okafter) {
    usable = true; okafter = true;
    try {
      for (int i = 1; i <= 3; ++i) if (S[i].p) {
        D* p = S[i].p; unsigned n = p->space_dimension();
        { D u(n, UNIVERSE); *p = u; }
        if (!p->is_universe()) usable = false;
        if (n > 0) { p->refine_with_constraint(Variable(0) >= 1); if (p->is_empty() || p->is_universe()) usable = false; p->refine_with_constraint(Variable(0) <= 0); if (!p->is_empty()) usable = false; }
        if (!p->OK()) okafter = false;
        { D c(*p); (void) c.is_empty(); if (!c.OK()) okafter = false; }
      }
    } catch (...) { usable = false; }
    for (int i = 0; i <= 3; ++i) { delete S[i].p; S[i].p = 0; }
    out = Out();
  }
};

static void run_history_f(const std::vector<std::string>& lines, int fd) {
  vj::install_terminate();
  vj::Writer W(fd); g_lean = true;
  { std::istringstream is(lines[0]); std::string t; is >> t >> LIM; if (LIM <= 0) LIM = 100000; }
  ShapeSys sys; for (size_t t = 1; t < lines.size(); ++t) sys.ops.push_back(parse(lines[t]));
  fault_history(sys, W);
}
int main(int argc, char** argv) {
  int limit = argc > 1 ? atoi(argv[1]) : 60; g_limit = limit;
  MODE = argc > 2 ? atoi(argv[2]) : 0;
  vj::for_each_history(std::cin, limit, std::cout, run_history_f);
  return 0;
}
