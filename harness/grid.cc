// Conformance harness for rational grids (C05, and the grid parts of C08/C13/C14a/C15): executes
// TLC-generated histories over a pool of 3 Grid objects, one forked child per history, and logs after
// every call the answer, the exception and the projected value of every slot (minimized congruences
// and grid generators taken from COPIES, is_empty, OK(), the status line of ascii_dump).
#include "ppl.hh"
#include "vjson.hh"
using namespace Parma_Polyhedra_Library;
typedef std::vector<long> LV;
static bool big = false; static long LIM = 100000;
static long L(const Coefficient& c) { long v = 0; Result r = assign_r(v, c, ROUND_DOWN); if (r != V_EQ || v > LIM || v < -LIM) { big = true; return 0; } return v; }

static std::string jsCG(const Congruence_System& cgs, unsigned n) {
  std::vector<std::string> r;
  for (Congruence_System::const_iterator i = cgs.begin(); i != cgs.end(); ++i) {
    LV v(n + 1); v[0] = L(i->inhomogeneous_term());
    for (unsigned k = 0; k < n; ++k) v[k + 1] = (k < i->space_dimension()) ? L(i->coefficient(Variable(k))) : 0;
    r.push_back(std::string("{\"mod\":") + std::to_string(L(i->modulus())) + ",\"v\":" + vj::arr(v) + "}");
  }
  return vj::arrs(r);
}
static std::string jsGG1(const Grid_Generator& g, unsigned n) {
  LV v(n + 1); v[0] = g.is_line() ? 0 : L(g.divisor());
  for (unsigned k = 0; k < n; ++k) v[k + 1] = (k < g.space_dimension()) ? L(g.coefficient(Variable(k))) : 0;
  return std::string("{\"k\":\"") + (g.is_line() ? "line" : g.is_parameter() ? "param" : "point") + "\",\"v\":" + vj::arr(v) + "}";
}
static std::string jsGG(const Grid_Generator_System& gs, unsigned n) {
  std::vector<std::string> r;
  for (Grid_Generator_System::const_iterator i = gs.begin(); i != gs.end(); ++i) r.push_back(jsGG1(*i, n));
  return vj::arrs(r);
}
struct Slot { Grid* p; Slot() : p(0) {} };
static std::string status_line(const Grid& p) {
  std::ostringstream st; p.ascii_dump(st); std::string d = st.str();
  size_t p1 = d.find('\n'); size_t p2 = d.find('\n', p1 + 1);
  return (p1 == std::string::npos || p2 == std::string::npos) ? "" : d.substr(p1 + 1, p2 - p1 - 1);
}
static std::string desc1(const Slot& s) {
  if (!s.p) return "{\"alive\":false,\"n\":0,\"empty\":true,\"C\":[],\"G\":[],\"st\":\"\",\"ok\":true}";
  unsigned n = s.p->space_dimension();
  Grid a(*s.p), b(*s.p), c(*s.p);
  bool e = c.is_empty();
  std::string C = jsCG(a.minimized_congruences(), n), G = e ? std::string("[]") : jsGG(b.minimized_grid_generators(), n);
  vj::Obj o; o.b("alive", true).i("n", n).b("empty", e).raw("C", C).raw("G", G).s("st", status_line(*s.p)).b("ok", s.p->OK());
  return o.str();
}
static std::string desc(const Slot& s) {
  try { return desc1(s); }
  catch (std::exception&) { big = true; return "{\"alive\":false,\"n\":0,\"empty\":true,\"C\":[],\"G\":[],\"st\":\"projection-threw\",\"ok\":true}"; }
}
struct Op { std::string op, k; int dst, src, n, var, den, mod; LV v, w, vs; std::vector<std::pair<std::string, LV> > cs, gs; };
static LV rdv(std::istringstream& is) { size_t n; is >> n; LV v(n); for (size_t i = 0; i < n; ++i) is >> v[i]; return v; }
static Op parse(const std::string& line) {
  std::istringstream is(line); Op o; std::string tag, topo;
  is >> tag >> o.op >> o.dst >> o.src >> o.n >> topo >> o.k >> o.var >> o.den >> o.mod;
  is >> tag; o.v = rdv(is); is >> tag; o.w = rdv(is); is >> tag; o.vs = rdv(is);
  size_t c; is >> tag >> c; for (size_t i = 0; i < c; ++i) { std::string k; is >> k; LV v = rdv(is); o.cs.push_back(std::make_pair(k, v)); }
  is >> tag >> c; for (size_t i = 0; i < c; ++i) { std::string k; is >> k; LV v = rdv(is); o.gs.push_back(std::make_pair(k, v)); }
  return o;
}
static Linear_Expression le(const LV& v, unsigned n, bool inh = true) {
  Linear_Expression e; unsigned m = v.size() > 0 ? v.size() - 1 : 0;
  for (unsigned k = 0; k < m; ++k) e += v[k + 1] * Variable(k);
  if (n > m) e += 0 * Variable(n - 1);
  if (inh && !v.empty()) e += v[0];
  return e;
}
// congruence rows are "mod:<m>" kinds: k = "eq" (modulus 0) or "cg" (modulus o.mod) ; per-row modulus in k as "m<number>"
static long rowmod(const std::string& k, long dflt) { if (k == "eq") return 0; if (k.size() > 1 && k[0] == 'm') return atol(k.c_str() + 1); return dflt; }
static Congruence mkcg(const LV& v, long mod, unsigned n) { Linear_Expression e = le(v, n); return (e %= 0) / mod; }
static Grid_Generator mkgg(const std::string& k, const LV& v, unsigned n) {
  Linear_Expression e = le(v, n, false); long d = v.empty() ? 1 : v[0];
  return k == "point" ? grid_point(e, d) : k == "param" ? parameter(e, d) : grid_line(e);
}
static Constraint mkc(const std::string& k, const LV& v, unsigned n) { Linear_Expression e = le(v, n); return k == "eq" ? Constraint(e == 0) : k == "gt" ? Constraint(e > 0) : Constraint(e >= 0); }
static std::string relcon(const Poly_Con_Relation& r) {
  vj::Obj o; o.b("sat", r.implies(Poly_Con_Relation::saturates())).b("inc", r.implies(Poly_Con_Relation::is_included()))
    .b("dis", r.implies(Poly_Con_Relation::is_disjoint())).b("si", r.implies(Poly_Con_Relation::strictly_intersects()));
  return o.str();
}
static Congruence_System mkcgs(const Op& o, unsigned n) { Congruence_System cgs(n); for (size_t i = 0; i < o.cs.size(); ++i) cgs.insert(mkcg(o.cs[i].second, rowmod(o.cs[i].first, o.mod), n)); return cgs; }
static Grid_Generator_System mkggs(const Op& o, unsigned n) { Grid_Generator_System gs(n); for (size_t i = 0; i < o.gs.size(); ++i) gs.insert(mkgg(o.gs[i].first, o.gs[i].second, n)); return gs; }

static Grid* rebuilt(const Grid& x, int style) {
  Grid c(x); unsigned sn = c.space_dimension(); Grid* q = 0;
  if (style % 3 == 0) { q = new Grid(sn); q->add_congruences(c.minimized_congruences()); }
  else if (style % 3 == 1) { if (c.is_empty()) q = new Grid(sn, EMPTY); else { q = new Grid(sn, EMPTY); q->add_grid_generators(c.grid_generators()); } }
  else { q = new Grid(sn); Congruence_System cs = c.congruences(); for (Congruence_System::const_iterator i = cs.begin(); i != cs.end(); ++i) q->add_congruence(*i); (void) q->grid_generators(); }
  return q;
}
static void widen_call(const std::string& op, Grid* x, const Grid& y, const Congruence_System& cgs, unsigned* tp) {
  if (op == "congruence_widening") x->congruence_widening_assign(y, tp); else if (op == "generator_widening") x->generator_widening_assign(y, tp); else if (op == "widening") x->widening_assign(y, tp);
  else if (op == "limited_congruence") x->limited_congruence_extrapolation_assign(y, cgs, tp); else if (op == "limited_generator") x->limited_generator_extrapolation_assign(y, cgs, tp);
  else x->limited_extrapolation_assign(y, cgs, tp);
}
static std::string plain_of(const std::string& op) { return op == "limited_congruence" ? "congruence_widening" : op == "limited_generator" ? "generator_widening" : op == "limited_extrapolation" ? "widening" : op; }
static void run_history(const std::vector<std::string>& lines, int fd) {
  vj::install_terminate();
  vj::Writer W(fd); Slot S[4];
  { std::istringstream is(lines[0]); std::string t; is >> t >> LIM; if (LIM <= 0) LIM = 100000; }
  W.line("{\"e\":\"Reset\"}");
  for (size_t t = 1; t < lines.size(); ++t) {
    Op o = parse(lines[t]); Slot& d = S[o.dst]; Slot& s = S[o.src > 0 ? o.src : o.dst];
    std::string exc = "", obs = "[]", rr = "{\"ok\":false,\"num\":0,\"den\":1,\"ext\":false,\"fn\":0,\"fd\":1}", rc = "{\"sat\":false,\"inc\":false,\"dis\":false,\"si\":false}";
    bool rb = false; long ri = 0; unsigned n = d.p ? d.p->space_dimension() : 0; big = false; const std::string& op = o.op;
    std::string plain = desc(Slot()), wtwin = desc(Slot());
    try {
      if (op == "new") { Grid* q = new Grid(o.n, o.k == "empty" ? EMPTY : UNIVERSE); delete d.p; d.p = q; }
      else if (op == "from_cgs") { Grid* q = new Grid(mkcgs(o, o.n)); delete d.p; d.p = q; }
      else if (op == "from_ggs") { Grid* q = new Grid(mkggs(o, o.n)); delete d.p; d.p = q; }
      else if (op == "destroy") { delete d.p; d.p = 0; }
      else if ((op == "copy_from" || op == "rebuild") ? !s.p : (op == "dumpload") ? !d.p : (!d.p || (o.src > 0 && !s.p))) { exc = "dead"; }
      else if (op == "copy_from") { if (&d != &s) { Grid* c = new Grid(*s.p); delete d.p; d.p = c; } else *d.p = *d.p; }
      else if (op == "assign") { *d.p = *s.p; }
      else if (op == "swap") { if (o.var % 2) d.p->m_swap(*s.p); else { using std::swap; swap(*d.p, *s.p); } }
      else if (op == "rebuild") { Grid c(*s.p); Grid* q = 0; unsigned sn = c.space_dimension();
        if (o.var == 1) { q = new Grid(sn); q->add_congruences(c.minimized_congruences()); }
        else if (o.var == 2) { if (c.is_empty()) q = new Grid(sn, EMPTY); else { q = new Grid(sn, EMPTY); q->add_grid_generators(c.grid_generators()); } }
        else if (o.var == 3) { q = new Grid(sn); Congruence_System cs = c.congruences(); for (Congruence_System::const_iterator i = cs.begin(); i != cs.end(); ++i) q->add_congruence(*i); (void) q->grid_generators(); }
        else { if (c.is_empty()) q = new Grid(sn, EMPTY); else { q = new Grid(sn, EMPTY); q->add_grid_generators(c.minimized_grid_generators()); (void) q->minimized_congruences(); } }
        delete d.p; d.p = q; }
      else if (op == "dumpload") { std::stringstream ss; d.p->ascii_dump(ss); std::string t1 = ss.str(); Grid* q = new Grid(0); bool ok = q->ascii_load(ss); std::stringstream s2; q->ascii_dump(s2);
        ri = (ok ? 1 : 0) + (s2.str() == t1 ? 2 : 0) + (q->OK() ? 4 : 0); Slot& tgt = S[o.src > 0 ? o.src : o.dst]; delete tgt.p; tgt.p = q; }
      // observers
      else if (op == "congruences") obs = jsCG(d.p->congruences(), n);
      else if (op == "min_congruences") obs = jsCG(d.p->minimized_congruences(), n);
      else if (op == "grid_generators") obs = jsGG(d.p->grid_generators(), n);
      else if (op == "min_grid_generators") obs = jsGG(d.p->minimized_grid_generators(), n);
      else if (op == "space_dimension") ri = d.p->space_dimension();
      else if (op == "affine_dimension") ri = d.p->affine_dimension();
      else if (op == "is_empty") rb = d.p->is_empty();
      else if (op == "is_universe") rb = d.p->is_universe();
      else if (op == "is_discrete") rb = d.p->is_discrete();
      else if (op == "is_bounded") rb = d.p->is_bounded();
      else if (op == "is_topologically_closed") rb = d.p->is_topologically_closed();
      else if (op == "contains_integer_point") rb = d.p->contains_integer_point();
      else if (op == "constrains") rb = d.p->constrains(Variable(o.var));
      else if (op == "OK") rb = d.p->OK();
      else if (op == "contains") rb = d.p->contains(*s.p);
      else if (op == "strictly_contains") rb = d.p->strictly_contains(*s.p);
      else if (op == "is_disjoint_from") rb = d.p->is_disjoint_from(*s.p);
      else if (op == "equals") rb = (*d.p == *s.p);
      else if (op == "relation_with_congruence") rc = relcon(d.p->relation_with(mkcg(o.v, o.mod, o.n)));
      else if (op == "relation_with_constraint") rc = relcon(d.p->relation_with(mkc(o.k, o.v, o.n)));
      else if (op == "relation_with_grid_generator") rb = d.p->relation_with(mkgg(o.k, o.v, o.n)).implies(Poly_Gen_Relation::subsumes());
      else if (op == "bounds_from_above") rb = d.p->bounds_from_above(le(o.v, n));
      else if (op == "bounds_from_below") rb = d.p->bounds_from_below(le(o.v, n));
      else if (op == "maximize" || op == "minimize") { Coefficient num, den; bool ext = false; bool ok = (op == "maximize") ? d.p->maximize(le(o.v, n), num, den, ext) : d.p->minimize(le(o.v, n), num, den, ext);
        vj::Obj r; r.b("ok", ok).i("num", ok ? L(num) : 0).i("den", ok ? L(den) : 1).b("ext", ok ? ext : false).i("fn", 0).i("fd", 1); rr = r.str(); }
      else if (op == "frequency") { Coefficient fn, fd2, vn, vd; bool ok = d.p->frequency(le(o.v, n), fn, fd2, vn, vd);
        vj::Obj r; r.b("ok", ok).i("num", ok ? L(vn) : 0).i("den", ok ? L(vd) : 1).b("ext", false).i("fn", ok ? L(fn) : 0).i("fd", ok ? L(fd2) : 1); rr = r.str(); }
      // mutators
      else if (op == "add_congruence") d.p->add_congruence(mkcg(o.v, o.mod, o.n));
      else if (op == "refine_with_congruence") d.p->refine_with_congruence(mkcg(o.v, o.mod, o.n));
      else if (op == "add_congruences") { Congruence_System cgs = mkcgs(o, o.n); if (o.var % 2) d.p->add_recycled_congruences(cgs); else d.p->add_congruences(cgs); }
      else if (op == "refine_with_congruences") d.p->refine_with_congruences(mkcgs(o, o.n));
      else if (op == "add_constraint") d.p->add_constraint(mkc(o.k, o.v, o.n));
      else if (op == "refine_with_constraint") d.p->refine_with_constraint(mkc(o.k, o.v, o.n));
      else if (op == "add_grid_generator") d.p->add_grid_generator(mkgg(o.k, o.v, o.n));
      else if (op == "add_grid_generators") { Grid_Generator_System gs = mkggs(o, o.n); if (o.var % 2) d.p->add_recycled_grid_generators(gs); else d.p->add_grid_generators(gs); }
      else if (op == "intersection") d.p->intersection_assign(*s.p);
      else if (op == "upper_bound") d.p->upper_bound_assign(*s.p);
      else if (op == "upper_bound_if_exact") rb = d.p->upper_bound_assign_if_exact(*s.p);
      else if (op == "difference") d.p->difference_assign(*s.p);
      else if (op == "time_elapse") d.p->time_elapse_assign(*s.p);
      else if (op == "topological_closure") d.p->topological_closure_assign();
      else if (op == "affine_image") d.p->affine_image(Variable(o.var), le(o.v, n), o.den);
      else if (op == "affine_preimage") d.p->affine_preimage(Variable(o.var), le(o.v, n), o.den);
      else if (op == "gen_affine_image") d.p->generalized_affine_image(Variable(o.var), EQUAL, le(o.v, n), o.den, o.mod);
      else if (op == "gen_affine_preimage") d.p->generalized_affine_preimage(Variable(o.var), EQUAL, le(o.v, n), o.den, o.mod);
      else if (op == "unconstrain") d.p->unconstrain(Variable(o.var));
      else if (op == "unconstrain_set") { Variables_Set vs; for (size_t i = 0; i < o.vs.size(); ++i) vs.insert(Variable(o.vs[i])); d.p->unconstrain(vs); }
      else if (op == "add_dims_embed") d.p->add_space_dimensions_and_embed(o.var);
      else if (op == "add_dims_project") d.p->add_space_dimensions_and_project(o.var);
      else if (op == "concatenate") d.p->concatenate_assign(*s.p);
      else if (op == "remove_dims") { Variables_Set vs; for (size_t i = 0; i < o.vs.size(); ++i) vs.insert(Variable(o.vs[i])); d.p->remove_space_dimensions(vs); }
      else if (op == "remove_higher") d.p->remove_higher_space_dimensions(o.var);
      else if (op == "map_dims") { Partial_Function pf; for (size_t i = 0; i < o.vs.size(); ++i) if (o.vs[i] >= 0) pf.insert(i, o.vs[i]); d.p->map_space_dimensions(pf); }
      else if (op == "expand") d.p->expand_space_dimension(Variable(o.var), o.den);
      else if (op == "fold") { Variables_Set vs; for (size_t i = 0; i < o.vs.size(); ++i) vs.insert(Variable(o.vs[i])); d.p->fold_space_dimensions(vs, Variable(o.var)); }
      else if (op == "congruence_widening" || op == "generator_widening" || op == "widening" || op == "limited_congruence" || op == "limited_generator" || op == "limited_extrapolation") {
        unsigned tk = o.den < 0 ? 0 : o.den; unsigned* tp = (o.mod > 0) ? &tk : 0; Congruence_System cgs = mkcgs(o, n);
        if (d.p->space_dimension() != s.p->space_dimension() || &d == &s) { widen_call(op, d.p, *s.p, cgs, tp); ri = tk; }
        else {
          d.p->upper_bound_assign(*s.p);       // z = receiver joined with the argument
          { Slot t; t.p = new Grid(*d.p); Congruence_System none(n); widen_call(plain_of(op), t.p, *s.p, none, 0); plain = desc(t); delete t.p; }
          { Slot tz; tz.p = rebuilt(*d.p, o.var); Grid* ts = rebuilt(*s.p, o.var + 1); unsigned tk2 = tk; widen_call(op, tz.p, *ts, cgs, tp ? &tk2 : 0); wtwin = desc(tz);
            rr = std::string("{\"ok\":true,\"num\":") + std::to_string(tk2) + ",\"den\":1,\"ext\":false,\"fn\":0,\"fd\":1}"; delete tz.p; delete ts; }
          widen_call(op, d.p, *s.p, cgs, tp); ri = tk; }
      }
      else exc = "unknown-op";
    }
    catch (std::invalid_argument&) { exc = "invalid_argument"; } catch (std::length_error&) { exc = "length_error"; }
    catch (std::domain_error&) { exc = "domain_error"; } catch (std::overflow_error&) { exc = "overflow_error"; }
    catch (std::logic_error&) { exc = "logic_error"; } catch (std::bad_alloc&) { exc = "bad_alloc"; }
    catch (std::runtime_error&) { exc = "runtime_error"; } catch (std::exception&) { exc = "exception"; } catch (...) { exc = "unknown"; }
    std::string p1 = desc(S[1]), p2 = desc(S[2]), p3 = desc(S[3]);
    std::vector<std::string> ccs, ggs;
    for (size_t i = 0; i < o.cs.size(); ++i) ccs.push_back(std::string("{\"mod\":") + std::to_string(rowmod(o.cs[i].first, o.mod)) + ",\"v\":" + vj::arr(o.cs[i].second) + "}");
    for (size_t i = 0; i < o.gs.size(); ++i) ggs.push_back(std::string("{\"k\":\"") + o.gs[i].first + "\",\"v\":" + vj::arr(o.gs[i].second) + "}");
    vj::Obj e; e.s("e", "Op").i("t", t).s("op", op).i("dst", o.dst).i("src", o.src).i("argn", o.n).s("k", o.k).i("var", o.var).i("den", o.den).i("mod", o.mod)
      .raw("v", vj::arr(o.v)).raw("w", vj::arr(o.w)).raw("vs", vj::arr(o.vs)).raw("cs", vj::arrs(ccs)).raw("gs", vj::arrs(ggs))
      .b("rb", rb).i("ri", ri).raw("rr", rr).raw("rc", rc).s("exc", exc).raw("obs", obs)
      .raw("post", std::string("[") + p1 + "," + p2 + "," + p3 + "]").raw("plain", plain).raw("wtwin", wtwin).b("big", big);
    W.line(e.str());
    if (big) { W.line("{\"e\":\"Reset\"}"); for (int i = 1; i <= 3; ++i) { delete S[i].p; S[i].p = 0; } }
  }
}
int main(int argc, char** argv) {
  vj::for_each_history(std::cin, argc > 1 ? atoi(argv[1]) : 20, std::cout, run_history);
  return 0;
}
