// C12 harness: interval arithmetic on three boundary types -- Rational_Interval (exact), Integer_Interval
// (integral closed bounds) and a double interval with the policy the library's float analyses use.
// For every generated operand pair it logs the operands (as the small rationals they were built from)
// and the result of every operation with its bounds (value, open flag, infinity, emptiness).  Float
// bounds are logged exactly as sign * mantissa(limbs base 2^14) * 2^exponent.  No judgement here.
#include "ppl.hh"
#include <cstdio>
#include <cmath>
#include <random>
#include <string>
#include <sstream>
using namespace Parma_Polyhedra_Library;
typedef std::mt19937 RNG;

struct Floating_Real_Open_Interval_Info_Policy {
  const_bool_nodef(store_special, false);
  const_bool_nodef(store_open, true);
  const_bool_nodef(cache_empty, true);
  const_bool_nodef(cache_singleton, true);
  const_bool_nodef(cache_normalized, false);
  const_int_nodef(next_bit, 0);
  const_bool_nodef(may_be_empty, true);
  const_bool_nodef(may_contain_infinity, false);
  const_bool_nodef(check_empty_result, false);
  const_bool_nodef(check_inexact, false);
};
typedef Interval_Info_Bitset<unsigned int, Floating_Real_Open_Interval_Info_Policy> Floating_Real_Open_Interval_Info;
typedef Interval<double, Floating_Real_Open_Interval_Info> Double_Interval;

struct B { bool inf; long num, den; bool open; };
static std::string jb(const B& b) { std::ostringstream o; o << "{\"inf\":" << (b.inf ? "true" : "false") << ",\"num\":" << b.num << ",\"den\":" << b.den << ",\"open\":" << (b.open ? "true" : "false") << ",\"big\":false,\"toobig\":false,\"s\":0,\"m\":[0,0,0,0],\"e\":0}"; return o.str(); }
static std::string jval(const mpq_class& v, bool open) { B b; b.inf = false; b.open = open; bool fits = v.get_num().fits_sint_p() && v.get_den().fits_sint_p() && abs(v.get_num()) < (1L << 30) && v.get_den() < (1L << 30);
  if (fits) { b.num = v.get_num().get_si(); b.den = v.get_den().get_si(); return jb(b); }
  return std::string("{\"inf\":false,\"num\":0,\"den\":1,\"open\":") + (open ? "true" : "false") + ",\"big\":true,\"toobig\":true,\"s\":0,\"m\":[0,0,0,0],\"e\":0}"; }
static std::string jval(const mpz_class& v, bool open) { return jval(mpq_class(v), open); }
static std::string jval(double v, bool open) {
  if (v == std::floor(v) && std::fabs(v) < 1e9) { B b; b.inf = false; b.open = open; b.num = (long) v; b.den = 1; return jb(b); }
  int e; double m = std::frexp(std::fabs(v), &e);            // |v| = m * 2^e, m in [0.5, 1)
  unsigned long long M = (unsigned long long) std::ldexp(m, 53); e -= 53;   // |v| = M * 2^e exactly
  while (M != 0 && (M & 1ULL) == 0) { M >>= 1; ++e; }
  std::ostringstream o; o << "{\"inf\":false,\"num\":0,\"den\":1,\"open\":" << (open ? "true" : "false") << ",\"big\":true,\"toobig\":false,\"s\":" << (v < 0 ? -1 : (v > 0 ? 1 : 0)) << ",\"m\":[";
  for (int i = 0; i < 4; ++i) { if (i) o << ","; o << (M & 16383ULL); M >>= 14; } o << "],\"e\":" << e << "}"; return o.str(); }
static const char* INF_LO = "{\"inf\":true,\"num\":0,\"den\":1,\"open\":true,\"big\":false,\"toobig\":false,\"s\":0,\"m\":[0,0,0,0],\"e\":0}";
template <class I> static std::string ji(const I& x) {
  if (x.is_empty()) return "{\"empty\":true,\"lo\":" + std::string(INF_LO) + ",\"hi\":" + INF_LO + "}";
  std::string lo = x.lower_is_boundary_infinity() ? std::string(INF_LO) : jval(x.lower(), x.lower_is_open());
  std::string hi = x.upper_is_boundary_infinity() ? std::string(INF_LO) : jval(x.upper(), x.upper_is_open());
  return "{\"empty\":false,\"lo\":" + lo + ",\"hi\":" + hi + "}";
}
static std::string jspec(const B& lo, const B& hi) { return "{\"empty\":false,\"lo\":" + jb(lo) + ",\"hi\":" + jb(hi) + "}"; }
template <class I> static I mk(const B& lo, const B& hi) {
  I x; x.assign(UNIVERSE);
  if (!lo.inf) { mpq_class v(lo.num, lo.den); v.canonicalize(); x.add_constraint(i_constraint(lo.open ? GREATER_THAN : GREATER_OR_EQUAL, v)); }
  if (!hi.inf) { mpq_class v(hi.num, hi.den); v.canonicalize(); x.add_constraint(i_constraint(hi.open ? LESS_THAN : LESS_OR_EQUAL, v)); }
  return x;
}
static B rb(RNG& r, int den, bool allow_open) { B b; b.inf = r() % 6 == 0; b.num = (long) (r() % 13) - 6; b.den = den == 0 ? 1 + r() % 3 : den; b.open = allow_open && (r() % 2); if (b.inf) { b.num = 0; b.den = 1; b.open = true; } return b; }
static const char* REL[5] = { "le", "lt", "ge", "gt", "eq" };
template <class I>
static void run_type(const char* ty, bool exact, int den, bool allow_open, int N, RNG& r) {
  for (int id = 0; id < N; ++id) {
    B a = rb(r, den, allow_open), b = rb(r, den, allow_open), c = rb(r, den, allow_open), d = rb(r, den, allow_open);
    if (r() % 5 != 0 && !a.inf && !b.inf && a.num * b.den > b.num * a.den) { B t = a; a = b; b = t; }   // mostly non-empty
    if (r() % 5 != 0 && !c.inf && !d.inf && c.num * d.den > d.num * c.den) { B t = c; c = d; d = t; }
    if (r() % 5 == 0) { c = a; d = b; }            // equal operands
    if (r() % 7 == 0) { b = a; b.open = a.open = false; }   // singleton
    I x = mk<I>(a, b), y = mk<I>(c, d);
    int rel = r() % 5; long kn = (long) (r() % 9) - 4; long kd = den == 0 ? 1 + r() % 2 : den;
    std::printf("{\"ty\":\"%s\",\"exact\":%s,\"id\":%d,\"x\":%s,\"y\":%s", ty, exact ? "true" : "false", id, jspec(a, b).c_str(), jspec(c, d).c_str());
    std::printf(",\"rx\":%s,\"ry\":%s", ji(x).c_str(), ji(y).c_str());
    { I z; z.add_assign(x, y); std::printf(",\"add\":%s", ji(z).c_str()); }
    { I z; z.sub_assign(x, y); std::printf(",\"sub\":%s", ji(z).c_str()); }
    { I z; z.mul_assign(x, y); std::printf(",\"mul\":%s", ji(z).c_str()); }
    { I z; z.div_assign(x, y); std::printf(",\"div\":%s", ji(z).c_str()); }
    { I z; z.neg_assign(x); std::printf(",\"neg\":%s", ji(z).c_str()); }
    { I z(x); z.join_assign(y); std::printf(",\"join\":%s", ji(z).c_str()); }
    { I z; z.join_assign(x, y); std::printf(",\"join2\":%s", ji(z).c_str()); }
    { I z(x); z.intersect_assign(y); std::printf(",\"meet\":%s", ji(z).c_str()); }
    { I z; z.intersect_assign(x, y); std::printf(",\"meet2\":%s", ji(z).c_str()); }
    { I z(x); z.difference_assign(y); std::printf(",\"diff\":%s", ji(z).c_str()); }
    { I z(x); z.add_assign(z, z); std::printf(",\"addself\":%s", ji(z).c_str()); }     // aliasing
    { I z(x); z.mul_assign(z, y); std::printf(",\"mulalias\":%s", ji(z).c_str()); }
    // destination aliased with the first / the second operand, for every binary operation
    { I z(x); z.add_assign(z, y); std::printf(",\"add1\":%s", ji(z).c_str()); } { I z(y); z.add_assign(x, z); std::printf(",\"add2\":%s", ji(z).c_str()); }
    { I z(x); z.sub_assign(z, y); std::printf(",\"sub1\":%s", ji(z).c_str()); } { I z(y); z.sub_assign(x, z); std::printf(",\"sub2\":%s", ji(z).c_str()); }
    { I z(y); z.mul_assign(x, z); std::printf(",\"mul2\":%s", ji(z).c_str()); }
    { I z(x); z.div_assign(z, y); std::printf(",\"div1\":%s", ji(z).c_str()); } { I z(y); z.div_assign(x, z); std::printf(",\"div2\":%s", ji(z).c_str()); }
    { I z(x); z.sub_assign(z, z); std::printf(",\"subself\":%s", ji(z).c_str()); } { I z(x); z.mul_assign(z, z); std::printf(",\"mulself\":%s", ji(z).c_str()); }
    { I z(y); z.join_assign(x, z); std::printf(",\"join3\":%s", ji(z).c_str()); } { I z(y); z.intersect_assign(x, z); std::printf(",\"meet3\":%s", ji(z).c_str()); }
    { I z(x); z.neg_assign(z); std::printf(",\"negself\":%s", ji(z).c_str()); }
    { I z(x); mpq_class k(kn, kd); k.canonicalize(); Relation_Symbol rs = rel == 0 ? LESS_OR_EQUAL : rel == 1 ? LESS_THAN : rel == 2 ? GREATER_OR_EQUAL : rel == 3 ? GREATER_THAN : EQUAL;
      z.add_constraint(i_constraint(rs, k)); std::printf(",\"rel\":\"%s\",\"kn\":%ld,\"kd\":%ld,\"refine\":%s", REL[rel], kn, kd, ji(z).c_str()); }
    std::printf(",\"contains\":%s,\"strictly_contains\":%s,\"disjoint\":%s,\"eq\":%s,\"bounded\":%s,\"singleton\":%s,\"hasint\":%s",
                x.contains(y) ? "true" : "false", x.strictly_contains(y) ? "true" : "false", x.is_disjoint_from(y) ? "true" : "false", (x == y) ? "true" : "false",
                x.is_bounded() ? "true" : "false", x.is_singleton() ? "true" : "false", x.contains_integer_point() ? "true" : "false");
    std::printf("}\n");
  }
}
int main(int argc, char** argv) {
  int N = atoi(argv[1]); RNG r(atoi(argv[2])); std::string which = argc > 3 ? argv[3] : "all";
  if (which == "rat" || which == "all") run_type<Rational_Interval>("rat", true, 0, true, N, r);
  if (which == "int" || which == "all") run_type<Integer_Interval>("int", false, 1, false, N, r);
  if (which == "dbl" || which == "all") run_type<Double_Interval>("dbl", false, 4, true, N, r);
  return 0;
}
