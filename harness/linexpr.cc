// C16 replayer for specs/rows/LinExpr.tla: every behaviour is executed under four assignments of
// representations (dense/sparse) to the three expression slots; contents (coefficient(), get(),
// iteration), observer answers and OK() must equal what the specification computed.
// Input: "BEGIN" / "op k j a b c d obs nvs vs.. | n1 e.. n2 e.. n3 e.." / "END".
#include "ppl.hh"
#include <iostream>
#include <sstream>
#include <vector>
#include <string>
using namespace Parma_Polyhedra_Library;

namespace Parma_Polyhedra_Library {
struct Verif_Tag {};
// A specialization of a friend template of Linear_Expression: gives the replayer access to the
// row-level interface the library itself uses (no source change needed).
template <> class Expression_Adapter<Verif_Tag> {
public:
  typedef Linear_Expression LE;
  static Coefficient get(const LE& e, dimension_type i) { return e.get(i); }
  static void set(LE& e, dimension_type i, const Coefficient& c) { e.set(i, c); }
  static bool all_zeroes(const LE& e, dimension_type a, dimension_type b) { return e.all_zeroes(a, b); }
  static dimension_type num_zeroes(const LE& e, dimension_type a, dimension_type b) { return e.num_zeroes(a, b); }
  static Coefficient gcd(const LE& e, dimension_type a, dimension_type b) { return e.gcd(a, b); }
  static void exact_div_assign(LE& e, const Coefficient& c, dimension_type a, dimension_type b) { e.exact_div_assign(c, a, b); }
  static void linear_combine_i(LE& e, const LE& y, dimension_type i) { e.linear_combine(y, i); }
  static void linear_combine(LE& e, const LE& y, const Coefficient& c1, const Coefficient& c2, dimension_type a, dimension_type b) { e.linear_combine(y, c1, c2, a, b); }
  static void linear_combine_lax(LE& e, const LE& y, const Coefficient& c1, const Coefficient& c2, dimension_type a, dimension_type b) { e.linear_combine_lax(y, c1, c2, a, b); }
  static void mul_assign(LE& e, const Coefficient& c, dimension_type a, dimension_type b) { e.mul_assign(c, a, b); }
  static dimension_type last_nonzero(const LE& e) { return e.last_nonzero(); }
  static dimension_type last_nonzero(const LE& e, dimension_type a, dimension_type b) { return e.last_nonzero(a, b); }
  static dimension_type first_nonzero(const LE& e, dimension_type a, dimension_type b) { return e.first_nonzero(a, b); }
  static bool all_zeroes_except(const LE& e, const Variables_Set& vs, dimension_type a, dimension_type b) { return e.all_zeroes_except(vs, a, b); }
  static void scalar_product_assign(const LE& e, Coefficient& r, const LE& y) { e.scalar_product_assign(r, y); }
  static void scalar_product_assign(const LE& e, Coefficient& r, const LE& y, dimension_type a, dimension_type b) { e.scalar_product_assign(r, y, a, b); }
  static int scalar_product_sign(const LE& e, const LE& y) { return e.scalar_product_sign(y); }
  static bool is_equal_to(const LE& e, const LE& y, dimension_type a, dimension_type b) { return e.is_equal_to(y, a, b); }
  static bool is_equal_to(const LE& e, const LE& y, const Coefficient& c1, const Coefficient& c2, dimension_type a, dimension_type b) { return e.is_equal_to(y, c1, c2, a, b); }
  static bool have_a_common_variable(const LE& e, const LE& y, Variable a, Variable b) { return e.have_a_common_variable(y, a, b); }
  static void negate(LE& e, dimension_type a, dimension_type b) { e.negate(a, b); }
  static void get_row(const LE& e, Dense_Row& r) { e.get_row(r); }
  static void get_row(const LE& e, Sparse_Row& r) { e.get_row(r); }
};
}
typedef Expression_Adapter<Verif_Tag> X;

static const char* same(const Linear_Expression& x, const std::vector<long>& e) {
  if (x.space_dimension() + 1 != e.size()) return "space_dimension";
  if (x.inhomogeneous_term() != e[0]) return "inhomogeneous_term";
  for (size_t i = 1; i < e.size(); ++i) if (x.coefficient(Variable(i - 1)) != e[i]) return "coefficient";
  for (size_t i = 0; i < e.size(); ++i) if (X::get(x, i) != e[i]) return "get";
  long last = -1; size_t nz = 0;
  for (Linear_Expression::const_iterator it = x.begin(); it != x.end(); ++it) {
    long id = it.variable().id();
    if (id <= last) return "iteration-order";
    last = id;
    if ((size_t) id + 1 >= e.size()) return "iteration-index";
    if (*it != e[id + 1]) return "iteration-value";
    if (*it == 0) return "iteration-yields-zero";
    ++nz;
  }
  size_t want = 0; for (size_t i = 1; i < e.size(); ++i) if (e[i] != 0) ++want;
  if (nz != want) return "iteration-misses-nonzero";
  // both row views
  Dense_Row dr; X::get_row(x, dr); Sparse_Row sr; X::get_row(x, sr);
  if (dr.size() != e.size() || sr.size() != e.size()) return "get_row-size";
  for (size_t i = 0; i < e.size(); ++i) if (dr.get(i) != e[i] || sr.get(i) != e[i]) return "get_row";
  if (!x.OK()) return "OK()";
  return 0;
}

struct Step { std::string op; long k, j, a, b, c, d, obs; std::vector<long> vs; std::vector<long> post[3]; };

static const char* apply(Linear_Expression* E, const Step& s, long stepno) {
  Linear_Expression& x = E[s.k - 1]; const Linear_Expression& y = E[(s.j ? s.j : s.k) - 1];
  const std::string& op = s.op; long got = 0; bool isobs = false;
  Variables_Set vset; for (size_t i = 0; i < s.vs.size(); ++i) vset.insert(Variable(s.vs[i]));
  if (op == "init") { for (int q = 0; q < 3; ++q) { Linear_Expression t(E[q].representation()); t.set_space_dimension(s.post[q].size() - 1);
      for (size_t i = 0; i < s.post[q].size(); ++i) if (s.post[q][i] != 0) X::set(t, i, Coefficient(s.post[q][i])); E[q].m_swap(t); } }
  else if (op == "set_coef") x.set_coefficient(Variable(s.a), Coefficient(s.b));
  else if (op == "set_raw") X::set(x, s.a, Coefficient(s.b));
  else if (op == "set_inhom") x.set_inhomogeneous_term(Coefficient(s.a));
  else if (op == "set_dim") x.set_space_dimension(s.a);
  else if (op == "add") x += y;
  else if (op == "sub") x -= y;
  else if (op == "mul") x *= Coefficient(s.a);
  else if (op == "neg") neg_assign(x);
  else if (op == "addvar") x += Variable(s.a);
  else if (op == "subvar") x -= Variable(s.a);
  else if (op == "addconst") x += Coefficient(s.a);
  else if (op == "subconst") x -= Coefficient(s.a);
  else if (op == "add_mul_var") add_mul_assign(x, Coefficient(s.a), Variable(s.b));
  else if (op == "sub_mul_var") sub_mul_assign(x, Coefficient(s.a), Variable(s.b));
  else if (op == "add_mul_expr") add_mul_assign(x, Coefficient(s.a), y);
  else if (op == "sub_mul_expr") sub_mul_assign(x, Coefficient(s.a), y);
  else if (op == "swap_dims") x.swap_space_dimensions(Variable(s.a), Variable(s.b));
  else if (op == "remove_dims") x.remove_space_dimensions(vset);
  else if (op == "shift_dims") x.shift_space_dimensions(Variable(s.a), s.b);
  else if (op == "permute") { std::vector<Variable> cyc; for (size_t i = 0; i < s.vs.size(); ++i) cyc.push_back(Variable(s.vs[i])); x.permute_space_dimensions(cyc); }
  else if (op == "lincomb_var") X::linear_combine_i(x, y, s.a + 1);  // the public overload taking a Variable is declared but not defined in the library
  else if (op == "lincomb") x.linear_combine(y, Coefficient(s.a), Coefficient(s.b));
  else if (op == "lincomb_lax") x.linear_combine_lax(y, Coefficient(s.a), Coefficient(s.b));
  else if (op == "lincomb_range") X::linear_combine(x, y, Coefficient(s.a), Coefficient(s.b), s.c, s.d);
  else if (op == "lincomb_lax_range") X::linear_combine_lax(x, y, Coefficient(s.a), Coefficient(s.b), s.c, s.d);
  else if (op == "mul_range") X::mul_assign(x, Coefficient(s.a), s.b, s.c);
  else if (op == "exact_div_range") X::exact_div_assign(x, Coefficient(s.a), s.b, s.c);
  else if (op == "negate_range") X::negate(x, s.a, s.b);
  else if (op == "normalize") x.normalize();
  else if (op == "sign_normalize") x.sign_normalize();
  else if (op == "assign") { if (stepno % 2) x = y; else { Linear_Expression t(y, x.representation()); x.m_swap(t); } }
  else if (op == "swap") { if (stepno % 2) swap(E[s.k - 1], E[s.j - 1]); else E[s.k - 1].m_swap(E[s.j - 1]); }
  else if (op == "copy_dim") { if (stepno % 2) { Linear_Expression t(y, (dimension_type) s.a, x.representation()); x.m_swap(t); } else { Linear_Expression t(y, (dimension_type) s.a); x.m_swap(t); } }
  else if (op == "set_repr") x.set_representation(x.representation() == DENSE ? SPARSE : DENSE);
  else if (op == "dumpload") { std::stringstream ss; x.ascii_dump(ss); std::string t1 = ss.str(); Linear_Expression t; if (!t.ascii_load(ss)) return "ascii_load-failed"; std::stringstream s2; t.ascii_dump(s2); if (s2.str() != t1) return "redump-differs"; x.m_swap(t); }
  else if (op == "bin_plus") { Linear_Expression t = E[s.a - 1] + y; x.m_swap(t); }
  else if (op == "bin_minus") { Linear_Expression t = E[s.a - 1] - y; x.m_swap(t); }
  else if (op == "bin_scale") { Linear_Expression t = (stepno % 2) ? Coefficient(s.a) * y : y * Coefficient(s.a); x.m_swap(t); }
  else {
    isobs = true; const Linear_Expression& cx = x;
    if (op == "is_zero") got = cx.is_zero();
    else if (op == "all_hom_zero") got = cx.all_homogeneous_terms_are_zero();
    else if (op == "is_equal_to") got = cx.is_equal_to(y);
    else if (op == "compare") got = compare(cx, y);
    else if (op == "all_zeroes") got = X::all_zeroes(cx, s.a, s.b);
    else if (op == "num_zeroes") got = X::num_zeroes(cx, s.a, s.b);
    else if (op == "gcd") { Coefficient g = X::gcd(cx, s.a, s.b); got = g.get_si(); }
    else if (op == "last_nonzero_range") got = X::last_nonzero(cx, s.a, s.b);
    else if (op == "first_nonzero_range") got = X::first_nonzero(cx, s.a, s.b);
    else if (op == "last_nonzero") got = X::last_nonzero(cx);
    else if (op == "all_zeroes_set") got = cx.all_zeroes(vset);
    else if (op == "all_zeroes_except") got = X::all_zeroes_except(cx, vset, s.a, s.b);
    else if (op == "have_common_var") got = X::have_a_common_variable(cx, y, Variable(s.a), Variable(s.b));
    else if (op == "scalar_product") { Coefficient r; X::scalar_product_assign(cx, r, y); got = r.get_si(); }
    else if (op == "scalar_product_sign") got = X::scalar_product_sign(cx, y);
    else if (op == "scalar_product_range") { Coefficient r; X::scalar_product_assign(cx, r, y, s.a, s.b); got = r.get_si(); }
    else if (op == "is_equal_range") got = X::is_equal_to(cx, y, s.a, s.b);
    else if (op == "is_equal_scaled") got = X::is_equal_to(cx, y, Coefficient(s.a), Coefficient(s.b), s.c, s.d);
    else if (op == "lower_bound") { Linear_Expression::const_iterator it = cx.lower_bound(Variable(s.a)); got = (it == cx.end()) ? (long) cx.space_dimension() : (long) it.variable().id(); }
    else return "unknown-op";
  }
  if (isobs && got != s.obs) return "observer-answer";
  return 0;
}

int main() {
  std::string line; std::vector<Step> beh; long nb = 0, bad = 0, steps = 0;
  const char* modes[4] = { "DDD", "SSS", "DSD", "SDS" };
  while (std::getline(std::cin, line)) {
    if (line == "BEGIN") { beh.clear(); ++nb; continue; }
    if (line == "END") {
      for (int m = 0; m < 4; ++m) {
        Linear_Expression E[3] = { Linear_Expression(modes[m][0] == 'D' ? DENSE : SPARSE), Linear_Expression(modes[m][1] == 'D' ? DENSE : SPARSE), Linear_Expression(modes[m][2] == 'D' ? DENSE : SPARSE) };
        for (size_t t = 0; t < beh.size(); ++t) {
          ++steps; const char* why = apply(E, beh[t], t + 1);
          for (int q = 0; q < 3 && !why; ++q) why = same(E[q], beh[t].post[q]);
          if (why) { ++bad; std::cout << "MISMATCH " << nb << " " << (t + 1) << " " << beh[t].op << " " << modes[m] << " " << why << "\n"; break; }
        }
      }
      continue;
    }
    std::istringstream is(line); Step s; size_t nvs; is >> s.op >> s.k >> s.j >> s.a >> s.b >> s.c >> s.d >> s.obs >> nvs; s.vs.resize(nvs); for (auto& v : s.vs) is >> v;
    for (int q = 0; q < 3; ++q) { size_t n; is >> n; s.post[q].resize(n); for (auto& v : s.post[q]) is >> v; }
    beh.push_back(s);
  }
  std::cout << "SUMMARY " << nb << " " << steps << " " << bad << "\n";
  return 0;
}
