// C06 harness: executes TLC-generated histories on MIP_Problem (one forked child per history, 6 s limit) and logs
// every call with its answer: solve() status, is_satisfiable(), feasible / optimizing point, optimal value,
// evaluate_objective_function(), exceptions, OK().  The problem data is NOT logged: the specification keeps it.
#include "ppl.hh"
#include "vjson.hh"
using namespace Parma_Polyhedra_Library;
typedef std::vector<long> LV;
static long L(const Coefficient& c) { long v = 0; Result r = assign_r(v, c, ROUND_DOWN); return (r == V_EQ && v < 1000000000 && v > -1000000000) ? v : 999999999; }
static Linear_Expression le(const LV& v, unsigned n) { Linear_Expression e; unsigned m = v.size() > 0 ? v.size() - 1 : 0; for (unsigned k = 0; k < m; ++k) e += v[k + 1] * Variable(k); if (n > m && n > 0) e += 0 * Variable(n - 1); if (!v.empty()) e += v[0]; return e; }
static Constraint mkc(const std::string& k, const LV& v, unsigned n) { Linear_Expression e = le(v, n); return k == "eq" ? Constraint(e == 0) : k == "gt" ? Constraint(e > 0) : Constraint(e >= 0); }
static std::string pt(const Generator& g, unsigned n) { LV p(n + 1); p[0] = L(g.divisor()); for (unsigned k = 0; k < n; ++k) p[k + 1] = (k < g.space_dimension()) ? L(g.coefficient(Variable(k))) : 0; return vj::arr(p); }
static LV rdv(std::istringstream& is) { size_t n; is >> n; LV v(n); for (size_t i = 0; i < n; ++i) is >> v[i]; return v; }
static void run_history(const std::vector<std::string>& lines, int fd) {
  vj::install_terminate(); vj::Writer W(fd); MIP_Problem* P = 0;
  W.line("{\"e\":\"Reset\"}");
  for (size_t t = 1; t < lines.size(); ++t) {
    std::istringstream is(lines[t]); std::string tag, op, k; long n, b; is >> tag >> op >> k >> n >> b; is >> tag; LV v = rdv(is); is >> tag; LV vs = rdv(is);
    size_t c; is >> tag >> c; std::vector<std::pair<std::string, LV> > cs; for (size_t i = 0; i < c; ++i) { std::string kk; is >> kk; LV r = rdv(is); cs.push_back(std::make_pair(kk, r)); }
    std::string exc = "", status = "", ptj = "[]"; bool rb = false; long num = 0, den = 1; bool ok = true;
    // announce the call first: a hang or crash is then attributed to it
    { vj::Obj a; a.s("e", "Call").s("op", op); W.line(a.str()); }
    try {
      if (op == "new") { delete P; P = new MIP_Problem(n); }
      else if (!P) exc = "dead";
      else if (op == "add_constraint") P->add_constraint(mkc(k, v, n));
      else if (op == "add_constraints") { Constraint_System s; for (size_t i = 0; i < cs.size(); ++i) s.insert(mkc(cs[i].first, cs[i].second, n)); P->add_constraints(s); }
      else if (op == "add_dims") P->add_space_dimensions_and_embed(b);
      else if (op == "add_ints") { Variables_Set s; for (size_t i = 0; i < vs.size(); ++i) s.insert(Variable(vs[i])); P->add_to_integer_space_dimensions(s); }
      else if (op == "set_obj") P->set_objective_function(le(v, n));
      else if (op == "set_mode") P->set_optimization_mode(b ? MAXIMIZATION : MINIMIZATION);
      else if (op == "pricing") P->set_control_parameter(b == 0 ? MIP_Problem::PRICING_STEEPEST_EDGE_FLOAT : b == 1 ? MIP_Problem::PRICING_STEEPEST_EDGE_EXACT : MIP_Problem::PRICING_TEXTBOOK);
      else if (op == "solve") { MIP_Problem_Status st = P->solve(); status = st == UNFEASIBLE_MIP_PROBLEM ? "unfeasible" : st == UNBOUNDED_MIP_PROBLEM ? "unbounded" : "optimized"; }
      else if (op == "is_satisfiable") rb = P->is_satisfiable();
      else if (op == "feasible_point") ptj = pt(P->feasible_point(), P->space_dimension());
      else if (op == "optimizing_point") ptj = pt(P->optimizing_point(), P->space_dimension());
      else if (op == "optimal_value") { Coefficient nu, de; P->optimal_value(nu, de); num = L(nu); den = L(de); }
      else if (op == "evaluate") { Coefficient nu, de; Linear_Expression e = le(v, n); e -= v[0]; P->evaluate_objective_function(point(e, v[0]), nu, de); num = L(nu); den = L(de); }
      else if (op == "copy") { MIP_Problem* q = new MIP_Problem(*P); delete P; P = q; }
      else if (op == "dumpload") { std::stringstream ss; P->ascii_dump(ss); std::string t1 = ss.str(); MIP_Problem* q = new MIP_Problem(); bool lo = q->ascii_load(ss); std::stringstream s2; q->ascii_dump(s2); rb = lo && s2.str() == t1; delete P; P = q; /* OK() of the loaded object is reported through the ok flag */ }
      else if (op == "clear") P->clear();
      else exc = "unknown-op";
    }
    catch (std::invalid_argument&) { exc = "invalid_argument"; } catch (std::length_error&) { exc = "length_error"; } catch (std::domain_error&) { exc = "domain_error"; }
    catch (std::overflow_error&) { exc = "overflow_error"; } catch (std::logic_error&) { exc = "logic_error"; } catch (std::bad_alloc&) { exc = "bad_alloc"; }
    catch (std::exception&) { exc = "exception"; }
    ok = !P || P->OK();
    std::vector<std::string> ccs; for (size_t i = 0; i < cs.size(); ++i) ccs.push_back(std::string("{\"k\":\"") + cs[i].first + "\",\"v\":" + vj::arr(cs[i].second) + "}");
    vj::Obj e; e.s("e", "Op").s("op", op).s("k", k).i("n", n).i("b", b).raw("v", vj::arr(v)).raw("vs", vj::arr(vs)).raw("cs", vj::arrs(ccs))
      .s("exc", exc).s("status", status).b("rb", rb).raw("pt", ptj).i("num", num).i("den", den).b("ok", ok).i("dim", P ? (long) P->space_dimension() : -1);
    W.line(e.str());
  }
}
int main(int argc, char** argv) { vj::for_each_history(std::cin, argc > 1 ? atoi(argv[1]) : 6, std::cout, run_history); return 0; }
