// C07 harness: seeded random parametric integer programs, solved fresh and then incrementally (more constraints,
// more variables / parameters) under every cutting and pivoting strategy; after each solve the whole solution tree is
// logged through the public node interface together with the problem data.  Each solve runs in a forked child
// (5 s limit): non-termination and crashes become "hang"/"crash" statuses.  No judgement here.
#include "ppl.hh"
#include <iostream>
#include <sstream>
#include <random>
#include <csignal>
#include <unistd.h>
#include <sys/wait.h>
#include <sys/resource.h>
using namespace Parma_Polyhedra_Library;
typedef std::mt19937 RNG;
static long L(const Coefficient& c) { long v = 0; Result r = assign_r(v, c, ROUND_DOWN); return (r == V_EQ && v < 100000000 && v > -100000000) ? v : 99999999; }
static std::string expr(const Linear_Expression& e, unsigned D) { std::ostringstream o; o << "[" << L(e.inhomogeneous_term()); for (unsigned k = 0; k < D; ++k) o << "," << ((k < e.space_dimension()) ? L(e.coefficient(Variable(k))) : 0); o << "]"; return o.str(); }
static std::string con(const Constraint& c, unsigned D) { std::ostringstream o; Linear_Expression e(c.expression()); o << "{\"k\":\"" << (c.is_equality() ? "eq" : c.is_strict_inequality() ? "gt" : "ge") << "\",\"v\":" << expr(e, D) << "}"; return o.str(); }
static std::string node(const PIP_Tree_Node* n, unsigned D0, const std::vector<unsigned>& vars) {
  if (!n) return "{\"kind\":\"bot\"}";
  std::ostringstream o; unsigned D = D0; o << "{\"art\":[";
  bool f = true;
  for (PIP_Tree_Node::Artificial_Parameter_Sequence::const_iterator i = n->art_parameter_begin(); i != n->art_parameter_end(); ++i) { if (!f) o << ","; f = false; Linear_Expression e(*i); o << "{\"e\":" << expr(e, D) << ",\"den\":" << L(i->denominator()) << "}"; ++D; }
  o << "],\"cs\":["; f = true; const Constraint_System& cs = n->constraints();
  for (Constraint_System::const_iterator i = cs.begin(); i != cs.end(); ++i) { if (!f) o << ","; f = false; o << con(*i, D); } o << "]";
  if (const PIP_Solution_Node* s = n->as_solution()) { o << ",\"kind\":\"sol\",\"sol\":["; for (size_t k = 0; k < vars.size(); ++k) { if (k) o << ","; o << expr(s->parametric_values(Variable(vars[k])), D); } o << "]"; }
  else { const PIP_Decision_Node* d = n->as_decision(); o << ",\"kind\":\"dec\",\"t\":" << node(d->child_node(true), D, vars) << ",\"f\":" << node(d->child_node(false), D, vars); }
  o << "}"; return o.str();
}
struct Data { unsigned D; std::vector<bool> is_par; std::vector<Constraint> cs; int bmax; Data() : D(0), bmax(7) {} };
static std::string data_json(const Data& d, int id, int step, int cut, int piv) {
  std::ostringstream o; std::vector<long> vars, pars; for (unsigned k = 0; k < d.D; ++k) (d.is_par[k] ? pars : vars).push_back(k);
  o << "\"id\":" << id << ",\"step\":" << step << ",\"bmax\":" << d.bmax << ",\"D\":" << d.D << ",\"cut\":" << cut << ",\"piv\":" << piv << ",\"vars\":["; for (size_t i = 0; i < vars.size(); ++i) o << (i ? "," : "") << vars[i];
  o << "],\"pars\":["; for (size_t i = 0; i < pars.size(); ++i) o << (i ? "," : "") << pars[i]; o << "],\"cs\":[";
  for (size_t i = 0; i < d.cs.size(); ++i) o << (i ? "," : "") << con(d.cs[i], d.D); o << "]"; return o.str();
}
static Constraint rnd_con(RNG& r, unsigned D, bool allow_strict) {
  std::uniform_int_distribution<int> cd(-2, 2), bd(-3, 3); Linear_Expression e; for (unsigned k = 0; k < D; ++k) e += cd(r) * Variable(k); e += 0 * Variable(D - 1); e += bd(r);
  int t = r() % 8; return t == 0 ? Constraint(e == 0) : (t == 1 && allow_strict) ? Constraint(e > 0) : Constraint(e >= 0);
}
int main(int argc, char** argv) {
  int N = atoi(argv[1]); RNG r(atoi(argv[2])); int wide = argc > 3 ? atoi(argv[3]) : 0;
  // profile "wide": 3 (one time in four 4) explicitly bounded variables, 2-5 constraints, solved fresh only -- enough columns for the
  // pivot-column selection to matter; the variables are bounded by 5, so the brute-force box of the specification is 0..5 ("bmax")
  for (int id = 0; id < N; ++id) {
    Data d; unsigned nv = wide ? (r() % 4 == 0 ? 4 : 3) : 1 + r() % 2, np = 1 + r() % 2; d.D = nv + np; d.is_par.assign(d.D, false); for (unsigned k = nv; k < d.D; ++k) d.is_par[k] = true;
    int nc = wide ? 2 + r() % 4 : 1 + r() % 3; for (int c = 0; c < nc; ++c) d.cs.push_back(rnd_con(r, d.D, !wide));
    if (wide) { d.bmax = 5; for (unsigned k = 0; k < nv; ++k) d.cs.push_back(Constraint(Variable(k) <= 5)); }
    int cut = r() % 3, piv = r() % 2; int nsteps = wide ? 1 : 1 + r() % 3;
    // the incremental script is drawn first so that the forked child and the parent agree on the data
    struct Inc { int kind; Constraint c; Inc() : kind(0), c(Constraint::zero_dim_positivity()) {} }; std::vector<Inc> incs(nsteps);
    Data cur = d; std::vector<Data> datas; datas.push_back(cur);
    for (int s = 1; s < nsteps; ++s) { Inc& in = incs[s]; in.kind = r() % 4;
      if (in.kind == 1 && cur.D < 4) { cur.D += 1; cur.is_par.push_back(false); }          // new variable
      else if (in.kind == 2 && cur.D < 4) { cur.D += 1; cur.is_par.push_back(true); }      // new parameter
      else { in.kind = 0; in.c = rnd_con(r, cur.D, true); cur.cs.push_back(in.c); }
      datas.push_back(cur); }
    std::cout.flush(); int fd[2]; if (pipe(fd)) return 1; pid_t pid = fork();
    if (pid == 0) { close(fd[0]);
      // the limit is on CPU time (independent of the load of the machine); the wall-clock alarm is only a backstop
      { struct rlimit rl; rl.rlim_cur = 6; rl.rlim_max = 8; setrlimit(RLIMIT_CPU, &rl); } alarm(120); std::ostringstream o; int done = 0;
      try {
        Variables_Set ps; for (unsigned k = 0; k < d.D; ++k) if (d.is_par[k]) ps.insert(Variable(k));
        PIP_Problem pip(d.D, d.cs.begin(), d.cs.end(), ps);
        pip.set_control_parameter(cut == 0 ? PIP_Problem::CUTTING_STRATEGY_FIRST : cut == 1 ? PIP_Problem::CUTTING_STRATEGY_DEEPEST : PIP_Problem::CUTTING_STRATEGY_ALL);
        pip.set_control_parameter(piv == 0 ? PIP_Problem::PIVOT_ROW_STRATEGY_FIRST : PIP_Problem::PIVOT_ROW_STRATEGY_MAX_COLUMN);
        for (int s = 0; s < nsteps; ++s) {
          if (s > 0) { const Inc& in = incs[s]; if (in.kind == 1) pip.add_space_dimensions_and_embed(1, 0); else if (in.kind == 2) pip.add_space_dimensions_and_embed(0, 1); else pip.add_constraint(in.c); }
          const Data& dd = datas[s]; std::vector<unsigned> vars; for (unsigned k = 0; k < dd.D; ++k) if (!dd.is_par[k]) vars.push_back(k);
          { std::string m = "@" + std::to_string(s) + "\n"; if (write(fd[1], m.data(), m.size()) < 0) _exit(3); }
          bool sat = (r() % 3 == 0) ? pip.is_satisfiable() : true; (void) sat;
          PIP_Problem_Status st = pip.solve();
          std::ostringstream l; l << "{" << data_json(dd, id, s, cut, piv) << ",\"status\":\"" << (st == UNFEASIBLE_PIP_PROBLEM ? "unfeasible" : "optimized") << "\",\"ok\":" << (pip.OK() ? "true" : "false")
            << ",\"tree\":" << node(st == OPTIMIZED_PIP_PROBLEM ? pip.solution() : 0, dd.D, vars) << "}\n";
          std::string ls = l.str(); if (write(fd[1], ls.data(), ls.size()) < 0) _exit(3); ++done;
        }
      } catch (std::exception& e) { std::string m = std::string("!exc ") + e.what() + "\n"; if (write(fd[1], m.data(), m.size()) < 0) _exit(3); }
      _exit(0); }
    close(fd[1]); std::string buf; char tmp[65536]; ssize_t k; while ((k = read(fd[0], tmp, sizeof tmp)) > 0) buf.append(tmp, k); close(fd[0]); int stt; waitpid(pid, &stt, 0);
    // forward complete result lines; a step announced with "@s" but not answered is a hang / crash / exception of that step
    std::istringstream is(buf); std::string line; int announced = -1, answered = -1; std::string excmsg;
    while (std::getline(is, line)) { if (line.empty()) continue; if (line[0] == '@') announced = atoi(line.c_str() + 1); else if (line[0] == '!') excmsg = line.substr(1); else if (line[line.size() - 1] == '}') { std::cout << line << "\n"; ++answered; } }
    if (announced > answered) { const Data& dd = datas[announced];
      std::string st = WIFSIGNALED(stt) ? ((WTERMSIG(stt) == SIGALRM || WTERMSIG(stt) == SIGXCPU || WTERMSIG(stt) == SIGKILL) ? "hang" : "crash") : (excmsg.empty() ? "crash" : "exception");
      std::cout << "{" << data_json(dd, id, announced, cut, piv) << ",\"status\":\"" << st << "\",\"ok\":true,\"tree\":{\"kind\":\"bot\"}}\n"; }
  }
  return 0;
}
