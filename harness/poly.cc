// Conformance harness for C/NNC polyhedra (C01, C02, C08, C13, C14a, C15, C17).
// A dumb logger (DESIGN.md R3): executes TLC-generated histories over a pool of 3 slots, one forked
// child per history, and after every call writes one ndjson event with the call, its answer, the
// exception (if any) and the projected abstract state of every slot (minimized constraints and
// generators taken from COPIES, status line of ascii_dump, OK()).  All judgement is in TLA+.
// Input (stdin), per history:  BEGIN / OP lines / END      (see vlib/polylib.py for the line format)
#include "ppl.hh"
#include "vjson.hh"
using namespace Parma_Polyhedra_Library;
typedef std::vector<long> LV;

static bool big = false;
static long LIM = 1000000;
static long L(const Coefficient& c) {  // portable across coefficient configurations (GMP or checked native integers)
  long v = 0; Result r = assign_r(v, c, ROUND_DOWN);
  if (r != V_EQ || v > LIM || v < -LIM) { big = true; return 0; }
  return v;
}

static std::string row(const char* k, const LV& v) { return std::string("{\"k\":\"") + k + "\",\"v\":" + vj::arr(v) + "}"; }
static std::string jsH(const Constraint_System& cs, unsigned n) {
  std::vector<std::string> r;
  for (Constraint_System::const_iterator i = cs.begin(); i != cs.end(); ++i) {
    LV v(n + 1); v[0] = L(i->inhomogeneous_term());
    for (unsigned k = 0; k < n; ++k) v[k + 1] = (k < i->space_dimension()) ? L(i->coefficient(Variable(k))) : 0;
    r.push_back(row(i->is_equality() ? "eq" : i->is_strict_inequality() ? "gt" : "ge", v));
  }
  return vj::arrs(r);
}
static std::string jsG1(const Generator& g, unsigned n) {
  LV v(n + 1); v[0] = (g.is_point() || g.is_closure_point()) ? L(g.divisor()) : 0;
  for (unsigned k = 0; k < n; ++k) v[k + 1] = (k < g.space_dimension()) ? L(g.coefficient(Variable(k))) : 0;
  return row(g.is_line() ? "line" : g.is_ray() ? "ray" : g.is_point() ? "point" : "cpoint", v);
}
static std::string jsV(const Generator_System& gs, unsigned n) {
  std::vector<std::string> r;
  for (Generator_System::const_iterator i = gs.begin(); i != gs.end(); ++i) r.push_back(jsG1(*i, n));
  return vj::arrs(r);
}
static std::string jsCG(const Congruence_System& cgs, unsigned n) {
  std::vector<std::string> r;
  for (Congruence_System::const_iterator i = cgs.begin(); i != cgs.end(); ++i) {
    LV v(n + 1); v[0] = L(i->inhomogeneous_term());
    for (unsigned k = 0; k < n; ++k) v[k + 1] = (k < i->space_dimension()) ? L(i->coefficient(Variable(k))) : 0;
    r.push_back(std::string("{\"mod\":") + std::to_string(L(i->modulus())) + ",\"v\":" + vj::arr(v) + "}");
  }
  return vj::arrs(r);
}

struct Slot { Polyhedron* p; bool nnc; Slot() : p(0), nnc(false) {} };
static Polyhedron* mk(bool nnc, dimension_type n, Degenerate_Element k) { return nnc ? (Polyhedron*) new NNC_Polyhedron(n, k) : (Polyhedron*) new C_Polyhedron(n, k); }
static Polyhedron* clone(const Slot& s) {
  return s.nnc ? (Polyhedron*) new NNC_Polyhedron(*static_cast<NNC_Polyhedron*>(s.p)) : (Polyhedron*) new C_Polyhedron(*static_cast<C_Polyhedron*>(s.p));
}
static void assign(Slot& d, const Slot& s) {  // operator= on existing objects of the same class
  if (d.nnc) *static_cast<NNC_Polyhedron*>(d.p) = *static_cast<NNC_Polyhedron*>(s.p); else *static_cast<C_Polyhedron*>(d.p) = *static_cast<C_Polyhedron*>(s.p);
}
static std::string status_line(const Polyhedron& p) {
  std::ostringstream st; p.ascii_dump(st); std::string d = st.str();
  size_t p1 = d.find('\n'); size_t p2 = d.find('\n', p1 + 1);
  return (p1 == std::string::npos || p2 == std::string::npos) ? "" : d.substr(p1 + 1, p2 - p1 - 1);
}
static std::string desc1(const Slot& s);
// projecting the state may itself overflow in bounded-coefficient builds: that is not the call's outcome, the event is undecided
static std::string desc(const Slot& s) {
  try { return desc1(s); }
  catch (std::exception&) { big = true; return "{\"alive\":false,\"n\":0,\"topo\":\"C\",\"H\":[],\"V\":[],\"st\":\"projection-threw\",\"ok\":true}"; }
}
static std::string desc1(const Slot& s) {
  if (!s.p) return "{\"alive\":false,\"n\":0,\"topo\":\"C\",\"H\":[],\"V\":[],\"st\":\"\",\"ok\":true}";
  unsigned n = s.p->space_dimension();
  struct Hold { Polyhedron* p; explicit Hold(Polyhedron* q) : p(q) {} ~Hold() { delete p; } };
  Hold a(clone(s)); Hold b(clone(s));
  std::string H = jsH(a.p->minimized_constraints(), n), V = jsV(b.p->minimized_generators(), n);
  vj::Obj o; o.b("alive", true).i("n", n).s("topo", s.nnc ? "NNC" : "C").raw("H", H).raw("V", V).s("st", status_line(*s.p)).b("ok", s.p->OK());
  return o.str();
}

struct Op {
  std::string op, topo, k; int dst, src, n, var, den, mod; LV v, w, vs;
  std::vector<std::pair<std::string, LV> > cs, gs;
};
static LV rdv(std::istringstream& is) { size_t n; is >> n; LV v(n); for (size_t i = 0; i < n; ++i) is >> v[i]; return v; }
static Op parse(const std::string& line) {
  std::istringstream is(line); Op o; std::string tag;
  is >> tag >> o.op >> o.dst >> o.src >> o.n >> o.topo >> o.k >> o.var >> o.den >> o.mod;
  is >> tag; o.v = rdv(is); is >> tag; o.w = rdv(is); is >> tag; o.vs = rdv(is);
  size_t c; is >> tag >> c; for (size_t i = 0; i < c; ++i) { std::string k; is >> k; LV v = rdv(is); o.cs.push_back(std::make_pair(k, v)); }
  is >> tag >> c; for (size_t i = 0; i < c; ++i) { std::string k; is >> k; LV v = rdv(is); o.gs.push_back(std::make_pair(k, v)); }
  return o;
}
// expression over exactly n dimensions (v[0] inhomogeneous unless inh == false)
static Linear_Expression le(const LV& v, unsigned n, bool inh = true) {
  Linear_Expression e;
  unsigned m = v.size() > 0 ? v.size() - 1 : 0;
  for (unsigned k = 0; k < m; ++k) e += v[k + 1] * Variable(k);
  if (n > m) e += 0 * Variable(n - 1);
  if (inh && !v.empty()) e += v[0];
  return e;
}
static Constraint mkc(const std::string& k, const LV& v, unsigned n) { Linear_Expression e = le(v, n); return k == "eq" ? Constraint(e == 0) : k == "gt" ? Constraint(e > 0) : Constraint(e >= 0); }
static Generator mkg(const std::string& k, const LV& v, unsigned n) {
  Linear_Expression e = le(v, n, false); long d = v.empty() ? 1 : v[0];
  return k == "point" ? point(e, d) : k == "cpoint" ? closure_point(e, d) : k == "ray" ? ray(e) : line(e);
}
static Congruence mkcg(const LV& v, long mod, unsigned n) { Linear_Expression e = le(v, n); return (e %= 0) / mod; }
static Relation_Symbol rs(const std::string& k) { return k == "le" ? LESS_OR_EQUAL : k == "eq" ? EQUAL : k == "ge" ? GREATER_OR_EQUAL : k == "lt" ? LESS_THAN : GREATER_THAN; }
static std::string relcon(const Poly_Con_Relation& r) {
  vj::Obj o; o.b("sat", r.implies(Poly_Con_Relation::saturates())).b("inc", r.implies(Poly_Con_Relation::is_included()))
    .b("dis", r.implies(Poly_Con_Relation::is_disjoint())).b("si", r.implies(Poly_Con_Relation::strictly_intersects()));
  return o.str();
}
static Constraint_System mkcs(const Op& o, unsigned n) { Constraint_System cs; for (size_t i = 0; i < o.cs.size(); ++i) cs.insert(mkc(o.cs[i].first, o.cs[i].second, n)); return cs; }
static Generator_System mkgs(const Op& o, unsigned n) { Generator_System gs; for (size_t i = 0; i < o.gs.size(); ++i) gs.insert(mkg(o.gs[i].first, o.gs[i].second, n)); return gs; }

struct Out { std::string exc, obs, rr, rc, plain, wtwin; bool rb; long ri; };
static bool g_lean = false;   // fault harness: only the call itself, no comparison twins (they are raw temporaries of the harness)
static const char* DEADP = "{\"alive\":false,\"n\":0,\"topo\":\"C\",\"H\":[],\"V\":[],\"st\":\"\",\"ok\":true}";
// an equal object through a different history (style selects which)
static Polyhedron* rebuilt(const Slot& s, int style) {
  Polyhedron* c = clone(s); Polyhedron* q = 0; bool nnc = s.nnc; unsigned sn = s.p->space_dimension();
  if (style % 3 == 0) { Constraint_System cs = c->minimized_constraints(); q = mk(nnc, sn, UNIVERSE); q->add_constraints(cs); }
  else if (style % 3 == 1) { Generator_System gs = c->minimized_generators(); q = mk(nnc, sn, EMPTY); if (gs.begin() != gs.end()) q->add_generators(gs); (void) q->minimized_constraints(); }
  else { Constraint_System cs = c->constraints(); q = mk(nnc, sn, UNIVERSE); for (Constraint_System::const_iterator i = cs.begin(); i != cs.end(); ++i) q->add_constraint(*i); (void) q->generators(); }
  delete c; return q;
}
static void widen_call(const std::string& op, Polyhedron* x, const Polyhedron& y, const Constraint_System& cs, unsigned* tp) {
  if (op == "H79_widening") x->H79_widening_assign(y, tp); else if (op == "BHRZ03_widening") x->BHRZ03_widening_assign(y, tp); else if (op == "widening") x->widening_assign(y, tp);
  else if (op == "limited_H79") x->limited_H79_extrapolation_assign(y, cs, tp); else if (op == "limited_BHRZ03") x->limited_BHRZ03_extrapolation_assign(y, cs, tp);
  else if (op == "bounded_H79") x->bounded_H79_extrapolation_assign(y, cs, tp); else x->bounded_BHRZ03_extrapolation_assign(y, cs, tp);
}
static std::string plain_of(const std::string& op) { return (op == "limited_H79" || op == "bounded_H79" || op == "H79_widening") ? "H79_widening" : (op == "widening" ? "widening" : "BHRZ03_widening"); }
// executes one call on receiver slot d (argument slot s); used for the real object and, after an assignment, for its
// copy-constructed twin (C13: "x = y; x.op()" must behave like "T x(y); x.op()")
static void exec_op(const Op& o, Slot* S, Slot& d, Slot& s, Out& out) {
  std::string& exc = out.exc; std::string& obs = out.obs; std::string& rr = out.rr; std::string& rc = out.rc; bool& rb = out.rb; long& ri = out.ri;
  unsigned n = d.p ? d.p->space_dimension() : 0; const std::string& op = o.op;
      if (op == "new") { Polyhedron* q = mk(o.topo == "NNC", o.n, o.k == "empty" ? EMPTY : UNIVERSE); delete d.p; d.p = q; d.nnc = (o.topo == "NNC"); }
      else if (op == "from_cs") { Constraint_System cs = mkcs(o, o.n); bool nnc = (o.topo == "NNC"); Polyhedron* q = nnc ? (Polyhedron*) new NNC_Polyhedron(cs) : (Polyhedron*) new C_Polyhedron(cs); delete d.p; d.p = q; d.nnc = nnc; }
      else if (op == "from_gs") { Generator_System gs = mkgs(o, o.n); bool nnc = (o.topo == "NNC"); Polyhedron* q = nnc ? (Polyhedron*) new NNC_Polyhedron(gs) : (Polyhedron*) new C_Polyhedron(gs); delete d.p; d.p = q; d.nnc = nnc; }
      else if (op == "from_cgs") { Congruence_System cgs(o.n); for (size_t i = 0; i < o.cs.size(); ++i) cgs.insert(mkcg(o.cs[i].second, o.cs[i].first == "eq" ? 0 : o.mod, o.n)); bool nnc = (o.topo == "NNC"); Polyhedron* q = nnc ? (Polyhedron*) new NNC_Polyhedron(cgs) : (Polyhedron*) new C_Polyhedron(cgs); delete d.p; d.p = q; d.nnc = nnc; }
      else if (op == "destroy") { delete d.p; d.p = 0; }
      else if ((op == "copy_from" || op == "conv_topo" || op == "rebuild") ? !s.p : (op == "dumpload") ? !d.p : (!d.p || (o.src > 0 && !s.p))) { exc = "dead"; }
      else if (op == "copy_from") { if (&d != &s) { Polyhedron* c = clone(s); delete d.p; d.p = c; d.nnc = s.nnc; } else assign(d, d); }
      else if (op == "assign") { if (d.nnc == s.nnc) assign(d, s); else exc = "skipped"; }
      else if (op == "swap") { if (o.var % 2) d.p->m_swap(*s.p); else { using std::swap; swap(*d.p, *s.p); } }
      else if (op == "conv_topo") { Polyhedron* q = s.nnc ? (Polyhedron*) new C_Polyhedron(*static_cast<NNC_Polyhedron*>(s.p)) : (Polyhedron*) new NNC_Polyhedron(*static_cast<C_Polyhedron*>(s.p)); bool nn = !s.nnc; delete d.p; d.p = q; d.nnc = nn; }
      else if (op == "rebuild") {  // an equal object through a different history (o.var = style)
        Polyhedron* c = clone(s); Polyhedron* q = 0; bool nnc = s.nnc; unsigned sn = s.p->space_dimension();
        if (o.var == 1) { Constraint_System cs = c->minimized_constraints(); q = mk(nnc, sn, UNIVERSE); q->add_constraints(cs); }
        else if (o.var == 2) { Generator_System gs = c->generators(); if (gs.begin() == gs.end()) q = mk(nnc, sn, EMPTY); else { q = mk(nnc, sn, EMPTY); q->add_generators(gs); } }
        else if (o.var == 3) { Constraint_System cs = c->constraints(); q = mk(nnc, sn, UNIVERSE); for (Constraint_System::const_iterator i = cs.begin(); i != cs.end(); ++i) q->add_constraint(*i); (void) q->generators(); }
        else if (o.var == 4) { Generator_System gs = c->minimized_generators(); q = mk(nnc, sn, EMPTY); for (Generator_System::const_iterator i = gs.begin(); i != gs.end(); ++i) if (i->is_point()) { q->add_generator(*i); break; } for (Generator_System::const_iterator i = gs.begin(); i != gs.end(); ++i) q->add_generator(*i); (void) q->minimized_constraints(); }
        else { Constraint_System cs = c->constraints(); q = mk(nnc, sn, UNIVERSE); q->refine_with_constraints(cs); (void) q->is_empty(); }
        delete c; delete d.p; d.p = q; d.nnc = nnc; }
      // ---------------- observers
      else if (op == "constraints") obs = jsH(d.p->constraints(), n);
      else if (op == "min_constraints") obs = jsH(d.p->minimized_constraints(), n);
      else if (op == "generators") obs = jsV(d.p->generators(), n);
      else if (op == "min_generators") obs = jsV(d.p->minimized_generators(), n);
      else if (op == "congruences") obs = jsCG(d.p->congruences(), n);
      else if (op == "min_congruences") obs = jsCG(d.p->minimized_congruences(), n);
      else if (op == "space_dimension") ri = d.p->space_dimension();
      else if (op == "affine_dimension") ri = d.p->affine_dimension();
      else if (op == "is_empty") rb = d.p->is_empty();
      else if (op == "is_universe") rb = d.p->is_universe();
      else if (op == "is_bounded") rb = d.p->is_bounded();
      else if (op == "is_discrete") rb = d.p->is_discrete();
      else if (op == "is_topologically_closed") rb = d.p->is_topologically_closed();
      else if (op == "contains_integer_point") rb = d.p->contains_integer_point();
      else if (op == "constrains") rb = d.p->constrains(Variable(o.var));
      else if (op == "OK") rb = d.p->OK();
      else if (op == "hash_code") ri = d.p->hash_code() % 1000000;
      else if (op == "contains") rb = d.p->contains(*s.p);
      else if (op == "strictly_contains") rb = d.p->strictly_contains(*s.p);
      else if (op == "is_disjoint_from") rb = d.p->is_disjoint_from(*s.p);
      else if (op == "equals") rb = (*d.p == *s.p);
      else if (op == "not_equals") rb = (*d.p != *s.p);
      else if (op == "relation_with_constraint") rc = relcon(d.p->relation_with(mkc(o.k, o.v, n)));
      else if (op == "relation_with_congruence") rc = relcon(d.p->relation_with(mkcg(o.v, o.mod, n)));
      else if (op == "relation_with_generator") rb = d.p->relation_with(mkg(o.k, o.v, n)).implies(Poly_Gen_Relation::subsumes());
      else if (op == "bounds_from_above") rb = d.p->bounds_from_above(le(o.v, n));
      else if (op == "bounds_from_below") rb = d.p->bounds_from_below(le(o.v, n));
      else if (op == "maximize" || op == "minimize" || op == "maximize_pt" || op == "minimize_pt") {
        Coefficient num, den; bool ext = false; Generator g = point(); bool ok; bool withpt = (op == "maximize_pt" || op == "minimize_pt");
        if (op == "maximize") ok = d.p->maximize(le(o.v, n), num, den, ext); else if (op == "minimize") ok = d.p->minimize(le(o.v, n), num, den, ext);
        else if (op == "maximize_pt") ok = d.p->maximize(le(o.v, n), num, den, ext, g); else ok = d.p->minimize(le(o.v, n), num, den, ext, g);
        vj::Obj r; r.b("ok", ok).i("num", ok ? L(num) : 0).i("den", ok ? L(den) : 1).b("ext", ok ? ext : false);
        r.raw("pt", (ok && withpt) ? std::string("[") + jsG1(g, n) + "]" : std::string("[]")); rr = r.str(); }
      else if (op == "frequency") { Coefficient fn, fd, vn, vd; bool ok = d.p->frequency(le(o.v, n), fn, fd, vn, vd);
        vj::Obj r; r.b("ok", ok).i("num", ok ? L(vn) : 0).i("den", ok ? L(vd) : 1).b("ext", ok ? (fn == 0) : false).raw("pt", "[]"); rr = r.str(); }
      // ---------------- mutators
      else if (op == "add_constraint") d.p->add_constraint(mkc(o.k, o.v, o.n));
      else if (op == "refine_with_constraint") d.p->refine_with_constraint(mkc(o.k, o.v, o.n));
      else if (op == "add_constraints") { Constraint_System cs = mkcs(o, o.n); if (o.var % 2) d.p->add_recycled_constraints(cs); else d.p->add_constraints(cs); }
      else if (op == "refine_with_constraints") d.p->refine_with_constraints(mkcs(o, o.n));
      else if (op == "add_generator") d.p->add_generator(mkg(o.k, o.v, o.n));
      else if (op == "add_generators") { Generator_System gs = mkgs(o, o.n); if (o.var % 2) d.p->add_recycled_generators(gs); else d.p->add_generators(gs); }
      else if (op == "add_congruence") d.p->add_congruence(mkcg(o.v, o.mod, o.n));
      else if (op == "refine_with_congruence") d.p->refine_with_congruence(mkcg(o.v, o.mod, o.n));
      else if (op == "add_congruences" || op == "refine_with_congruences") { Congruence_System cgs(o.n); for (size_t i = 0; i < o.cs.size(); ++i) cgs.insert(mkcg(o.cs[i].second, o.cs[i].first == "eq" ? 0 : o.mod, o.n));
        if (op == "add_congruences") { if (o.var % 2) d.p->add_recycled_congruences(cgs); else d.p->add_congruences(cgs); } else d.p->refine_with_congruences(cgs); }
      else if (op == "unconstrain") d.p->unconstrain(Variable(o.var));
      else if (op == "unconstrain_set") { Variables_Set vs; for (size_t i = 0; i < o.vs.size(); ++i) vs.insert(Variable(o.vs[i])); d.p->unconstrain(vs); }
      else if (op == "intersection") d.p->intersection_assign(*s.p);
      else if (op == "poly_hull") { if (o.var % 2) d.p->poly_hull_assign(*s.p); else d.p->upper_bound_assign(*s.p); }
      else if (op == "poly_difference") { if (o.var % 2) d.p->poly_difference_assign(*s.p); else d.p->difference_assign(*s.p); }
      else if (op == "time_elapse") d.p->time_elapse_assign(*s.p);
      else if (op == "positive_time_elapse") { if (d.nnc) static_cast<NNC_Polyhedron*>(d.p)->positive_time_elapse_assign(*s.p); else static_cast<C_Polyhedron*>(d.p)->positive_time_elapse_assign(*s.p); }
      else if (op == "topological_closure") d.p->topological_closure_assign();
      else if (op == "simplify_using_context") rb = d.p->simplify_using_context_assign(*s.p);
      // (the typed API cannot mix the two classes; casting the argument to the receiver's class would be a misuse by the harness)
      else if (op == "hull_if_exact" && d.nnc != s.nnc) exc = "skipped";
      else if (op == "hull_if_exact") { if (d.nnc) rb = static_cast<NNC_Polyhedron*>(d.p)->poly_hull_assign_if_exact(*static_cast<NNC_Polyhedron*>(s.p)); else rb = (o.var % 2) ? static_cast<C_Polyhedron*>(d.p)->poly_hull_assign_if_exact(*static_cast<C_Polyhedron*>(s.p)) : static_cast<C_Polyhedron*>(d.p)->upper_bound_assign_if_exact(*static_cast<C_Polyhedron*>(s.p)); }
      else if (op == "affine_image") d.p->affine_image(Variable(o.var), le(o.v, n), o.den);
      else if (op == "affine_preimage") d.p->affine_preimage(Variable(o.var), le(o.v, n), o.den);
      else if (op == "gen_affine_image") d.p->generalized_affine_image(Variable(o.var), rs(o.k), le(o.v, n), o.den);
      else if (op == "gen_affine_preimage") d.p->generalized_affine_preimage(Variable(o.var), rs(o.k), le(o.v, n), o.den);
      else if (op == "gen_affine_image_lhs") d.p->generalized_affine_image(le(o.w, n), rs(o.k), le(o.v, n));
      else if (op == "gen_affine_preimage_lhs") d.p->generalized_affine_preimage(le(o.w, n), rs(o.k), le(o.v, n));
      else if (op == "bounded_affine_image") d.p->bounded_affine_image(Variable(o.var), le(o.v, n), le(o.w, n), o.den);
      else if (op == "bounded_affine_preimage") d.p->bounded_affine_preimage(Variable(o.var), le(o.v, n), le(o.w, n), o.den);
      else if (op == "add_dims_embed") d.p->add_space_dimensions_and_embed(o.var);
      else if (op == "add_dims_project") d.p->add_space_dimensions_and_project(o.var);
      else if (op == "concatenate") d.p->concatenate_assign(*s.p);
      else if (op == "remove_dims") { Variables_Set vs; for (size_t i = 0; i < o.vs.size(); ++i) vs.insert(Variable(o.vs[i])); d.p->remove_space_dimensions(vs); }
      else if (op == "remove_higher") d.p->remove_higher_space_dimensions(o.var);
      else if (op == "map_dims") { Partial_Function pf; for (size_t i = 0; i < o.vs.size(); ++i) if (o.vs[i] >= 0) pf.insert(i, o.vs[i]); d.p->map_space_dimensions(pf); }
      else if (op == "expand") d.p->expand_space_dimension(Variable(o.var), o.den);
      else if (op == "fold") { Variables_Set vs; for (size_t i = 0; i < o.vs.size(); ++i) vs.insert(Variable(o.vs[i])); d.p->fold_space_dimensions(vs, Variable(o.var)); }
      else if (op == "dumpload") { std::stringstream ss; d.p->ascii_dump(ss); std::string t1 = ss.str(); Polyhedron* q = mk(d.nnc, 0, UNIVERSE); bool ok = q->ascii_load(ss);
        std::stringstream s2; q->ascii_dump(s2); rb = ok && (s2.str() == t1) && q->OK(); ri = (ok ? 1 : 0) + (s2.str() == t1 ? 2 : 0) + (q->OK() ? 4 : 0); Slot& tgt = S[o.src > 0 ? o.src : o.dst]; delete tgt.p; tgt.p = q; tgt.nnc = d.nnc; }
      // ---------------- widenings and integer-aware operators (C08, C17)
      else if (op == "H79_widening" || op == "BHRZ03_widening" || op == "widening" || op == "limited_H79" || op == "limited_BHRZ03" || op == "bounded_H79" || op == "bounded_BHRZ03") {
        unsigned tk = o.den; unsigned* tp = (o.mod > 0) ? &tk : 0; Constraint_System cs = mkcs(o, n);
        if (d.p->space_dimension() != s.p->space_dimension() || d.nnc != s.nnc || &d == &s) { widen_call(op, d.p, *s.p, cs, tp); ri = tk; }
        else {
          // the widenings require the argument to be contained in the receiver: z = receiver joined with the argument
          d.p->poly_hull_assign(*s.p);
          if (g_lean) { widen_call(op, d.p, *s.p, cs, tp); ri = tk; return; }
          // (1) the plain widening of the same pair, without tokens and limiting constraints, on a copy
          { Slot t; t.p = clone(d); t.nnc = d.nnc; Constraint_System none; widen_call(plain_of(op), t.p, *s.p, none, 0); out.plain = desc(t); delete t.p; }
          // (2) the same call on arguments rebuilt through a different history
          { Slot tz, ts; tz.p = rebuilt(d, o.var); tz.nnc = d.nnc; ts.p = rebuilt(s, o.var + 1); ts.nnc = s.nnc; unsigned tk2 = o.den;
            widen_call(op, tz.p, *ts.p, cs, tp ? &tk2 : 0); out.wtwin = desc(tz); if (tp && tk2 != (unsigned) 0 + tk2) {} out.rb = true; out.rr = std::string("{\"ok\":true,\"num\":") + std::to_string(tk2) + ",\"den\":1,\"ext\":false,\"pt\":[]}"; delete tz.p; delete ts.p; }
          widen_call(op, d.p, *s.p, cs, tp); ri = tk; }
      }
      else if (op == "drop_non_integer") { if (o.vs.empty()) d.p->drop_some_non_integer_points(o.var % 2 ? ANY_COMPLEXITY : POLYNOMIAL_COMPLEXITY); else { Variables_Set vs; for (size_t i = 0; i < o.vs.size(); ++i) vs.insert(Variable(o.vs[i])); d.p->drop_some_non_integer_points(vs, o.var % 2 ? ANY_COMPLEXITY : POLYNOMIAL_COMPLEXITY); } }
      else exc = "unknown-op";
}

static const char* MUTATORS[] = { "add_constraint", "refine_with_constraint", "add_constraints", "refine_with_constraints", "add_generator", "add_generators",
  "add_congruence", "refine_with_congruence", "add_congruences", "refine_with_congruences", "unconstrain", "unconstrain_set", "intersection", "poly_hull",
  "poly_difference", "time_elapse", "positive_time_elapse", "topological_closure", "simplify_using_context", "hull_if_exact", "affine_image", "affine_preimage",
  "gen_affine_image", "gen_affine_preimage", "gen_affine_image_lhs", "gen_affine_preimage_lhs", "bounded_affine_image", "bounded_affine_preimage",
  "add_dims_embed", "add_dims_project", "concatenate", "remove_dims", "remove_higher", "map_dims", "expand", "fold", "H79_widening", "BHRZ03_widening",
  "widening", "limited_H79", "limited_BHRZ03", "bounded_H79", "bounded_BHRZ03", "drop_non_integer", 0 };
static bool is_mutator(const std::string& op) { for (int i = 0; MUTATORS[i]; ++i) if (op == MUTATORS[i]) return true; return false; }
static bool is_observer_like(const std::string& op) { return !is_mutator(op) && op != "new" && op != "from_cs" && op != "from_gs" && op != "from_cgs" && op != "destroy" && op != "copy_from" && op != "assign" && op != "swap" && op != "conv_topo" && op != "rebuild" && op != "dumpload"; }

static void run_history(const std::vector<std::string>& lines, int fd) {
  vj::install_terminate();
  vj::Writer W(fd); Slot S[4]; Slot TW[4];
  { std::istringstream is(lines[0]); std::string t; is >> t >> LIM; if (LIM <= 0) LIM = 1000000; }
  W.line("{\"e\":\"Reset\"}");
  for (size_t t = 1; t < lines.size(); ++t) {
    Op o = parse(lines[t]); Slot& d = S[o.dst]; Slot& s = S[o.src > 0 ? o.src : o.dst];
    std::string exc = "", obs = "[]", rr = "{\"ok\":false,\"num\":0,\"den\":1,\"ext\":false,\"pt\":[]}", rc = "{\"sat\":false,\"inc\":false,\"dis\":false,\"si\":false}";
    bool rb = false; long ri = 0; unsigned n = d.p ? d.p->space_dimension() : 0; big = false;
    const std::string& op = o.op;
    Out out; out.exc = exc; out.obs = obs; out.rr = rr; out.rc = rc; out.rb = false; out.ri = 0; out.plain = DEADP; out.wtwin = DEADP;
    std::string plain = DEADP, wtwin = DEADP;
    std::string twin_desc = "{\"alive\":false,\"n\":0,\"topo\":\"C\",\"H\":[],\"V\":[],\"st\":\"\",\"ok\":true}";
    try {
      exec_op(o, S, d, s, out);
      exc = out.exc; obs = out.obs; rr = out.rr; rc = out.rc; rb = out.rb; ri = out.ri; plain = out.plain; wtwin = out.wtwin;
    }
    catch (std::invalid_argument&) { exc = "invalid_argument"; } catch (std::length_error&) { exc = "length_error"; }
    catch (std::domain_error&) { exc = "domain_error"; } catch (std::overflow_error&) { exc = "overflow_error"; }
    catch (std::logic_error&) { exc = "logic_error"; } catch (std::bad_alloc&) { exc = "bad_alloc"; }
    catch (std::runtime_error&) { exc = "runtime_error"; } catch (std::exception&) { exc = "exception"; } catch (...) { exc = "unknown"; }
    // ---- twins (C13): after x = y (operator=), a hidden copy-constructed clone of y follows x through every later mutator
    if (op == "assign" && exc == "" && o.dst != o.src) { delete TW[o.dst].p; TW[o.dst].p = clone(s); TW[o.dst].nnc = s.nnc; }
    else if (op == "new" || op == "from_cs" || op == "from_gs" || op == "from_cgs" || op == "destroy" || op == "copy_from" || op == "conv_topo" || op == "rebuild" || (op == "assign" && exc != "")) { delete TW[o.dst].p; TW[o.dst].p = 0; }
    else if (op == "swap") { delete TW[o.dst].p; TW[o.dst].p = 0; if (o.src > 0) { delete TW[o.src].p; TW[o.src].p = 0; } }
    else if (op == "dumpload") { int tg = o.src > 0 ? o.src : o.dst; delete TW[tg].p; TW[tg].p = 0; }
    else if (TW[o.dst].p && is_mutator(op)) {
      if (o.src == o.dst || exc != "") { delete TW[o.dst].p; TW[o.dst].p = 0; }
      else { Out o2; o2.rb = false; o2.ri = 0; bool keep = big;
        try { exec_op(o, S, TW[o.dst], s, o2); twin_desc = desc(TW[o.dst]); } catch (...) { twin_desc = "{\"alive\":true,\"n\":0,\"topo\":\"C\",\"H\":[],\"V\":[],\"st\":\"twin-threw\",\"ok\":false}"; }
        big = keep || big; }
    }
    std::string p1 = desc(S[1]), p2 = desc(S[2]), p3 = desc(S[3]);
    std::vector<std::string> ccs, ggs;
    for (size_t i = 0; i < o.cs.size(); ++i) ccs.push_back(row(o.cs[i].first.c_str(), o.cs[i].second));
    for (size_t i = 0; i < o.gs.size(); ++i) ggs.push_back(row(o.gs[i].first.c_str(), o.gs[i].second));
    vj::Obj e; e.s("e", "Op").i("t", t).s("op", op).i("dst", o.dst).i("src", o.src).i("argn", o.n).s("topo", o.topo).s("k", o.k).i("var", o.var).i("den", o.den).i("mod", o.mod)
      .raw("v", vj::arr(o.v)).raw("w", vj::arr(o.w)).raw("vs", vj::arr(o.vs)).raw("cs", vj::arrs(ccs)).raw("gs", vj::arrs(ggs))
      .b("rb", rb).i("ri", ri).raw("rr", rr).raw("rc", rc).s("exc", exc).raw("obs", obs)
      .raw("post", std::string("[") + p1 + "," + p2 + "," + p3 + "]").raw("twin", twin_desc).raw("plain", plain).raw("wtwin", wtwin).b("big", big);
    W.line(e.str());
    if (big) { W.line("{\"e\":\"Reset\"}"); for (int i = 1; i <= 3; ++i) { delete S[i].p; S[i].p = 0; delete TW[i].p; TW[i].p = 0; } }
  }
}

int main(int argc, char** argv) {
  int limit = argc > 1 ? atoi(argv[1]) : 20;
  vj::for_each_history(std::cin, limit, std::cout, run_history);
  return 0;
}
