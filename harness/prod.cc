// Conformance harness for partially reduced products (C10).  One executable per (first component, second component, reduction):
//   -DVD1=1..6 / -DVD2=1..6 : 1 C_Polyhedron, 2 NNC_Polyhedron, 3 Grid, 4 Rational_Box, 5 BD_Shape<mpq_class>, 6 Octagonal_Shape<mpq_class>
//   -DVRED=0 none (direct), 1 smash, 2 constraints, 3 congruences, 4 shape preserving
// Same history format as the other pool harnesses (specs/poly/PolyHist.tla with Shape = "prod").  After every call one ndjson event
// carries the call, its answer and, for every slot, BOTH components as constraint and congruence systems taken from a copy (reading
// a component reduces the product, so the original is never asked).  No judgement here: see specs/prod/ProdTrace.tla.
#include "ppl.hh"
#include "vjson.hh"
using namespace Parma_Polyhedra_Library;
typedef std::vector<long> LV;
template <int K> struct Dom;
template <> struct Dom<1> { typedef C_Polyhedron T; static const char* name() { return "C_Polyhedron"; } };
template <> struct Dom<2> { typedef NNC_Polyhedron T; static const char* name() { return "NNC_Polyhedron"; } };
template <> struct Dom<3> { typedef Grid T; static const char* name() { return "Grid"; } };
template <> struct Dom<4> { typedef Rational_Box T; static const char* name() { return "Rational_Box"; } };
template <> struct Dom<5> { typedef BD_Shape<mpq_class> T; static const char* name() { return "BD_Shape"; } };
template <> struct Dom<6> { typedef Octagonal_Shape<mpq_class> T; static const char* name() { return "Octagonal_Shape"; } };
typedef Dom<VD1>::T D1; typedef Dom<VD2>::T D2;
#if VRED == 0
typedef Domain_Product<D1, D2>::Direct_Product D; static const char* RED = "none";
#elif VRED == 1
typedef Domain_Product<D1, D2>::Smash_Product D; static const char* RED = "smash";
#elif VRED == 2
typedef Domain_Product<D1, D2>::Constraints_Product D; static const char* RED = "constraints";
#elif VRED == 3
typedef Domain_Product<D1, D2>::Congruences_Product D; static const char* RED = "congruences";
#else
typedef Domain_Product<D1, D2>::Shape_Preserving_Product D; static const char* RED = "shape";
#endif
static bool big = false;       // some coefficient of the event did not fit: the event is undecided unless only result rows are big
static bool rowbig = false;
static long LIM = 100000;
static bool fits(const Coefficient& c, long& v) { Result r = assign_r(v, c, ROUND_DOWN); return r == V_EQ && v <= LIM && v >= -LIM; }
static long L(const Coefficient& c) { long v = 0; if (!fits(c, v)) { big = true; return 0; } return v; }
static std::string limbs(const Coefficient& c) {
  mpz_class z; assign_r(z, c, ROUND_NOT_NEEDED); int s = sgn(z); z = abs(z);
  std::ostringstream o; o << "{\"s\":" << s << ",\"m\":[";
  bool first = true; while (z != 0) { mpz_class r = z % 16384; z /= 16384; if (!first) o << ","; first = false; o << r.get_si(); }
  o << "]}"; return o.str();
}
static std::string row(const char* k, const LV& v) { return std::string("{\"k\":\"") + k + "\",\"v\":" + vj::arr(v) + "}"; }
static const char* kind(const Constraint& c) { return c.is_equality() ? "eq" : c.is_strict_inequality() ? "gt" : "ge"; }
// small rows go to H, rows with a big coefficient to HB (all coefficients as limb records)
static void jsHsplit(const Constraint_System& cs, unsigned n, std::string& H, std::string& HB, bool& anybig) {
  std::vector<std::string> h, hb; anybig = false;
  for (Constraint_System::const_iterator i = cs.begin(); i != cs.end(); ++i) {
    LV v(n + 1); bool ok = fits(i->inhomogeneous_term(), v[0]);
    for (unsigned k = 0; k < n; ++k) { if (k < i->space_dimension()) ok = fits(i->coefficient(Variable(k)), v[k + 1]) && ok; else v[k + 1] = 0; }
    if (ok) h.push_back(row(kind(*i), v));
    else { anybig = true; std::vector<std::string> b; b.push_back(limbs(i->inhomogeneous_term()));
      for (unsigned k = 0; k < n; ++k) b.push_back(k < i->space_dimension() ? limbs(i->coefficient(Variable(k))) : std::string("{\"s\":0,\"m\":[]}"));
      hb.push_back(std::string("{\"k\":\"") + kind(*i) + "\",\"b\":" + vj::arrs(b) + "}"); }
  }
  H = vj::arrs(h); HB = vj::arrs(hb);
}
static std::string jsH(const Constraint_System& cs, unsigned n) {
  std::vector<std::string> r;
  for (Constraint_System::const_iterator i = cs.begin(); i != cs.end(); ++i) {
    LV v(n + 1); v[0] = L(i->inhomogeneous_term());
    for (unsigned k = 0; k < n; ++k) v[k + 1] = (k < i->space_dimension()) ? L(i->coefficient(Variable(k))) : 0;
    r.push_back(row(kind(*i), v));
  }
  return vj::arrs(r);
}
static std::string jsG1(const Generator& g, unsigned n) {
  LV v(n + 1); v[0] = (g.is_point() || g.is_closure_point()) ? L(g.divisor()) : 0;
  for (unsigned k = 0; k < n; ++k) v[k + 1] = (k < g.space_dimension()) ? L(g.coefficient(Variable(k))) : 0;
  return row(g.is_line() ? "line" : g.is_ray() ? "ray" : g.is_point() ? "point" : "cpoint", v);
}
static std::string jsV(const Generator_System& gs, unsigned n) {
  std::vector<std::string> r;
  for (Generator_System::const_iterator i = gs.begin(); i != gs.end(); ++i) r.push_back(jsG1(*i, n));
  return vj::arrs(r);
}
static std::string jsCG(const Congruence_System& cgs, unsigned n) {
  std::vector<std::string> r;
  for (Congruence_System::const_iterator i = cgs.begin(); i != cgs.end(); ++i) {
    LV v(n + 1); v[0] = L(i->inhomogeneous_term());
    for (unsigned k = 0; k < n; ++k) v[k + 1] = (k < i->space_dimension()) ? L(i->coefficient(Variable(k))) : 0;
    r.push_back(std::string("{\"mod\":") + std::to_string(L(i->modulus())) + ",\"v\":" + vj::arr(v) + "}");
  }
  return vj::arrs(r);
}


struct Slot { D* p; Slot() : p(0) {} };
static const char* DEAD = "{\"alive\":false,\"n\":0,\"c1\":[],\"g1\":[],\"c2\":[],\"g2\":[],\"ok\":true}";
template <typename X> static std::string comp(const X& x, unsigned n, const char* ck, const char* gk) {
  X a(x), b(x);
  return std::string("\"") + ck + "\":" + jsH(a.constraints(), n) + ",\"" + gk + "\":" + jsCG(b.congruences(), n);
}
static std::string desc1(const Slot& s) {
  if (!s.p) return DEAD;
  unsigned n = s.p->space_dimension();
  D c(*s.p);
  std::ostringstream o; o << "{\"alive\":true,\"n\":" << n << "," << comp(c.domain1(), n, "c1", "g1") << "," << comp(c.domain2(), n, "c2", "g2") << ",\"ok\":" << (s.p->OK() ? "true" : "false") << "}";
  return o.str();
}
static std::string desc(const Slot& s) {
  try { return desc1(s); }
  catch (std::exception&) { big = true; return DEAD; }
}
struct Op {
  std::string op, topo, k; int dst, src, n, var, den, mod; LV v, w, vs;
  std::vector<std::pair<std::string, LV> > cs, gs;
};
static LV rdv(std::istringstream& is) { size_t n; is >> n; LV v(n); for (size_t i = 0; i < n; ++i) is >> v[i]; return v; }
static Op parse(const std::string& line) {
  std::istringstream is(line); Op o; std::string tag;
  is >> tag >> o.op >> o.dst >> o.src >> o.n >> o.topo >> o.k >> o.var >> o.den >> o.mod;
  is >> tag; o.v = rdv(is); is >> tag; o.w = rdv(is); is >> tag; o.vs = rdv(is);
  size_t c; is >> tag >> c; for (size_t i = 0; i < c; ++i) { std::string k; is >> k; LV v = rdv(is); o.cs.push_back(std::make_pair(k, v)); }
  is >> tag >> c; for (size_t i = 0; i < c; ++i) { std::string k; is >> k; LV v = rdv(is); o.gs.push_back(std::make_pair(k, v)); }
  return o;
}
static Linear_Expression le(const LV& v, unsigned n, bool inh = true) {
  Linear_Expression e;
  unsigned m = v.size() > 0 ? v.size() - 1 : 0;
  for (unsigned k = 0; k < m; ++k) e += v[k + 1] * Variable(k);
  if (n > m) e += 0 * Variable(n - 1);
  if (inh && !v.empty()) e += v[0];
  return e;
}
static Constraint mkc(const std::string& k, const LV& v, unsigned n) { Linear_Expression e = le(v, n); return k == "eq" ? Constraint(e == 0) : k == "gt" ? Constraint(e > 0) : Constraint(e >= 0); }
static Generator mkg(const std::string& k, const LV& v, unsigned n) {
  Linear_Expression e = le(v, n, false); long d = v.empty() ? 1 : v[0];
  return k == "point" ? point(e, d) : k == "cpoint" ? closure_point(e, d) : k == "ray" ? ray(e) : line(e);
}
static Congruence mkcg(const LV& v, long mod, unsigned n) { Linear_Expression e = le(v, n); return (e %= 0) / mod; }
static Relation_Symbol rs(const std::string& k) { return k == "le" ? LESS_OR_EQUAL : k == "eq" ? EQUAL : k == "ge" ? GREATER_OR_EQUAL : k == "lt" ? LESS_THAN : GREATER_THAN; }
static std::string relcon(const Poly_Con_Relation& r) {
  vj::Obj o; o.b("sat", r.implies(Poly_Con_Relation::saturates())).b("inc", r.implies(Poly_Con_Relation::is_included()))
    .b("dis", r.implies(Poly_Con_Relation::is_disjoint())).b("si", r.implies(Poly_Con_Relation::strictly_intersects()));
  return o.str();
}
static Constraint_System mkcs(const Op& o, unsigned n) { Constraint_System cs; for (size_t i = 0; i < o.cs.size(); ++i) cs.insert(mkc(o.cs[i].first, o.cs[i].second, n)); return cs; }
static Generator_System mkgs(const Op& o, unsigned n) { Generator_System gs; for (size_t i = 0; i < o.gs.size(); ++i) gs.insert(mkg(o.gs[i].first, o.gs[i].second, n)); return gs; }
static Complexity_Class cx(int v) { return v % 3 == 1 ? ANY_COMPLEXITY : v % 3 == 2 ? SIMPLEX_COMPLEXITY : POLYNOMIAL_COMPLEXITY; }

struct Out { std::string exc, obs, rr, rc; bool rb; long ri; };
static void exec_op(const Op& o, Slot* S, Slot& d, Slot& s, Out& out) {
  std::string& exc = out.exc; std::string& rr = out.rr; std::string& rc = out.rc; bool& rb = out.rb; long& ri = out.ri;
  unsigned n = d.p ? d.p->space_dimension() : 0; const std::string& op = o.op;
      if (op == "new") { D* q = new D(o.n, o.k == "empty" ? EMPTY : UNIVERSE); delete d.p; d.p = q; }
      else if (op == "from_cs") { Constraint_System cs = mkcs(o, o.n); D* q = new D(o.n, UNIVERSE); q->refine_with_constraints(cs); delete d.p; d.p = q; }
      else if (op == "from_cgs") { Congruence_System cgs(o.n); for (size_t i = 0; i < o.cs.size(); ++i) cgs.insert(mkcg(o.cs[i].second, o.cs[i].first == "eq" ? 0 : o.mod, o.n)); D* q = new D(o.n, UNIVERSE); q->refine_with_congruences(cgs); delete d.p; d.p = q; }
      else if (op == "destroy") { delete d.p; d.p = 0; }
      else if ((op == "copy_from") ? !s.p : (op == "dumpload") ? !d.p : (!d.p || (o.src > 0 && !s.p))) { exc = "dead"; }
      else if (op == "copy_from") { if (&d != &s) { D* c = new D(*s.p); delete d.p; d.p = c; } else *d.p = *d.p; }
      else if (op == "assign") { *d.p = *s.p; }
      else if (op == "swap") { if (o.var % 2) d.p->m_swap(*s.p); else { using std::swap; swap(*d.p, *s.p); } }
      else if (op == "dumpload") { std::stringstream ss; d.p->ascii_dump(ss); std::string t1 = ss.str(); D* q = new D(0, UNIVERSE); bool ok = q->ascii_load(ss);
        std::stringstream s2; q->ascii_dump(s2); ri = (ok ? 1 : 0) + (s2.str() == t1 ? 2 : 0) + (q->OK() ? 4 : 0); rb = (ri == 7); Slot& tgt = S[o.src > 0 ? o.src : o.dst]; delete tgt.p; tgt.p = q; }
      // ---------------- observers
      else if (op == "reduce") rb = d.p->reduce();
      else if (op == "space_dimension") ri = d.p->space_dimension();
      else if (op == "affine_dimension") ri = d.p->affine_dimension();
      else if (op == "is_empty") rb = d.p->is_empty();
      else if (op == "is_universe") rb = d.p->is_universe();
      else if (op == "is_bounded") rb = d.p->is_bounded();
      else if (op == "is_discrete") rb = d.p->is_discrete();
      else if (op == "is_topologically_closed") rb = d.p->is_topologically_closed();
      else if (op == "constrains") rb = d.p->constrains(Variable(o.var));
      else if (op == "OK") rb = d.p->OK();
      else if (op == "contains") rb = d.p->contains(*s.p);
      else if (op == "strictly_contains") rb = d.p->strictly_contains(*s.p);
      else if (op == "is_disjoint_from") rb = d.p->is_disjoint_from(*s.p);
      else if (op == "equals") rb = (*d.p == *s.p);
      else if (op == "not_equals") rb = (*d.p != *s.p);
      else if (op == "constraints" || op == "min_constraints") { out.obs = jsH(op == "constraints" ? d.p->constraints() : d.p->minimized_constraints(), n); }
      else if (op == "congruences" || op == "min_congruences") { out.obs = jsCG(op == "congruences" ? d.p->congruences() : d.p->minimized_congruences(), n); }
      else if (op == "relation_with_constraint") rc = relcon(d.p->relation_with(mkc(o.k, o.v, n)));
      else if (op == "relation_with_congruence") rc = relcon(d.p->relation_with(mkcg(o.v, o.mod, n)));
      else if (op == "relation_with_generator") rb = d.p->relation_with(mkg(o.k, o.v, n)).implies(Poly_Gen_Relation::subsumes());
      else if (op == "bounds_from_above") rb = d.p->bounds_from_above(le(o.v, n));
      else if (op == "bounds_from_below") rb = d.p->bounds_from_below(le(o.v, n));
      else if (op == "maximize" || op == "minimize" || op == "maximize_pt" || op == "minimize_pt") {
        Coefficient num, den; bool ext = false; Generator g = point(); bool ok; bool withpt = (op == "maximize_pt" || op == "minimize_pt");
        if (op == "maximize") ok = d.p->maximize(le(o.v, n), num, den, ext); else if (op == "minimize") ok = d.p->minimize(le(o.v, n), num, den, ext);
        else if (op == "maximize_pt") ok = d.p->maximize(le(o.v, n), num, den, ext, g); else ok = d.p->minimize(le(o.v, n), num, den, ext, g);
        vj::Obj r; r.b("ok", ok).i("num", ok ? L(num) : 0).i("den", ok ? L(den) : 1).b("ext", ok ? ext : false);
        r.raw("pt", (ok && withpt) ? std::string("[") + jsG1(g, n) + "]" : std::string("[]")); rr = r.str(); }
      // ---------------- mutators
      else if (op == "add_constraint") d.p->add_constraint(mkc(o.k, o.v, o.n));
      else if (op == "refine_with_constraint") d.p->refine_with_constraint(mkc(o.k, o.v, o.n));
      else if (op == "add_constraints") { Constraint_System cs = mkcs(o, o.n); if (o.var % 2) d.p->add_recycled_constraints(cs); else d.p->add_constraints(cs); }
      else if (op == "refine_with_constraints") d.p->refine_with_constraints(mkcs(o, o.n));
      else if (op == "add_congruence") d.p->add_congruence(mkcg(o.v, o.mod, o.n));
      else if (op == "refine_with_congruence") d.p->refine_with_congruence(mkcg(o.v, o.mod, o.n));
      else if (op == "add_congruences" || op == "refine_with_congruences") { Congruence_System cgs(o.n); for (size_t i = 0; i < o.cs.size(); ++i) cgs.insert(mkcg(o.cs[i].second, o.cs[i].first == "eq" ? 0 : o.mod, o.n));
        if (op == "add_congruences") { if (o.var % 2) d.p->add_recycled_congruences(cgs); else d.p->add_congruences(cgs); } else d.p->refine_with_congruences(cgs); }
      else if (op == "unconstrain") d.p->unconstrain(Variable(o.var));
      else if (op == "unconstrain_set") { Variables_Set vs; for (size_t i = 0; i < o.vs.size(); ++i) vs.insert(Variable(o.vs[i])); d.p->unconstrain(vs); }
      else if (op == "intersection") d.p->intersection_assign(*s.p);
      else if (op == "poly_hull") d.p->upper_bound_assign(*s.p);
      else if (op == "hull_if_exact") rb = d.p->upper_bound_assign_if_exact(*s.p);
      else if (op == "poly_difference") d.p->difference_assign(*s.p);
      else if (op == "time_elapse") d.p->time_elapse_assign(*s.p);
      else if (op == "topological_closure") d.p->topological_closure_assign();
      else if (op == "affine_image") d.p->affine_image(Variable(o.var), le(o.v, n), o.den);
      else if (op == "affine_preimage") d.p->affine_preimage(Variable(o.var), le(o.v, n), o.den);
      else if (op == "gen_affine_image") d.p->generalized_affine_image(Variable(o.var), rs(o.k), le(o.v, n), o.den);
      else if (op == "gen_affine_preimage") d.p->generalized_affine_preimage(Variable(o.var), rs(o.k), le(o.v, n), o.den);
      else if (op == "gen_affine_image_lhs") d.p->generalized_affine_image(le(o.w, n), rs(o.k), le(o.v, n));
      else if (op == "gen_affine_preimage_lhs") d.p->generalized_affine_preimage(le(o.w, n), rs(o.k), le(o.v, n));
      else if (op == "bounded_affine_image") d.p->bounded_affine_image(Variable(o.var), le(o.v, n), le(o.w, n), o.den);
      else if (op == "bounded_affine_preimage") d.p->bounded_affine_preimage(Variable(o.var), le(o.v, n), le(o.w, n), o.den);
      else if (op == "add_dims_embed") d.p->add_space_dimensions_and_embed(o.var);
      else if (op == "add_dims_project") d.p->add_space_dimensions_and_project(o.var);
      else if (op == "concatenate") d.p->concatenate_assign(*s.p);
      else if (op == "remove_dims") { Variables_Set vs; for (size_t i = 0; i < o.vs.size(); ++i) vs.insert(Variable(o.vs[i])); d.p->remove_space_dimensions(vs); }
      else if (op == "remove_higher") d.p->remove_higher_space_dimensions(o.var);
      else if (op == "map_dims") { Partial_Function pf; for (size_t i = 0; i < o.vs.size(); ++i) if (o.vs[i] >= 0) pf.insert(i, o.vs[i]); d.p->map_space_dimensions(pf); }
      else if (op == "expand") d.p->expand_space_dimension(Variable(o.var), o.den);
      else if (op == "fold") { Variables_Set vs; for (size_t i = 0; i < o.vs.size(); ++i) vs.insert(Variable(o.vs[i])); d.p->fold_space_dimensions(vs, Variable(o.var)); }
      else if (op == "widening") { if (d.p->space_dimension() == s.p->space_dimension()) d.p->upper_bound_assign(*s.p); d.p->widening_assign(*s.p); }
      else if (op == "drop_non_integer") { if (o.vs.empty()) d.p->drop_some_non_integer_points(o.var % 2 ? ANY_COMPLEXITY : POLYNOMIAL_COMPLEXITY); else { Variables_Set vs; for (size_t i = 0; i < o.vs.size(); ++i) vs.insert(Variable(o.vs[i])); d.p->drop_some_non_integer_points(vs, o.var % 2 ? ANY_COMPLEXITY : POLYNOMIAL_COMPLEXITY); } }
      else exc = "unknown-op";
}

static void run_history(const std::vector<std::string>& lines, int fd) {
  vj::install_terminate();
  vj::Writer W(fd); Slot S[4];
  { std::istringstream is(lines[0]); std::string t; is >> t >> LIM; if (LIM <= 0) LIM = 100000; }
  W.line("{\"e\":\"Reset\"}");
  for (size_t t = 1; t < lines.size(); ++t) {
    Op o = parse(lines[t]); Slot& d = S[o.dst]; Slot& s = S[o.src > 0 ? o.src : o.dst];
    std::string exc = "";
    big = false;
    const std::string& op = o.op;
    Out out; out.exc = ""; out.obs = "[]"; out.rr = "{\"ok\":false,\"num\":0,\"den\":1,\"ext\":false,\"pt\":[]}"; out.rc = "{\"sat\":false,\"inc\":false,\"dis\":false,\"si\":false}"; out.rb = false; out.ri = 0;
    try { exec_op(o, S, d, s, out); exc = out.exc; }
    catch (std::invalid_argument&) { exc = "invalid_argument"; } catch (std::length_error&) { exc = "length_error"; }
    catch (std::domain_error&) { exc = "domain_error"; } catch (std::overflow_error&) { exc = "overflow_error"; }
    catch (std::logic_error&) { exc = "logic_error"; } catch (std::bad_alloc&) { exc = "bad_alloc"; }
    catch (std::runtime_error&) { exc = "runtime_error"; } catch (std::exception&) { exc = "exception"; } catch (...) { exc = "unknown"; }
    std::string p1 = desc(S[1]), p2 = desc(S[2]), p3 = desc(S[3]);
    std::vector<std::string> ccs, ggs;
    for (size_t i = 0; i < o.cs.size(); ++i) ccs.push_back(row(o.cs[i].first.c_str(), o.cs[i].second));
    for (size_t i = 0; i < o.gs.size(); ++i) ggs.push_back(row(o.gs[i].first.c_str(), o.gs[i].second));
    vj::Obj e; e.s("e", "Op").i("t", t).s("d1", Dom<VD1>::name()).s("d2", Dom<VD2>::name()).s("red", RED).s("op", op).i("dst", o.dst).i("src", o.src).i("argn", o.n).s("k", o.k).i("var", o.var).i("den", o.den).i("mod", o.mod)
      .raw("v", vj::arr(o.v)).raw("w", vj::arr(o.w)).raw("vs", vj::arr(o.vs)).raw("cs", vj::arrs(ccs)).raw("gs", vj::arrs(ggs))
      .b("rb", out.rb).i("ri", out.ri).raw("rr", out.rr).raw("rc", out.rc).s("exc", exc).raw("obs", out.obs)
      .raw("post", std::string("[") + p1 + "," + p2 + "," + p3 + "]").b("big", big);
    W.line(e.str());
    if (big) { W.line("{\"e\":\"Reset\"}"); for (int i = 1; i <= 3; ++i) { delete S[i].p; S[i].p = 0; } }
  }
}

int main(int argc, char** argv) {
  int limit = argc > 1 ? atoi(argv[1]) : 20;
  vj::for_each_history(std::cin, limit, std::cout, run_history);
  return 0;
}
