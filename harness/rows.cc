// C16 replayer: steps TLC-generated behaviours of specs/rows/Rows.tla through Sparse_Row and
// Dense_Row and compares the full contents (by get, by iteration), the observer answers and
// OK() with the post-state computed by the specification after every action.
// Input (stdin): "BEGIN" / step lines "op k a b c d obs n1 e.. n2 e.." / "END".
#include "ppl.hh"
#include <iostream>
#include <sstream>
#include <vector>
#include <string>
using namespace Parma_Polyhedra_Library;

template <class Row> struct Pair { Row r[2]; };

template <class Row>
static const char* same(const Row& x, const std::vector<long>& e) {
  if (x.size() != e.size()) return "size";
  for (size_t i = 0; i < e.size(); ++i) if (x.get(i) != e[i]) return "get";
  long last = -1; size_t nz = 0;
  for (typename Row::const_iterator it = x.begin(); it != x.end(); ++it) {
    if ((long) it.index() <= last) return "iteration-order";
    last = it.index();
    if (it.index() >= e.size()) return "iteration-index";
    if (*it != e[it.index()]) return "iteration-value";
    if (*it != 0) ++nz;
  }
  size_t want = 0; for (size_t i = 0; i < e.size(); ++i) if (e[i] != 0) ++want;
  if (nz != want) return "iteration-misses-nonzero";
  if (!x.OK()) return "OK()";
  return 0;
}

static void do_reset_range(Sparse_Row& s, int a, int b) { s.reset(s.lower_bound(a), s.lower_bound(b)); }
static void do_reset_range(Dense_Row& s, int a, int b) { s.reset(a, b); }
static void do_reset_after(Sparse_Row& s, int i) { s.reset_after(i); }
static void do_reset_after(Dense_Row& s, int i) { s.reset(i, s.size()); }
static void do_delete(Sparse_Row& s, int i) { s.delete_element_and_shift(i); }
static void do_delete(Dense_Row& s, int i) { for (dimension_type k = i; k + 1 < s.size(); ++k) s.swap_coefficients(k, k + 1); s.shrink(s.size() - 1); }
static void do_convert(Sparse_Row& s) { Dense_Row d(s); Sparse_Row t(d); s.m_swap(t); }
static void do_convert(Dense_Row& s) { Sparse_Row d(s); Dense_Row t(d); s.m_swap(t); }
static void do_convert2(Sparse_Row& s) { Dense_Row d(s, s.size(), s.size() + 2); Sparse_Row t(d, d.size(), d.size() + 3); s.m_swap(t); }
static void do_convert2(Dense_Row& s) { Sparse_Row d(s, s.size(), s.size() + 2); Dense_Row t(d, d.size(), d.size() + 3); s.m_swap(t); }

// returns 0 if the observer answer is acceptable, else a description
template <class Row>
static const char* apply(Pair<Row>& P, const std::string& op, int k, long a, long b, long c, long d, long obs, long step) {
  Row& s = P.r[k - 1]; Row& o = P.r[2 - k];
  if (op == "insert") { typename Row::iterator it = s.insert(a, Coefficient(b)); if (it.index() != (dimension_type) a || *it != b) return "insert-returned-iterator"; }
  else if (op == "insert_hint") { typename Row::iterator h = (c >= (long) s.size()) ? s.end() : s.lower_bound(c); typename Row::iterator it = s.insert(h, a, Coefficient(b)); if (it.index() != (dimension_type) a || *it != b) return "insert-returned-iterator"; }
  else if (op == "insert_zero") { typename Row::iterator it; if (step % 2) it = s.insert(a); else { typename Row::iterator h = (b >= (long) s.size()) ? s.end() : s.lower_bound(b); it = s.insert(h, a); } if (it.index() != (dimension_type) a || *it != obs) return "insert(i)-value"; }
  else if (op == "reset") { s.reset(a); }
  else if (op == "reset_range") { do_reset_range(s, a, b); }
  else if (op == "reset_after") { do_reset_after(s, a); }
  else if (op == "swap") { s.swap_coefficients(a, b); }
  else if (op == "lincomb") { s.linear_combine(o, Coefficient(a), Coefficient(b)); }
  else if (op == "lincomb_range") { s.linear_combine(o, Coefficient(a), Coefficient(b), c, d); }
  else if (op == "normalize") { s.normalize(); }
  else if (op == "delete_shift") { do_delete(s, a); }
  else if (op == "add_zeroes_shift") { s.add_zeroes_and_shift(a, b); }
  else if (op == "assign_other") { s = o; }
  else if (op == "m_swap") { if (step % 2) swap(P.r[0], P.r[1]); else P.r[0].m_swap(P.r[1]); }
  else if (op == "resize") { s.resize(a); }
  else if (op == "clear") { s.clear(); }
  else if (op == "convert") { if (step % 2) do_convert(s); else do_convert2(s); }
  else if (op == "copy_cap") { Row t(s, a, b); s.m_swap(t); }
  else if (op == "dumpload") { std::stringstream ss; s.ascii_dump(ss); std::string t1 = ss.str(); Row t; if (!t.ascii_load(ss)) return "ascii_load-failed"; std::stringstream s2; t.ascii_dump(s2); if (s2.str() != t1) return "redump-differs"; s.m_swap(t); }
  else if (op == "find" || op == "find_hint") { const Row& cs = s; typename Row::const_iterator it;
    if (op == "find") it = cs.find(a); else { typename Row::const_iterator h = (b >= (long) cs.size()) ? cs.end() : cs.lower_bound(b); it = cs.find(h, a); }
    if (it == cs.end()) { if (obs != 0) return "find-missed-nonzero"; } else if (it.index() != (dimension_type) a || *it != obs) return "find-wrong-element"; }
  else if (op == "lower_bound" || op == "lb_hint") { const Row& cs = s; typename Row::const_iterator it;
    if (op == "lower_bound") it = cs.lower_bound(a); else { typename Row::const_iterator h = (b >= (long) cs.size()) ? cs.end() : cs.lower_bound(b); it = cs.lower_bound(h, a); }
    // obs = index of first non-zero at or after a (size if none): the answer must lie in [a, obs]
    if (it == cs.end()) { if (obs != (long) cs.size()) return "lower_bound-end-but-nonzero"; } else if ((long) it.index() < a || (long) it.index() > obs) return "lower_bound-out-of-range"; }
  else if (op == "get") { size_t nz = 0; for (dimension_type i = 0; i < s.size(); ++i) if (s.get(i) != 0) ++nz; if ((long) nz != obs) return "nonzero-count"; }
  else if (op == "fill") { for (dimension_type i = 0; i < s.size(); i += a) s.insert(i, Coefficient(b)); }
  else return "unknown-op";
  return 0;
}

int main() {
  std::string line; Pair<Sparse_Row>* S = 0; Pair<Dense_Row>* D = 0; long nb = 0, bad = 0, steps = 0; int step = 0; bool dead = false; int init = 5;
  while (std::getline(std::cin, line)) {
    if (line.compare(0, 5, "BEGIN") == 0) { std::istringstream is(line); std::string w; is >> w >> init; delete S; delete D; S = new Pair<Sparse_Row>(); D = new Pair<Dense_Row>();
      for (int k = 0; k < 2; ++k) { S->r[k].resize(init); D->r[k].resize(init); } ++nb; step = 0; dead = false; continue; }
    if (line == "END" || dead) continue;
    std::istringstream is(line); std::string op; long k, a, b, c, d, obs; is >> op >> k >> a >> b >> c >> d >> obs;
    size_t n1; is >> n1; std::vector<long> e1(n1); for (auto& x : e1) is >> x; size_t n2; is >> n2; std::vector<long> e2(n2); for (auto& x : e2) is >> x;
    ++step; ++steps;
    const char* w1 = apply(*S, op, k, a, b, c, d, obs, step); const char* w2 = apply(*D, op, k, a, b, c, d, obs, step);
    const char* s1 = same(S->r[0], e1); const char* s2 = same(S->r[1], e2); const char* d1 = same(D->r[0], e1); const char* d2 = same(D->r[1], e2);
    const char* why = w1 ? w1 : w2 ? w2 : s1 ? s1 : s2 ? s2 : d1 ? d1 : d2;
    if (why) { ++bad; dead = true; std::cout << "MISMATCH " << nb << " " << step << " " << op << " " << ((w1 || s1 || s2) ? "sparse" : "dense") << " " << why << "\n"; }
  }
  std::cout << "SUMMARY " << nb << " " << steps << " " << bad << "\n";
  return 0;
}
