// Conformance harness for boxes, bounded-difference shapes and octagonal shapes (C03, C04, C08, C17).
// One executable per instantiation (-DVDOM=1 box | 2 BD shape | 3 octagon, -DVT=<tag>); the same TLC-generated
// histories as for polyhedra (specs/poly/PolyHist.tla with Shape # "poly") are executed over a pool of 3 slots.
// After every call one ndjson event carries the call, its answer, the exception and, for every slot, the point set
// the element DENOTES: its minimized constraints and the generators of the NNC polyhedron built from them (the
// specification verifies that the two agree).  Coefficients that do not fit the small range are logged exactly as
// limb arrays (rows "HB"): such an object can still be judged as a RESULT (every generator of the exact result
// must satisfy every row), but not serve as an argument.  No judgement here: see specs/shape/ShapeTrace.tla.
#include "ppl.hh"
#include "interfaced_boxes.hh"
#include "vjson.hh"
using namespace Parma_Polyhedra_Library;
typedef std::vector<long> LV;

#define T_mpq 1
#define T_mpz 2
#define T_i8 3
#define T_i16 4
#define T_i32 5
#define T_i64 6
#define T_flt 7
#define T_dbl 8
#define T_ldbl 9
#define PASTE(a, b) a##b
#define TAG(x) PASTE(T_, x)
#if TAG(VT) == T_mpq
typedef mpq_class NT; typedef Rational_Box BoxT; static const char* TNAME = "mpq"; static const bool EXACT = true;
#elif TAG(VT) == T_mpz
typedef mpz_class NT; typedef Z_Box BoxT; static const char* TNAME = "mpz"; static const bool EXACT = false;
#elif TAG(VT) == T_i8
typedef int8_t NT; typedef Int8_Box BoxT; static const char* TNAME = "int8"; static const bool EXACT = false;
#elif TAG(VT) == T_i16
typedef int16_t NT; typedef Int16_Box BoxT; static const char* TNAME = "int16"; static const bool EXACT = false;
#elif TAG(VT) == T_i32
typedef int32_t NT; typedef Int32_Box BoxT; static const char* TNAME = "int32"; static const bool EXACT = false;
#elif TAG(VT) == T_i64
typedef int64_t NT; typedef Int64_Box BoxT; static const char* TNAME = "int64"; static const bool EXACT = false;
#elif TAG(VT) == T_flt
typedef float NT; typedef Float_Box BoxT; static const char* TNAME = "float"; static const bool EXACT = false;
#elif TAG(VT) == T_dbl
typedef double NT; typedef Double_Box BoxT; static const char* TNAME = "double"; static const bool EXACT = false;
#else
typedef long double NT; typedef Long_Double_Box BoxT; static const char* TNAME = "long double"; static const bool EXACT = false;
#endif
#if VDOM == 1
typedef BoxT D; static const char* DNAME = "box";
#elif VDOM == 2
typedef BD_Shape<NT> D; static const char* DNAME = "bds";
#else
typedef Octagonal_Shape<NT> D; static const char* DNAME = "oct";
#endif

static bool big = false;       // some coefficient of the event did not fit: the event is undecided unless only result rows are big
static bool rowbig = false;
static long LIM = 100000;
static bool fits(const Coefficient& c, long& v) { Result r = assign_r(v, c, ROUND_DOWN); return r == V_EQ && v <= LIM && v >= -LIM; }
static long L(const Coefficient& c) { long v = 0; if (!fits(c, v)) { big = true; return 0; } return v; }
static std::string limbs(const Coefficient& c) {
  mpz_class z; assign_r(z, c, ROUND_NOT_NEEDED); int s = sgn(z); z = abs(z);
  std::ostringstream o; o << "{\"s\":" << s << ",\"m\":[";
  bool first = true; while (z != 0) { mpz_class r = z % 16384; z /= 16384; if (!first) o << ","; first = false; o << r.get_si(); }
  o << "]}"; return o.str();
}
static std::string row(const char* k, const LV& v) { return std::string("{\"k\":\"") + k + "\",\"v\":" + vj::arr(v) + "}"; }
static const char* kind(const Constraint& c) { return c.is_equality() ? "eq" : c.is_strict_inequality() ? "gt" : "ge"; }
// small rows go to H, rows with a big coefficient to HB (all coefficients as limb records)
static void jsHsplit(const Constraint_System& cs, unsigned n, std::string& H, std::string& HB, bool& anybig) {
  std::vector<std::string> h, hb; anybig = false;
  for (Constraint_System::const_iterator i = cs.begin(); i != cs.end(); ++i) {
    LV v(n + 1); bool ok = fits(i->inhomogeneous_term(), v[0]);
    for (unsigned k = 0; k < n; ++k) { if (k < i->space_dimension()) ok = fits(i->coefficient(Variable(k)), v[k + 1]) && ok; else v[k + 1] = 0; }
    if (ok) h.push_back(row(kind(*i), v));
    else { anybig = true; std::vector<std::string> b; b.push_back(limbs(i->inhomogeneous_term()));
      for (unsigned k = 0; k < n; ++k) b.push_back(k < i->space_dimension() ? limbs(i->coefficient(Variable(k))) : std::string("{\"s\":0,\"m\":[]}"));
      hb.push_back(std::string("{\"k\":\"") + kind(*i) + "\",\"b\":" + vj::arrs(b) + "}"); }
  }
  H = vj::arrs(h); HB = vj::arrs(hb);
}
static std::string jsH(const Constraint_System& cs, unsigned n) {
  std::vector<std::string> r;
  for (Constraint_System::const_iterator i = cs.begin(); i != cs.end(); ++i) {
    LV v(n + 1); v[0] = L(i->inhomogeneous_term());
    for (unsigned k = 0; k < n; ++k) v[k + 1] = (k < i->space_dimension()) ? L(i->coefficient(Variable(k))) : 0;
    r.push_back(row(kind(*i), v));
  }
  return vj::arrs(r);
}
static std::string jsG1(const Generator& g, unsigned n) {
  LV v(n + 1); v[0] = (g.is_point() || g.is_closure_point()) ? L(g.divisor()) : 0;
  for (unsigned k = 0; k < n; ++k) v[k + 1] = (k < g.space_dimension()) ? L(g.coefficient(Variable(k))) : 0;
  return row(g.is_line() ? "line" : g.is_ray() ? "ray" : g.is_point() ? "point" : "cpoint", v);
}
static std::string jsV(const Generator_System& gs, unsigned n) {
  std::vector<std::string> r;
  for (Generator_System::const_iterator i = gs.begin(); i != gs.end(); ++i) r.push_back(jsG1(*i, n));
  return vj::arrs(r);
}
static std::string jsCG(const Congruence_System& cgs, unsigned n) {
  std::vector<std::string> r;
  for (Congruence_System::const_iterator i = cgs.begin(); i != cgs.end(); ++i) {
    LV v(n + 1); v[0] = L(i->inhomogeneous_term());
    for (unsigned k = 0; k < n; ++k) v[k + 1] = (k < i->space_dimension()) ? L(i->coefficient(Variable(k))) : 0;
    r.push_back(std::string("{\"mod\":") + std::to_string(L(i->modulus())) + ",\"v\":" + vj::arr(v) + "}");
  }
  return vj::arrs(r);
}

struct Slot { D* p; Slot() : p(0) {} };
static const char* DEAD = "{\"alive\":false,\"n\":0,\"topo\":\"NNC\",\"H\":[],\"HB\":[],\"V\":[],\"hbig\":false,\"ok\":true}";
static std::string desc1(const Slot& s) {
  if (!s.p) return DEAD;
  unsigned n = s.p->space_dimension();
  D a(*s.p);
  // the denoted set is taken from constraints() (minimized_constraints() of an integer octagon may drop non-redundant rows and
  // reduces the element itself); when all coefficients are small the rows are minimized by an NNC polyhedron built from them
  Constraint_System cs = a.constraints();
  std::string H, HB; bool anybig;
  jsHsplit(cs, n, H, HB, anybig);
  std::string V = "[]";
  if (!anybig) { NNC_Polyhedron ph(n, UNIVERSE); ph.add_constraints(cs); bool keep = big; big = false; NNC_Polyhedron ph2(ph); H = jsH(ph2.minimized_constraints(), n); V = jsV(ph.minimized_generators(), n);
    if (big) { anybig = true; V = "[]"; jsHsplit(cs, n, H, HB, anybig); anybig = true; } big = keep; }
  if (anybig) rowbig = true;
  vj::Obj o; o.b("alive", true).i("n", n).s("topo", "NNC").raw("H", H).raw("HB", HB).raw("V", V).b("hbig", anybig).b("ok", s.p->OK());
  return o.str();
}
static std::string desc(const Slot& s) {
  try { return desc1(s); }
  catch (std::exception&) { big = true; return "{\"alive\":false,\"n\":0,\"topo\":\"NNC\",\"H\":[],\"HB\":[],\"V\":[],\"hbig\":false,\"ok\":true}"; }
}

struct Op {
  std::string op, topo, k; int dst, src, n, var, den, mod; LV v, w, vs;
  std::vector<std::pair<std::string, LV> > cs, gs;
};
static LV rdv(std::istringstream& is) { size_t n; is >> n; LV v(n); for (size_t i = 0; i < n; ++i) is >> v[i]; return v; }
static Op parse(const std::string& line) {
  std::istringstream is(line); Op o; std::string tag;
  is >> tag >> o.op >> o.dst >> o.src >> o.n >> o.topo >> o.k >> o.var >> o.den >> o.mod;
  is >> tag; o.v = rdv(is); is >> tag; o.w = rdv(is); is >> tag; o.vs = rdv(is);
  size_t c; is >> tag >> c; for (size_t i = 0; i < c; ++i) { std::string k; is >> k; LV v = rdv(is); o.cs.push_back(std::make_pair(k, v)); }
  is >> tag >> c; for (size_t i = 0; i < c; ++i) { std::string k; is >> k; LV v = rdv(is); o.gs.push_back(std::make_pair(k, v)); }
  return o;
}
static Linear_Expression le(const LV& v, unsigned n, bool inh = true) {
  Linear_Expression e;
  unsigned m = v.size() > 0 ? v.size() - 1 : 0;
  for (unsigned k = 0; k < m; ++k) e += v[k + 1] * Variable(k);
  if (n > m) e += 0 * Variable(n - 1);
  if (inh && !v.empty()) e += v[0];
  return e;
}
static Constraint mkc(const std::string& k, const LV& v, unsigned n) { Linear_Expression e = le(v, n); return k == "eq" ? Constraint(e == 0) : k == "gt" ? Constraint(e > 0) : Constraint(e >= 0); }
static Generator mkg(const std::string& k, const LV& v, unsigned n) {
  Linear_Expression e = le(v, n, false); long d = v.empty() ? 1 : v[0];
  return k == "point" ? point(e, d) : k == "cpoint" ? closure_point(e, d) : k == "ray" ? ray(e) : line(e);
}
static Congruence mkcg(const LV& v, long mod, unsigned n) { Linear_Expression e = le(v, n); return (e %= 0) / mod; }
static Relation_Symbol rs(const std::string& k) { return k == "le" ? LESS_OR_EQUAL : k == "eq" ? EQUAL : k == "ge" ? GREATER_OR_EQUAL : k == "lt" ? LESS_THAN : GREATER_THAN; }
static std::string relcon(const Poly_Con_Relation& r) {
  vj::Obj o; o.b("sat", r.implies(Poly_Con_Relation::saturates())).b("inc", r.implies(Poly_Con_Relation::is_included()))
    .b("dis", r.implies(Poly_Con_Relation::is_disjoint())).b("si", r.implies(Poly_Con_Relation::strictly_intersects()));
  return o.str();
}
static Constraint_System mkcs(const Op& o, unsigned n) { Constraint_System cs; for (size_t i = 0; i < o.cs.size(); ++i) cs.insert(mkc(o.cs[i].first, o.cs[i].second, n)); return cs; }
static Generator_System mkgs(const Op& o, unsigned n) { Generator_System gs; for (size_t i = 0; i < o.gs.size(); ++i) gs.insert(mkg(o.gs[i].first, o.gs[i].second, n)); return gs; }
static Complexity_Class cx(int v) { return v % 3 == 1 ? ANY_COMPLEXITY : v % 3 == 2 ? SIMPLEX_COMPLEXITY : POLYNOMIAL_COMPLEXITY; }

struct Out { std::string exc, obs, rr, rc, plain, wtwin; bool rb; long ri; };
static bool g_lean = false;   // fault harness: only the call itself, no comparison twins (raw temporaries of the harness)
static D* rebuilt(const D& x, int style) {
  D c(x); unsigned sn = c.space_dimension(); D* q = 0;
  if (style % 3 == 0) { Constraint_System cs = c.minimized_constraints(); q = new D(sn, UNIVERSE); q->refine_with_constraints(cs); }
  else if (style % 3 == 1) { Constraint_System cs = c.constraints(); q = new D(sn, UNIVERSE); for (Constraint_System::const_iterator i = cs.begin(); i != cs.end(); ++i) q->refine_with_constraint(*i); (void) q->is_empty(); }
  else { q = new D(sn, EMPTY); q->upper_bound_assign(c); }
  return q;
}
static bool is_limited(const std::string& op) { return op.compare(0, 8, "limited_") == 0; }
static void widen_call(const std::string& op, D* x, const D& y, const Constraint_System& cs, unsigned* tp) {
#if VDOM == 1
  if (op == "CC76_widening") x->CC76_widening_assign(y, tp); else if (op == "limited_CC76") x->limited_CC76_extrapolation_assign(y, cs, tp); else x->widening_assign(y, tp);
#else
  if (op == "CC76_widening") x->CC76_extrapolation_assign(y, tp); else if (op == "BHMZ05_widening") x->BHMZ05_widening_assign(y, tp);
  else if (op == "limited_CC76") x->limited_CC76_extrapolation_assign(y, cs, tp); else if (op == "limited_BHMZ05") x->limited_BHMZ05_extrapolation_assign(y, cs, tp);
#if VDOM == 2
  else if (op == "H79_widening") x->H79_widening_assign(y, tp); else if (op == "limited_H79") x->limited_H79_extrapolation_assign(y, cs, tp);
#endif
  else x->widening_assign(y, tp);
#endif
}
static std::string plain_of(const std::string& op) { return op == "limited_CC76" ? "CC76_widening" : op == "limited_BHMZ05" ? "BHMZ05_widening" : op == "limited_H79" ? "H79_widening" : op; }
static void exec_op(const Op& o, Slot* S, Slot& d, Slot& s, Out& out) {
  std::string& exc = out.exc; std::string& obs = out.obs; std::string& rr = out.rr; std::string& rc = out.rc; bool& rb = out.rb; long& ri = out.ri;
  unsigned n = d.p ? d.p->space_dimension() : 0; const std::string& op = o.op;
      if (op == "new") { D* q = new D(o.n, o.k == "empty" ? EMPTY : UNIVERSE); delete d.p; d.p = q; }
      // var = 0: directly from the system; otherwise through a closed (odd) or NNC (even) polyhedron at complexity class var % 3
      else if (op == "from_cs") { Constraint_System cs = mkcs(o, o.n); D* q;
        if (o.var == 0) q = new D(cs); else if (o.var % 2) { C_Polyhedron ph(o.n, UNIVERSE); ph.refine_with_constraints(cs); q = new D(ph, cx(o.var)); } else { NNC_Polyhedron ph(o.n, UNIVERSE); ph.add_constraints(cs); q = new D(ph, cx(o.var)); }
        delete d.p; d.p = q; }
      else if (op == "from_gs") { Generator_System gs = mkgs(o, o.n); D* q;
        if (o.var == 0) q = new D(gs); else if (o.var % 2) { Generator_System g2; for (size_t i = 0; i < o.gs.size(); ++i) g2.insert(mkg(o.gs[i].first == "cpoint" ? std::string("point") : o.gs[i].first, o.gs[i].second, o.n)); C_Polyhedron ph(g2); q = new D(ph, cx(o.var)); } else { NNC_Polyhedron ph(gs); q = new D(ph, cx(o.var)); }
        delete d.p; d.p = q; }
      else if (op == "from_cgs") { Congruence_System cgs(o.n); for (size_t i = 0; i < o.cs.size(); ++i) cgs.insert(mkcg(o.cs[i].second, o.cs[i].first == "eq" ? 0 : o.mod, o.n)); D* q = new D(cgs); delete d.p; d.p = q; }
      else if (op == "destroy") { delete d.p; d.p = 0; }
      else if ((op == "copy_from" || op == "conv_topo" || op == "rebuild") ? !s.p : (op == "dumpload") ? !d.p : (!d.p || (o.src > 0 && !s.p))) { exc = "dead"; }
      else if (op == "copy_from") { if (&d != &s) { D* c = new D(*s.p); delete d.p; d.p = c; } else *d.p = *d.p; }
      else if (op == "assign") { *d.p = *s.p; }
      else if (op == "swap") { if (o.var % 2) d.p->m_swap(*s.p); else { using std::swap; swap(*d.p, *s.p); } }
      // conversion through another domain: var selects the intermediate, den the complexity class
      else if (op == "conv_topo") { D* q; Complexity_Class c = cx(o.den < 0 ? -o.den : o.den);
        switch (o.var % 6) {
          case 0: q = new D(*s.p, c); break;
          case 1: { C_Polyhedron ph(*s.p, c); q = new D(ph, c); break; }
          case 2: { NNC_Polyhedron ph(*s.p, c); q = new D(ph, c); break; }
          case 3: { Rational_Box x(*s.p, c); q = new D(x, c); break; }
          case 4: { BD_Shape<mpq_class> x(*s.p, c); q = new D(x, c); break; }
          default: { Octagonal_Shape<mpq_class> x(*s.p, c); q = new D(x, c); break; }
        }
        delete d.p; d.p = q; }
      else if (op == "rebuild") {  // an equal element through a different history
        D c(*s.p); D* q = 0; unsigned sn = c.space_dimension();
        if (o.var == 1) { Constraint_System cs = c.minimized_constraints(); q = new D(sn, UNIVERSE); q->refine_with_constraints(cs); }
        else if (o.var == 2) { Constraint_System cs = c.constraints(); q = new D(sn, UNIVERSE); for (Constraint_System::const_iterator i = cs.begin(); i != cs.end(); ++i) q->refine_with_constraint(*i); }
        else if (o.var == 3) { q = new D(sn, UNIVERSE); q->intersection_assign(c); (void) q->is_empty(); }
        else if (o.var == 4) { q = new D(c); q->upper_bound_assign(c); (void) q->minimized_constraints(); }
        else { q = new D(sn, EMPTY); q->upper_bound_assign(c); }
        delete d.p; d.p = q; }
      // ---------------- observers
      else if (op == "constraints") obs = jsH(d.p->constraints(), n);
      else if (op == "min_constraints") obs = jsH(d.p->minimized_constraints(), n);
      else if (op == "congruences") obs = jsCG(d.p->congruences(), n);
      else if (op == "min_congruences") obs = jsCG(d.p->minimized_congruences(), n);
      else if (op == "space_dimension") ri = d.p->space_dimension();
      else if (op == "affine_dimension") ri = d.p->affine_dimension();
      else if (op == "is_empty") rb = d.p->is_empty();
      else if (op == "is_universe") rb = d.p->is_universe();
      else if (op == "is_bounded") rb = d.p->is_bounded();
      else if (op == "is_discrete") rb = d.p->is_discrete();
      else if (op == "is_topologically_closed") rb = d.p->is_topologically_closed();
      else if (op == "contains_integer_point") rb = d.p->contains_integer_point();
      else if (op == "constrains") rb = d.p->constrains(Variable(o.var));
      else if (op == "OK") rb = d.p->OK();
      else if (op == "hash_code") ri = d.p->hash_code() % 1000000;
      else if (op == "contains") rb = d.p->contains(*s.p);
      else if (op == "strictly_contains") rb = d.p->strictly_contains(*s.p);
      else if (op == "is_disjoint_from") rb = d.p->is_disjoint_from(*s.p);
      else if (op == "equals") rb = (*d.p == *s.p);
      else if (op == "not_equals") rb = (*d.p != *s.p);
      else if (op == "relation_with_constraint") rc = relcon(d.p->relation_with(mkc(o.k, o.v, n)));
      else if (op == "relation_with_congruence") rc = relcon(d.p->relation_with(mkcg(o.v, o.mod, n)));
      else if (op == "relation_with_generator") rb = d.p->relation_with(mkg(o.k, o.v, n)).implies(Poly_Gen_Relation::subsumes());
      else if (op == "bounds_from_above") rb = d.p->bounds_from_above(le(o.v, n));
      else if (op == "bounds_from_below") rb = d.p->bounds_from_below(le(o.v, n));
      else if (op == "maximize" || op == "minimize" || op == "maximize_pt" || op == "minimize_pt") {
        Coefficient num, den; bool ext = false; Generator g = point(); bool ok; bool withpt = (op == "maximize_pt" || op == "minimize_pt");
        if (op == "maximize") ok = d.p->maximize(le(o.v, n), num, den, ext); else if (op == "minimize") ok = d.p->minimize(le(o.v, n), num, den, ext);
        else if (op == "maximize_pt") ok = d.p->maximize(le(o.v, n), num, den, ext, g); else ok = d.p->minimize(le(o.v, n), num, den, ext, g);
        vj::Obj r; r.b("ok", ok).i("num", ok ? L(num) : 0).i("den", ok ? L(den) : 1).b("ext", ok ? ext : false);
        r.raw("pt", (ok && withpt) ? std::string("[") + jsG1(g, n) + "]" : std::string("[]")); rr = r.str(); }
      else if (op == "frequency") { Coefficient fn, fd, vn, vd; bool ok = d.p->frequency(le(o.v, n), fn, fd, vn, vd);
        vj::Obj r; r.b("ok", ok).i("num", ok ? L(vn) : 0).i("den", ok ? L(vd) : 1).b("ext", ok ? (fn == 0) : false).raw("pt", "[]"); rr = r.str(); }
      // ---------------- mutators
      else if (op == "add_constraint") d.p->add_constraint(mkc(o.k, o.v, o.n));
#if VDOM == 1
      else if (op == "refine_with_constraint" && o.var % 2) d.p->propagate_constraint(mkc(o.k, o.v, o.n));
      else if (op == "refine_with_constraints" && o.var % 2) d.p->propagate_constraints(mkcs(o, o.n), o.den > 1 ? o.den : 12);  // an unbounded number of iterations (0) may legitimately not terminate
#endif
      else if (op == "refine_with_constraint") d.p->refine_with_constraint(mkc(o.k, o.v, o.n));
      else if (op == "add_constraints") { Constraint_System cs = mkcs(o, o.n); if (o.var % 2) d.p->add_recycled_constraints(cs); else d.p->add_constraints(cs); }
      else if (op == "refine_with_constraints") d.p->refine_with_constraints(mkcs(o, o.n));
      else if (op == "add_congruence") d.p->add_congruence(mkcg(o.v, o.mod, o.n));
      else if (op == "refine_with_congruence") d.p->refine_with_congruence(mkcg(o.v, o.mod, o.n));
      else if (op == "add_congruences" || op == "refine_with_congruences") { Congruence_System cgs(o.n); for (size_t i = 0; i < o.cs.size(); ++i) cgs.insert(mkcg(o.cs[i].second, o.cs[i].first == "eq" ? 0 : o.mod, o.n));
        if (op == "add_congruences") { if (o.var % 2) d.p->add_recycled_congruences(cgs); else d.p->add_congruences(cgs); } else d.p->refine_with_congruences(cgs); }
      else if (op == "unconstrain") d.p->unconstrain(Variable(o.var));
      else if (op == "unconstrain_set") { Variables_Set vs; for (size_t i = 0; i < o.vs.size(); ++i) vs.insert(Variable(o.vs[i])); d.p->unconstrain(vs); }
      else if (op == "intersection") d.p->intersection_assign(*s.p);
      else if (op == "poly_hull") d.p->upper_bound_assign(*s.p);
      else if (op == "poly_difference") d.p->difference_assign(*s.p);
      else if (op == "time_elapse") d.p->time_elapse_assign(*s.p);
      else if (op == "topological_closure") d.p->topological_closure_assign();
      else if (op == "simplify_using_context") rb = d.p->simplify_using_context_assign(*s.p);
      else if (op == "hull_if_exact") rb = d.p->upper_bound_assign_if_exact(*s.p);
      else if (op == "affine_image") d.p->affine_image(Variable(o.var), le(o.v, n), o.den);
      else if (op == "affine_preimage") d.p->affine_preimage(Variable(o.var), le(o.v, n), o.den);
      else if (op == "gen_affine_image") d.p->generalized_affine_image(Variable(o.var), rs(o.k), le(o.v, n), o.den);
      else if (op == "gen_affine_preimage") d.p->generalized_affine_preimage(Variable(o.var), rs(o.k), le(o.v, n), o.den);
      else if (op == "gen_affine_image_lhs") d.p->generalized_affine_image(le(o.w, n), rs(o.k), le(o.v, n));
      else if (op == "gen_affine_preimage_lhs") d.p->generalized_affine_preimage(le(o.w, n), rs(o.k), le(o.v, n));
      else if (op == "bounded_affine_image") d.p->bounded_affine_image(Variable(o.var), le(o.v, n), le(o.w, n), o.den);
      else if (op == "bounded_affine_preimage") d.p->bounded_affine_preimage(Variable(o.var), le(o.v, n), le(o.w, n), o.den);
      else if (op == "add_dims_embed") d.p->add_space_dimensions_and_embed(o.var);
      else if (op == "add_dims_project") d.p->add_space_dimensions_and_project(o.var);
      else if (op == "concatenate") d.p->concatenate_assign(*s.p);
      else if (op == "remove_dims") { Variables_Set vs; for (size_t i = 0; i < o.vs.size(); ++i) vs.insert(Variable(o.vs[i])); d.p->remove_space_dimensions(vs); }
      else if (op == "remove_higher") d.p->remove_higher_space_dimensions(o.var);
      else if (op == "map_dims") { Partial_Function pf; for (size_t i = 0; i < o.vs.size(); ++i) if (o.vs[i] >= 0) pf.insert(i, o.vs[i]); d.p->map_space_dimensions(pf); }
      else if (op == "expand") d.p->expand_space_dimension(Variable(o.var), o.den);
      else if (op == "fold") { Variables_Set vs; for (size_t i = 0; i < o.vs.size(); ++i) vs.insert(Variable(o.vs[i])); d.p->fold_space_dimensions(vs, Variable(o.var)); }
      else if (op == "dumpload") { std::stringstream ss; d.p->ascii_dump(ss); std::string t1 = ss.str(); D* q = new D(0, UNIVERSE); bool ok = q->ascii_load(ss);
        std::stringstream s2; q->ascii_dump(s2); ri = (ok ? 1 : 0) + (s2.str() == t1 ? 2 : 0) + (q->OK() ? 4 : 0); rb = (ri == 7); Slot& tgt = S[o.src > 0 ? o.src : o.dst]; delete tgt.p; tgt.p = q; }
      // ---------------- widenings (C08) and integer-aware operators (C17)
      else if (op == "CC76_narrowing") { if (s.p->space_dimension() != d.p->space_dimension() || s.p->contains(*d.p)) d.p->CC76_narrowing_assign(*s.p); else exc = "skipped"; }
      else if (op == "widening" || op == "CC76_widening" || op == "BHMZ05_widening" || op == "H79_widening" || is_limited(op)) {
        unsigned tk = o.den < 0 ? 0 : o.den; unsigned* tp = (o.mod > 0) ? &tk : 0; Constraint_System cs = mkcs(o, n);
        if (d.p->space_dimension() != s.p->space_dimension() || &d == &s) { widen_call(op, d.p, *s.p, cs, tp); ri = tk; }
        else {
          d.p->upper_bound_assign(*s.p);      // z = receiver joined with the argument (the precondition of every widening)
          if (g_lean) { widen_call(op, d.p, *s.p, cs, tp); ri = tk; return; }
          { Slot t; t.p = new D(*d.p); Constraint_System none; widen_call(plain_of(op), t.p, *s.p, none, 0); out.plain = desc(t); delete t.p; }
          { Slot tz; tz.p = rebuilt(*d.p, o.var); D* ts = rebuilt(*s.p, o.var + 1); unsigned tk2 = tk;
            widen_call(op, tz.p, *ts, cs, tp ? &tk2 : 0); out.wtwin = desc(tz); out.rr = std::string("{\"ok\":true,\"num\":") + std::to_string(tk2) + ",\"den\":1,\"ext\":false,\"pt\":[]}"; delete tz.p; delete ts; }
          widen_call(op, d.p, *s.p, cs, tp); ri = tk; }
      }
      else if (op == "drop_non_integer") { if (o.vs.empty()) d.p->drop_some_non_integer_points(o.var % 2 ? ANY_COMPLEXITY : POLYNOMIAL_COMPLEXITY); else { Variables_Set vs; for (size_t i = 0; i < o.vs.size(); ++i) vs.insert(Variable(o.vs[i])); d.p->drop_some_non_integer_points(vs, o.var % 2 ? ANY_COMPLEXITY : POLYNOMIAL_COMPLEXITY); } }
      else exc = "unknown-op";
}

static void run_history(const std::vector<std::string>& lines, int fd) {
  vj::install_terminate();
  vj::Writer W(fd); Slot S[4];
  { std::istringstream is(lines[0]); std::string t; is >> t >> LIM; if (LIM <= 0) LIM = 100000; }
  W.line("{\"e\":\"Reset\"}");
  for (size_t t = 1; t < lines.size(); ++t) {
    Op o = parse(lines[t]); Slot& d = S[o.dst]; Slot& s = S[o.src > 0 ? o.src : o.dst];
    std::string exc = "";
    big = false; rowbig = false;
    const std::string& op = o.op;
    Out out; out.plain = DEAD; out.wtwin = DEAD; out.exc = ""; out.obs = "[]"; out.rr = "{\"ok\":false,\"num\":0,\"den\":1,\"ext\":false,\"pt\":[]}"; out.rc = "{\"sat\":false,\"inc\":false,\"dis\":false,\"si\":false}"; out.rb = false; out.ri = 0;
    try { exec_op(o, S, d, s, out); exc = out.exc; }
    catch (std::invalid_argument&) { exc = "invalid_argument"; } catch (std::length_error&) { exc = "length_error"; }
    catch (std::domain_error&) { exc = "domain_error"; } catch (std::overflow_error&) { exc = "overflow_error"; }
    catch (std::logic_error&) { exc = "logic_error"; } catch (std::bad_alloc&) { exc = "bad_alloc"; }
    catch (std::runtime_error&) { exc = "runtime_error"; } catch (std::exception&) { exc = "exception"; } catch (...) { exc = "unknown"; }
    std::string p1 = desc(S[1]), p2 = desc(S[2]), p3 = desc(S[3]);
    std::vector<std::string> ccs, ggs;
    for (size_t i = 0; i < o.cs.size(); ++i) ccs.push_back(row(o.cs[i].first.c_str(), o.cs[i].second));
    for (size_t i = 0; i < o.gs.size(); ++i) ggs.push_back(row(o.gs[i].first.c_str(), o.gs[i].second));
    vj::Obj e; e.s("e", "Op").i("t", t).s("dom", DNAME).s("ty", TNAME).b("exact", EXACT).s("op", op).i("dst", o.dst).i("src", o.src).i("argn", o.n).s("topo", o.topo).s("k", o.k).i("var", o.var).i("den", o.den).i("mod", o.mod)
      .raw("v", vj::arr(o.v)).raw("w", vj::arr(o.w)).raw("vs", vj::arr(o.vs)).raw("cs", vj::arrs(ccs)).raw("gs", vj::arrs(ggs))
      .b("rb", out.rb).i("ri", out.ri).raw("rr", out.rr).raw("rc", out.rc).s("exc", exc).raw("obs", out.obs)
      .raw("post", std::string("[") + p1 + "," + p2 + "," + p3 + "]").raw("plain", out.plain).raw("wtwin", out.wtwin).b("rowbig", rowbig).b("big", big);
    W.line(e.str());
    if (big) { W.line("{\"e\":\"Reset\"}"); for (int i = 1; i <= 3; ++i) { delete S[i].p; S[i].p = 0; } }
  }
}

int main(int argc, char** argv) {
  int limit = argc > 1 ? atoi(argv[1]) : 20;
  vj::for_each_history(std::cin, limit, std::cout, run_history);
  return 0;
}
