// C18 harness: one history = one loop relation (constraints over <<1, x'_1..x'_n, x_1..x_n>>).  The relation is
// built as the requested pointset (closed / NNC polyhedron, rational BD shape or octagon), every function of the
// termination interface is called on it in both forms (one 2n-dimensional relation; before/after pair) and all
// verdicts, witnesses and spaces are logged together with the generators of the relation actually analysed.
// The judgement is specs/term/TermTrace.tla.
// Input: BEGIN / "REL n dom ncs  k len v..  k len v.." / END
#include "ppl.hh"
#include "vjson.hh"
using namespace Parma_Polyhedra_Library;
static long L(const Coefficient& c) { long r; if (assign_r(r, c, ROUND_NOT_NEEDED) != V_EQ) throw std::overflow_error("big"); return r; }
struct Con { std::string k; std::vector<long> v; };
static Constraint mk(const Con& c, unsigned dims, const std::vector<int>& map) {  // map[j] = dimension of coefficient j+1, -1 = drop
  Linear_Expression e; if (dims > 0) e += 0 * Variable(dims - 1);
  for (size_t j = 1; j < c.v.size(); ++j) if (map[j - 1] >= 0) e += c.v[j] * Variable(map[j - 1]);
  e += c.v[0];
  return c.k == "eq" ? (e == 0) : c.k == "gt" ? (e > 0) : (e >= 0);
}
static std::string jsH(const Constraint_System& cs, unsigned n) {
  std::vector<std::string> r;
  for (Constraint_System::const_iterator i = cs.begin(); i != cs.end(); ++i) {
    std::vector<long> v(n + 1); v[0] = L(i->inhomogeneous_term());
    for (unsigned k = 0; k < n; ++k) v[k + 1] = k < i->space_dimension() ? L(i->coefficient(Variable(k))) : 0;
    vj::Obj o; o.s("k", i->is_equality() ? "eq" : i->is_strict_inequality() ? "gt" : "ge").raw("v", vj::arr(v)); r.push_back(o.str());
  }
  return vj::arrs(r);
}
static std::string jsV(const Generator_System& gs, unsigned n) {
  std::vector<std::string> r;
  for (Generator_System::const_iterator i = gs.begin(); i != gs.end(); ++i) {
    std::vector<long> v(n + 1); v[0] = (i->is_point() || i->is_closure_point()) ? L(i->divisor()) : 0;
    for (unsigned k = 0; k < n; ++k) v[k + 1] = k < i->space_dimension() ? L(i->coefficient(Variable(k))) : 0;
    vj::Obj o; o.s("k", i->is_line() ? "line" : i->is_ray() ? "ray" : i->is_point() ? "point" : "cpoint").raw("v", vj::arr(v)); r.push_back(o.str());
  }
  return vj::arrs(r);
}
static std::string jsMu(const Generator& mu, unsigned n) {
  std::vector<long> v(n + 2); v[0] = L(mu.divisor());
  for (unsigned k = 0; k <= n; ++k) v[k + 1] = k < mu.space_dimension() ? L(mu.coefficient(Variable(k))) : 0;
  return vj::arr(v);
}
template <typename F> static std::string guarded(F f) {
  try { return f(); }
  catch (std::invalid_argument&) { return "{\"exc\":\"invalid_argument\"}"; }
  catch (std::overflow_error&) { return "{\"exc\":\"big\"}"; }
  catch (std::exception&) { return "{\"exc\":\"exception\"}"; }
}
// all results of one form; CALL(name) expands to name(R) or name_2(B, A)
#define FORM(MS, PR, MS1, PR1, AMS, APR, QMS, ARGS) \
  vj::Obj o; o.s("exc", ""); \
  o.b("ms", MS ARGS); o.b("pr", PR ARGS); \
  { Generator mu(point()); bool r = MS1(ARGS2, mu); o.b("ms1", r); o.raw("mu", r ? jsMu(mu, n) : "[]"); } \
  { Generator mu(point()); bool r = PR1(ARGS2, mu); o.b("pr1", r); o.raw("mupr", r ? jsMu(mu, n) : "[]"); } \
  { C_Polyhedron s; AMS(ARGS2, s); o.i("sms_dim", s.space_dimension()); o.b("sms_empty", s.is_empty()); o.raw("sms", jsV(s.minimized_generators(), n + 1)); } \
  { NNC_Polyhedron s; APR(ARGS2, s); o.i("spr_dim", s.space_dimension()); o.b("spr_empty", s.is_empty()); o.raw("spr", jsV(s.minimized_generators(), n + 1)); } \
  { C_Polyhedron d, b; QMS(ARGS2, d, b); o.b("qd_empty", d.is_empty()); o.b("qb_empty", b.is_empty()); o.raw("qd", jsV(d.minimized_generators(), n + 1)); o.raw("qb", jsV(b.minimized_generators(), n + 1)); } \
  return o.str();
template <typename PS> static std::string form_one(const PS& R, unsigned n) {
#define ARGS (R)
#define ARGS2 R
  FORM(termination_test_MS, termination_test_PR, one_affine_ranking_function_MS, one_affine_ranking_function_PR, all_affine_ranking_functions_MS, all_affine_ranking_functions_PR, all_affine_quasi_ranking_functions_MS, ARGS)
#undef ARGS
#undef ARGS2
}
template <typename PS> static std::string form_two(const PS& B, const PS& A, unsigned n) {
#define ARGS (B, A)
#define ARGS2 B, A
  FORM(termination_test_MS_2, termination_test_PR_2, one_affine_ranking_function_MS_2, one_affine_ranking_function_PR_2, all_affine_ranking_functions_MS_2, all_affine_ranking_functions_PR_2, all_affine_quasi_ranking_functions_MS_2, ARGS)
#undef ARGS
#undef ARGS2
}
template <typename PS, typename PH> static void run_rel(unsigned n, const std::vector<Con>& cs, vj::Obj& out) {
  unsigned D = 2 * n;
  std::vector<int> id(D), before(D);
  for (unsigned j = 0; j < D; ++j) { id[j] = j; before[j] = j < n ? -1 : (int) (j - n); }
  PS R(D), A(D), B(n);
  for (size_t i = 0; i < cs.size(); ++i) {
    bool guard = true; for (unsigned j = 0; j < n; ++j) if (cs[i].v[1 + j] != 0) guard = false;
    R.refine_with_constraint(mk(cs[i], D, id));
    if (guard) B.refine_with_constraint(mk(cs[i], n, before)); else A.refine_with_constraint(mk(cs[i], D, id));
  }
  // the relations actually analysed, as polyhedra: R itself, and A restricted to the states of B
  PH P1(R.minimized_constraints()); if (P1.space_dimension() < D) P1.add_space_dimensions_and_embed(D - P1.space_dimension());
  PH P2(A.minimized_constraints()); if (P2.space_dimension() < D) P2.add_space_dimensions_and_embed(D - P2.space_dimension());
  { Constraint_System bc = B.minimized_constraints();
    for (Constraint_System::const_iterator i = bc.begin(); i != bc.end(); ++i) {
      Linear_Expression e; e += 0 * Variable(D - 1);
      for (unsigned k = 0; k < n; ++k) if (k < i->space_dimension()) e += i->coefficient(Variable(k)) * Variable(n + k);
      e += i->inhomogeneous_term();
      P2.add_constraint(i->is_equality() ? (e == 0) : i->is_strict_inequality() ? (e > 0) : (e >= 0)); } }
  { PH proj(P2); Variables_Set primed; for (unsigned k = 0; k < n; ++k) primed.insert(Variable(k)); proj.remove_space_dimensions(primed);
    PH bp(B.minimized_constraints()); if (bp.space_dimension() < n) bp.add_space_dimensions_and_embed(n - bp.space_dimension());
    out.b("before_tight", proj.contains(bp)); }   // classification of the input only (used for the signature of a known finding)
  { PH a(P1), b(P1); out.raw("H1", jsH(a.minimized_constraints(), D)).raw("V1", jsV(b.minimized_generators(), D)); }
  { PH a(P2), b(P2); out.raw("H2", jsH(a.minimized_constraints(), D)).raw("V2", jsV(b.minimized_generators(), D)); }
  out.raw("one", guarded([&]() { return form_one(R, n); }));
  out.raw("two", guarded([&]() { return form_two(B, A, n); }));
  // ill-formed: odd-dimensional relation, and a before/after pair of mismatching dimensions
  { PS X(D + 1); bool thrown = false; try { termination_test_MS(X); } catch (std::invalid_argument&) { thrown = true; } catch (...) {} 
    bool thrown2 = false; try { termination_test_PR_2(PS(n + 1), A); } catch (std::invalid_argument&) { thrown2 = true; } catch (...) {}
    out.b("odd_thrown", thrown).b("mismatch_thrown", thrown2); }
}
static void run_history(const std::vector<std::string>& lines, int fd) {
  vj::install_terminate();
  vj::Writer W(fd);
  W.line("{\"e\":\"Reset\"}");
  for (size_t t = 1; t < lines.size(); ++t) {
    std::istringstream is(lines[t]); std::string tag, dom; unsigned n, ncs; is >> tag >> n >> dom >> ncs;
    std::vector<Con> cs(ncs);
    for (unsigned i = 0; i < ncs; ++i) { size_t len; is >> cs[i].k >> len; cs[i].v.resize(len); for (size_t j = 0; j < len; ++j) is >> cs[i].v[j]; }
    vj::Obj o; o.s("e", "Rel").i("n", n).i("m", 2 * n + 1).s("dom", dom);
    try {
      if (dom == "C") run_rel<C_Polyhedron, C_Polyhedron>(n, cs, o);
      else if (dom == "NNC") run_rel<NNC_Polyhedron, NNC_Polyhedron>(n, cs, o);
      else if (dom == "BDS") run_rel<BD_Shape<mpq_class>, C_Polyhedron>(n, cs, o);
      else run_rel<Octagonal_Shape<mpq_class>, C_Polyhedron>(n, cs, o);
      o.b("big", false);
    } catch (std::overflow_error&) { vj::Obj b; b.s("e", "Rel").b("big", true).i("n", n); W.line(b.str()); continue; }
    W.line(o.str());
  }
}
int main(int argc, char** argv) {
  vj::for_each_history(std::cin, argc > 1 ? atoi(argv[1]) : 10, std::cout, run_history);
  return 0;
}
