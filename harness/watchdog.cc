// C19 harness: runs the real Watchdog and Weightwatch (Threshold_Watcher) classes on a VIRTUAL clock.
// setitimer / getitimer / sigaction are defined here and pre-empt libc's, so the library's static
// initialiser registers its SIGPROF/SIGALRM handler with us and arms our virtual one-shot timer.
// Schedules come from TLC behaviours of specs/watchdog/WatchdogImpl.tla: for every API call the list
// of ticks to let pass at each successive yield point (PPL_VERIF_YIELD hooks, compiled in with
// -DBUGSENG_PPL_VERIF) and the idle ticks after the call returns.  Whenever the virtual timer
// expires while time passes, the registered handler is invoked right there -- also in the middle of
// the bookkeeping code, which is what the hooks are for.  Everything observable is logged as ndjson;
// the judgement is specs/watchdog/WatchTrace.tla.
// Input: BEGIN / "wd create w d idle n t1..tn" / "wd destroy w idle n t1..tn" / "wd idle k" /
//        "ww create w delta" / "ww destroy w" / "ww add k" / "ww check" / END
#include "ppl.hh"
#include "vjson.hh"
#include <csignal>
#include <sys/time.h>
using namespace Parma_Polyhedra_Library;
typedef Threshold_Watcher<Weightwatch_Traits> Weightwatch;

static const long TICK = 10000;  // microseconds per tick (1 centisecond)
static long vnow = 0, vtimer = 0;
static void (*sig_handler)(int) = 0;
static int the_signal = 0;
static vj::Writer* W = 0;
static bool incall = false; static std::string lastlabel = "-";
static std::vector<long> ticks; static size_t tpos = 0;
static long cur_w = 0;

extern "C" int setitimer(int, const struct itimerval* nv, struct itimerval* ov) {
  if (ov) { ov->it_value.tv_sec = vtimer / 1000000; ov->it_value.tv_usec = vtimer % 1000000; ov->it_interval.tv_sec = 0; ov->it_interval.tv_usec = 0; }
  vtimer = nv->it_value.tv_sec * 1000000L + nv->it_value.tv_usec;
  if (W) { vj::Obj o; o.s("e", "settimer").i("us", vtimer).i("t", vnow / TICK).b("incall", incall).s("label", lastlabel); W->line(o.str()); }
  return 0;
}
extern "C" int getitimer(int, struct itimerval* v) { v->it_value.tv_sec = vtimer / 1000000; v->it_value.tv_usec = vtimer % 1000000; v->it_interval.tv_sec = 0; v->it_interval.tv_usec = 0; return 0; }
extern "C" int sigaction(int signum, const struct sigaction* act, struct sigaction*) { if (act) { sig_handler = act->sa_handler; the_signal = signum; } return 0; }

static void advance(long us) {
  while (us > 0) {
    if (vtimer > 0 && vtimer <= us) {
      us -= vtimer; vnow += vtimer; vtimer = 0;
      { vj::Obj o; o.s("e", "deliver").i("t", vnow / TICK).i("us", vnow % TICK).b("incall", incall).s("label", lastlabel); W->line(o.str()); }
      if (sig_handler) sig_handler(the_signal);
    }
    else { if (vtimer > 0) vtimer -= us; vnow += us; us = 0; }
  }
}
static void yield_hook(const char* label) {
  lastlabel = label;
  long k = tpos < ticks.size() ? ticks[tpos] : 0; ++tpos;
  { vj::Obj o; o.s("e", "yield").s("label", label).i("ticks", k).i("t", vnow / TICK); W->line(o.str()); }
  if (k > 0) advance(k * TICK);
}
static void fire(int kind, int k) { vj::Obj o; o.s("e", "fire").s("kind", kind ? "ww" : "wd").i("w", k).i("t", kind ? (long) Weightwatch_Traits::weight : vnow / TICK).i("us", kind ? 0 : vnow % TICK).b("incall", incall).s("label", lastlabel); W->line(o.str()); }
template <int K> static void act_wd() { fire(0, K); }
template <int K> static void act_ww() { fire(1, K); }
typedef void (*Fn)();
static Fn WD_ACT[5] = { 0, act_wd<1>, act_wd<2>, act_wd<3>, act_wd<4> };
static Fn WW_ACT[5] = { 0, act_ww<1>, act_ww<2>, act_ww<3>, act_ww<4> };

static void run_history(const std::vector<std::string>& lines, int fd) {
  vj::install_terminate();
  vj::Writer wr(fd); W = &wr;
  ppl_verif_watchdog_yield_hook = yield_hook;
  Watchdog* wd[5] = { 0, 0, 0, 0, 0 }; Weightwatch* ww[5] = { 0, 0, 0, 0, 0 };
  vnow = 0; vtimer = 0; Weightwatch_Traits::weight = 0;
  W->line("{\"e\":\"Reset\"}");
  for (size_t t = 1; t < lines.size(); ++t) {
    std::istringstream is(lines[t]); std::string kind, op; is >> kind >> op;
    if (kind == "wd") {
      if (op == "idle") { long k; is >> k; advance(k * TICK); vj::Obj o; o.s("e", "idle").i("t", vnow / TICK); W->line(o.str()); continue; }
      long w, d = 0, idle = 0; size_t n; is >> w; if (op == "create") is >> d; is >> idle >> n; ticks.assign(n, 0); for (size_t i = 0; i < n; ++i) is >> ticks[i]; tpos = 0; cur_w = w;
      { vj::Obj o; o.s("e", "call").s("kind", "wd").s("op", op).i("w", w).i("d", d).i("t", vnow / TICK); W->line(o.str()); }
      incall = true; std::string exc = "";
      try {
        if (op == "create") { if (!wd[w]) wd[w] = new Watchdog(d, WD_ACT[w]); else exc = "skipped"; }
        else { if (wd[w]) { delete wd[w]; wd[w] = 0; } else exc = "skipped"; }
      } catch (std::exception& e) { exc = "exception"; }
      incall = false; lastlabel = "-";
      { vj::Obj o; o.s("e", "ret").s("kind", "wd").s("op", op).i("w", w).i("t", vnow / TICK).s("exc", exc).i("yields", (long) tpos); W->line(o.str()); }
      if (idle > 0) advance(idle * TICK);
      { vj::Obj o; o.s("e", "idle").i("t", vnow / TICK); W->line(o.str()); }
    }
    else {  // weight watcher: no asynchrony, check() is the only linearisation point
      long w = 0, k = 0; std::string exc = "";
      if (op == "create" || op == "destroy") is >> w; if (op == "create" || op == "add") is >> k;
      { vj::Obj o; o.s("e", "call").s("kind", "ww").s("op", op).i("w", w).i("d", k).i("t", (long) Weightwatch_Traits::weight); W->line(o.str()); }
      try {
        if (op == "create") { if (!ww[w]) ww[w] = new Weightwatch(Weightwatch_Traits::compute_delta(k, 0), WW_ACT[w]); else exc = "skipped"; }
        else if (op == "destroy") { if (ww[w]) { delete ww[w]; ww[w] = 0; } else exc = "skipped"; }
        else if (op == "add") Weightwatch_Traits::weight += k;
        else if (op == "check") { if (Weightwatch_Traits::check_function != 0) Weightwatch_Traits::check_function(); }
      } catch (std::invalid_argument&) { exc = "invalid_argument"; } catch (std::exception&) { exc = "exception"; }
      { vj::Obj o; o.s("e", "ret").s("kind", "ww").s("op", op).i("w", w).i("t", (long) Weightwatch_Traits::weight).s("exc", exc).i("yields", 0); W->line(o.str()); }
    }
  }
  W->line("{\"e\":\"End\"}");
}
int main(int argc, char** argv) {
  vj::for_each_history(std::cin, argc > 1 ? atoi(argv[1]) : 10, std::cout, run_history);
  return 0;
}
