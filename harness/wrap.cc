// C17 harness: one case per history.  An element of the requested domain is built from small constraint / congruence lists, then
// wrap_assign, drop_some_non_integer_points and contains_integer_point are called on copies; the argument and every result are
// logged as lists of "parts" (constraints + congruences; several parts = a union, as for powersets) so that the specification can
// decide membership of sample points.  No judgement here: see specs/wrap/WrapTrace.tla.
// Input: BEGIN / "CASE dom n  C ncs (k len v..)*  G ncg (mod len v..)*  VARS nv v..  W w R rep O ovf  GUARD present ng (k len v..)*  T thr I indiv  X cx" / END
#include "ppl.hh"
#include "vjson.hh"
using namespace Parma_Polyhedra_Library;
typedef std::vector<long> LV;
static bool big = false;       // some coefficient of the event did not fit: the event is undecided unless only result rows are big
static bool rowbig = false;
static long LIM = 100000;
static bool fits(const Coefficient& c, long& v) { Result r = assign_r(v, c, ROUND_DOWN); return r == V_EQ && v <= LIM && v >= -LIM; }
static long L(const Coefficient& c) { long v = 0; if (!fits(c, v)) { big = true; return 0; } return v; }
static std::string limbs(const Coefficient& c) {
  mpz_class z; assign_r(z, c, ROUND_NOT_NEEDED); int s = sgn(z); z = abs(z);
  std::ostringstream o; o << "{\"s\":" << s << ",\"m\":[";
  bool first = true; while (z != 0) { mpz_class r = z % 16384; z /= 16384; if (!first) o << ","; first = false; o << r.get_si(); }
  o << "]}"; return o.str();
}
static std::string row(const char* k, const LV& v) { return std::string("{\"k\":\"") + k + "\",\"v\":" + vj::arr(v) + "}"; }
static const char* kind(const Constraint& c) { return c.is_equality() ? "eq" : c.is_strict_inequality() ? "gt" : "ge"; }
// small rows go to H, rows with a big coefficient to HB (all coefficients as limb records)
static void jsHsplit(const Constraint_System& cs, unsigned n, std::string& H, std::string& HB, bool& anybig) {
  std::vector<std::string> h, hb; anybig = false;
  for (Constraint_System::const_iterator i = cs.begin(); i != cs.end(); ++i) {
    LV v(n + 1); bool ok = fits(i->inhomogeneous_term(), v[0]);
    for (unsigned k = 0; k < n; ++k) { if (k < i->space_dimension()) ok = fits(i->coefficient(Variable(k)), v[k + 1]) && ok; else v[k + 1] = 0; }
    if (ok) h.push_back(row(kind(*i), v));
    else { anybig = true; std::vector<std::string> b; b.push_back(limbs(i->inhomogeneous_term()));
      for (unsigned k = 0; k < n; ++k) b.push_back(k < i->space_dimension() ? limbs(i->coefficient(Variable(k))) : std::string("{\"s\":0,\"m\":[]}"));
      hb.push_back(std::string("{\"k\":\"") + kind(*i) + "\",\"b\":" + vj::arrs(b) + "}"); }
  }
  H = vj::arrs(h); HB = vj::arrs(hb);
}
static std::string jsH(const Constraint_System& cs, unsigned n) {
  std::vector<std::string> r;
  for (Constraint_System::const_iterator i = cs.begin(); i != cs.end(); ++i) {
    LV v(n + 1); v[0] = L(i->inhomogeneous_term());
    for (unsigned k = 0; k < n; ++k) v[k + 1] = (k < i->space_dimension()) ? L(i->coefficient(Variable(k))) : 0;
    r.push_back(row(kind(*i), v));
  }
  return vj::arrs(r);
}
static std::string jsG1(const Generator& g, unsigned n) {
  LV v(n + 1); v[0] = (g.is_point() || g.is_closure_point()) ? L(g.divisor()) : 0;
  for (unsigned k = 0; k < n; ++k) v[k + 1] = (k < g.space_dimension()) ? L(g.coefficient(Variable(k))) : 0;
  return row(g.is_line() ? "line" : g.is_ray() ? "ray" : g.is_point() ? "point" : "cpoint", v);
}
static std::string jsV(const Generator_System& gs, unsigned n) {
  std::vector<std::string> r;
  for (Generator_System::const_iterator i = gs.begin(); i != gs.end(); ++i) r.push_back(jsG1(*i, n));
  return vj::arrs(r);
}
static std::string jsCG(const Congruence_System& cgs, unsigned n) {
  std::vector<std::string> r;
  for (Congruence_System::const_iterator i = cgs.begin(); i != cgs.end(); ++i) {
    LV v(n + 1); v[0] = L(i->inhomogeneous_term());
    for (unsigned k = 0; k < n; ++k) v[k + 1] = (k < i->space_dimension()) ? L(i->coefficient(Variable(k))) : 0;
    r.push_back(std::string("{\"mod\":") + std::to_string(L(i->modulus())) + ",\"v\":" + vj::arr(v) + "}");
  }
  return vj::arrs(r);
}


struct Case { std::string dom; unsigned n; std::vector<std::pair<std::string, LV> > cs, guard; std::vector<std::pair<long, LV> > cgs; LV vars; int w, rep, ovf, has_guard, thr, indiv, cx; };
static Linear_Expression le(const LV& v, unsigned n) { Linear_Expression e; unsigned m = v.size() > 0 ? v.size() - 1 : 0; for (unsigned k = 0; k < m; ++k) e += v[k + 1] * Variable(k); if (n > m) e += 0 * Variable(n - 1); if (!v.empty()) e += v[0]; return e; }
static Constraint mkc(const std::string& k, const LV& v, unsigned n) { Linear_Expression e = le(v, n); return k == "eq" ? Constraint(e == 0) : k == "gt" ? Constraint(e > 0) : Constraint(e >= 0); }
static Congruence mkcg(const LV& v, long mod, unsigned n) { Linear_Expression e = le(v, n); return (e %= 0) / mod; }
template <typename X> static std::string part(const X& x, unsigned n) { X a(x), b(x); return std::string("{\"cs\":") + jsH(a.constraints(), n) + ",\"cgs\":" + jsCG(b.congruences(), n) + "}"; }
template <typename X> struct Desc { static std::string of(const X& x, unsigned n) { return std::string("[") + part(x, n) + "]"; } };
template <typename PH> struct Desc<Pointset_Powerset<PH> > { static std::string of(const Pointset_Powerset<PH>& x, unsigned n) {
  std::vector<std::string> ps; Pointset_Powerset<PH> c(x); for (typename Pointset_Powerset<PH>::const_iterator i = c.begin(); i != c.end(); ++i) ps.push_back(part(i->pointset(), n)); return vj::arrs(ps); } };
template <typename X> static void build(X& x, const Case& c) {
  for (size_t i = 0; i < c.cs.size(); ++i) x.refine_with_constraint(mkc(c.cs[i].first, c.cs[i].second, c.n));
  for (size_t i = 0; i < c.cgs.size(); ++i) x.refine_with_congruence(mkcg(c.cgs[i].second, c.cgs[i].first, c.n));
}
template <typename PH> static void build(Pointset_Powerset<PH>& x, const Case& c) {   // two disjuncts: even / odd constraints
  Pointset_Powerset<PH> r(c.n, EMPTY);
  for (int h = 0; h < 2; ++h) { PH p(c.n, UNIVERSE); for (size_t i = h; i < c.cs.size(); i += 2) p.refine_with_constraint(mkc(c.cs[i].first, c.cs[i].second, c.n)); r.add_disjunct(p); }
  x = r;
}
template <typename X> static std::string run_case(const Case& c) {
  X x(c.n, UNIVERSE); build(x, c);
  vj::Obj o; o.s("e", "Case").s("dom", c.dom).i("n", c.n).raw("vars", vj::arr(c.vars)).i("w", c.w).i("rep", c.rep).i("ovf", c.ovf).b("has_guard", c.has_guard != 0).i("thr", c.thr).b("indiv", c.indiv != 0).i("cx", c.cx);
  { std::vector<std::string> g; for (size_t i = 0; i < c.guard.size(); ++i) g.push_back(row(c.guard[i].first.c_str(), c.guard[i].second)); o.raw("guard", vj::arrs(g)); }
  o.raw("arg", Desc<X>::of(x, c.n));
  Variables_Set vs; for (size_t i = 0; i < c.vars.size(); ++i) vs.insert(Variable(c.vars[i]));
  // the guard lives in the space of the wrapped variables (it is rejected if its dimension exceeds vars.space_dimension())
  unsigned gdim = vs.space_dimension(); Constraint_System gcs(gdim > 0 ? Constraint_System(0 * Variable(gdim - 1) >= -1) : Constraint_System());
  for (size_t i = 0; i < c.guard.size(); ++i) { LV v(c.guard[i].second); v.resize(gdim + 1); gcs.insert(mkc(c.guard[i].first, v, gdim)); }
  Bounded_Integer_Type_Width W = c.w == 8 ? BITS_8 : c.w == 16 ? BITS_16 : c.w == 32 ? BITS_32 : BITS_64;
  Bounded_Integer_Type_Representation R = c.rep ? SIGNED_2_COMPLEMENT : UNSIGNED;
  Bounded_Integer_Type_Overflow O = c.ovf == 0 ? OVERFLOW_WRAPS : c.ovf == 1 ? OVERFLOW_UNDEFINED : OVERFLOW_IMPOSSIBLE;
  { X y(x); std::string exc = "";
    try { y.wrap_assign(vs, W, R, O, c.has_guard ? &gcs : 0, c.thr, c.indiv != 0); }
    catch (std::invalid_argument&) { exc = "invalid_argument"; } catch (std::exception&) { exc = "exception"; }
    o.s("wexc", exc).raw("wrapped", Desc<X>::of(y, c.n)).b("wok", y.OK()); }
  { X y(x); std::string exc = "";
    try { if (c.vars.size() == c.n) y.drop_some_non_integer_points(c.cx % 2 ? ANY_COMPLEXITY : POLYNOMIAL_COMPLEXITY); else y.drop_some_non_integer_points(vs, c.cx % 2 ? ANY_COMPLEXITY : POLYNOMIAL_COMPLEXITY); }
    catch (std::invalid_argument&) { exc = "invalid_argument"; } catch (std::exception&) { exc = "exception"; }
    o.s("dexc", exc).raw("dropped", Desc<X>::of(y, c.n)).b("dok", y.OK()).b("dall", c.vars.size() == c.n); }
  { X y(x); bool r = false; std::string exc = ""; try { r = y.contains_integer_point(); } catch (std::exception&) { exc = "exception"; } o.b("cip", r).s("cexc", exc); }
  o.b("big", big).i("end", 0);
  return o.str();
}

// ---- C09 on powersets of grids (mode "gcover"): covering laws.  The rows of the case are dealt round-robin to up to three grids.
static bool g_gcover = false;
static std::string run_gcover(const Case& c) {
  typedef Pointset_Powerset<Grid> PG;
  std::vector<Grid> gs;
  for (int h = 0; h < 3; ++h) { Grid g(c.n, UNIVERSE); size_t idx = 0; bool any = false;
    for (size_t i = 0; i < c.cs.size(); ++i, ++idx) if (idx % 3 == (size_t) h && c.cs[i].first == "eq") { g.add_constraint(mkc("eq", c.cs[i].second, c.n)); any = true; }
    for (size_t i = 0; i < c.cgs.size(); ++i, ++idx) if (idx % 3 == (size_t) h) { g.add_congruence(mkcg(c.cgs[i].second, c.cgs[i].first, c.n)); any = true; }
    if (any && !g.is_empty()) gs.push_back(g); }
  vj::Obj o; o.s("e", "GCover").i("n", c.n).i("w", c.w).i("nd", gs.size());
  if (gs.empty()) { o.b("big", true).i("end", 0); return o.str(); }
  PG X(c.n, EMPTY), Xr(c.n, EMPTY), Y(c.n, EMPTY);
  for (size_t i = 0; i < gs.size(); ++i) X.add_disjunct(gs[i]);
  for (size_t i = gs.size(); i-- > 0; ) Xr.add_disjunct(gs[i]);
  Y.add_disjunct(gs[0]);
  o.raw("X", Desc<PG>::of(X, c.n)).raw("Y", Desc<PG>::of(Y, c.n));
  o.b("refl_covers", X.geometrically_covers(X)).b("refl_equals", X.geometrically_equals(X));
  o.b("rev_covers", X.geometrically_covers(Xr)).b("covers_rev", Xr.geometrically_covers(X)).b("rev_equals", X.geometrically_equals(Xr));
  o.b("y_covers_x", Y.geometrically_covers(X)).b("x_covers_y", X.geometrically_covers(Y));
  { PG Xo(X); Xo.omega_reduce(); o.b("omega_equals", Xo.geometrically_equals(X)).raw("Xo", Desc<PG>::of(Xo, c.n)); }
  { PG Xp(X); Xp.pairwise_reduce(); o.b("pairwise_covers", Xp.geometrically_covers(X)).raw("Xp", Desc<PG>::of(Xp, c.n)); }
  { PG D(X); D.difference_assign(Y); o.raw("D", Desc<PG>::of(D, c.n)); }
  { PG M(X); M.intersection_assign(Xr); o.raw("M", Desc<PG>::of(M, c.n)); }
  o.b("entails_rev", X.definitely_entails(Xr)).b("contains_y", X.contains(Y));
  o.b("big", big).i("end", 0);
  return o.str();
}
static LV rdv(std::istringstream& is) { size_t n; is >> n; LV v(n); for (size_t i = 0; i < n; ++i) is >> v[i]; return v; }
static void run_history(const std::vector<std::string>& lines, int fd) {
  vj::install_terminate();
  vj::Writer W(fd);
  W.line("{\"e\":\"Reset\"}");
  for (size_t t = 1; t < lines.size(); ++t) {
    std::istringstream is(lines[t]); std::string tag; Case c; size_t k; big = false;
    is >> tag >> c.dom >> c.n;
    is >> tag >> k; for (size_t i = 0; i < k; ++i) { std::string kk; is >> kk; LV v = rdv(is); c.cs.push_back(std::make_pair(kk, v)); }
    is >> tag >> k; for (size_t i = 0; i < k; ++i) { long md; is >> md; LV v = rdv(is); c.cgs.push_back(std::make_pair(md, v)); }
    is >> tag; c.vars = rdv(is);
    is >> tag >> c.w >> tag >> c.rep >> tag >> c.ovf >> tag >> c.has_guard >> k; for (size_t i = 0; i < k; ++i) { std::string kk; is >> kk; LV v = rdv(is); c.guard.push_back(std::make_pair(kk, v)); }
    is >> tag >> c.thr >> tag >> c.indiv >> tag >> c.cx;
    std::string out;
    try {
      if (g_gcover) out = run_gcover(c);
      else if (c.dom == "C") out = run_case<C_Polyhedron>(c); else if (c.dom == "NNC") out = run_case<NNC_Polyhedron>(c); else if (c.dom == "Grid") out = run_case<Grid>(c);
      else if (c.dom == "Box") out = run_case<Rational_Box>(c); else if (c.dom == "BDS") out = run_case<BD_Shape<mpq_class> >(c); else if (c.dom == "Oct") out = run_case<Octagonal_Shape<mpz_class> >(c);
      else if (c.dom == "PsetC") out = run_case<Pointset_Powerset<C_Polyhedron> >(c); else out = run_case<Pointset_Powerset<NNC_Polyhedron> >(c);
    } catch (std::exception& e) { out = std::string("{\"e\":\"Case\",\"big\":true,\"dom\":\"") + c.dom + "\"}"; }
    W.line(out);
  }
}
int main(int argc, char** argv) {
  g_gcover = argc > 2 && std::string(argv[2]) == "gcover";
  vj::for_each_history(std::cin, argc > 1 ? atoi(argv[1]) : 20, std::cout, run_history);
  return 0;
}
