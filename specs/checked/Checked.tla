---------------------------- MODULE Checked ----------------------------
(* C11: one action per checked-arithmetic primitive.  A trace line carries, for one target type
   (finite range lo..hi, with or without infinities), one primitive, one rounding direction and one
   first operand, the whole row of second operands with the (result code, stored value) the library
   produced.  The post-condition of the action IS the property: with e the exact mathematical result,
   s the stored value and c the returned code,
     - the relation bits of c are true of (e, s)           (V_EQ: e = s, V_LT: e < s, V_GT: e > s)
     - the class bits of c match s (+inf, -inf, NaN)
     - directed rounding is honoured (UP: s >= e, DOWN: s <= e) and, for exact targets, tight
     - overflow is classified (V_OVERFLOW only with a saturated / infinite store on the right side)
   Values are records [c |-> class, n |-> numerator, d |-> denominator]; classes 0 finite, 1 -inf,
   2 +inf, 3 NaN.  Exact results are computed here from the definitions, never from the library. *)
EXTENDS Integers, Sequences, FiniteSets, TLC, Json, IOUtils
Tr == ndJsonDeserialize(IOEnv.TRACE)
Abs(x) == IF x < 0 THEN -x ELSE x
RECURSIVE Gcd(_, _)
Gcd(a, b) == IF b = 0 THEN Abs(a) ELSE Gcd(Abs(b), Abs(a) % Abs(b))
Nan == [c |-> 3, n |-> 0, d |-> 1]
PInf == [c |-> 2, n |-> 0, d |-> 1]
MInf == [c |-> 1, n |-> 0, d |-> 1]
Skip == [c |-> 9, n |-> 0, d |-> 1]            \* the specification does not define this case
Fin(n, d) == IF d < 0 THEN [c |-> 0, n |-> -n, d |-> -d] ELSE [c |-> 0, n |-> n, d |-> d]
V(p) == IF p[1] = 0 THEN Fin(p[2], IF Len(p) >= 3 THEN p[3] ELSE 1) ELSE [c |-> p[1], n |-> 0, d |-> 1]
IsInf(x) == x.c \in {1, 2}
Sg(x) == IF x.c = 2 THEN 1 ELSE IF x.c = 1 THEN -1 ELSE IF x.n > 0 THEN 1 ELSE IF x.n < 0 THEN -1 ELSE 0
InfOf(s) == IF s > 0 THEN PInf ELSE MInf
Trunc(n, d) == IF n >= 0 THEN n \div d ELSE -((-n) \div d)      \* d > 0: toward zero
Floor(n, d) == n \div d                                          \* d > 0
Ceil(n, d) == -((-n) \div d)
RECURSIVE Pow2(_)
Pow2(k) == IF k = 0 THEN 1 ELSE 2 * Pow2(k - 1)
Add(x, y) == IF IsInf(x) /\ IsInf(y) THEN (IF x.c = y.c THEN x ELSE Nan) ELSE IF IsInf(x) THEN x ELSE IF IsInf(y) THEN y ELSE Fin(x.n * y.d + y.n * x.d, x.d * y.d)
NegV(x) == IF x.c = 3 THEN Nan ELSE IF IsInf(x) THEN InfOf(-Sg(x)) ELSE Fin(-x.n, x.d)
Mul(x, y) == IF IsInf(x) \/ IsInf(y) THEN (IF Sg(x) = 0 \/ Sg(y) = 0 THEN Nan ELSE InfOf(Sg(x) * Sg(y))) ELSE Fin(x.n * y.n, x.d * y.d)
Div(x, y) == IF Sg(y) = 0 THEN Nan ELSE IF IsInf(x) /\ IsInf(y) THEN Nan ELSE IF IsInf(x) THEN InfOf(Sg(x) * Sg(y))
             ELSE IF IsInf(y) THEN Fin(0, 1) ELSE Fin(x.n * y.d, x.d * y.n)
(* exact result of primitive op on first operand x (or fused accumulator z) and second operand y *)
Exact(op, x, y, z) ==
  IF op \in {"neg", "abs", "sqrt", "assign", "floor", "ceil", "trunc"} THEN
       (IF y.c = 3 THEN Nan
        ELSE IF op = "neg" THEN NegV(y)
        ELSE IF op = "abs" THEN (IF IsInf(y) THEN PInf ELSE Fin(Abs(y.n), y.d))
        ELSE IF op = "assign" THEN y
        ELSE IF op = "sqrt" THEN (IF y.c = 2 THEN PInf ELSE IF Sg(y) < 0 THEN Nan ELSE [c |-> 8, n |-> y.n, d |-> y.d])     \* class 8: sqrt(n/d)
        ELSE IF IsInf(y) THEN y
        ELSE IF op = "floor" THEN Fin(Floor(y.n, y.d), 1) ELSE IF op = "ceil" THEN Fin(Ceil(y.n, y.d), 1) ELSE Fin(Trunc(y.n, y.d), 1))
  ELSE IF op \in {"mul_2exp", "div_2exp", "smod_2exp", "umod_2exp"} THEN     \* x.n = the exponent
       (IF y.c = 3 THEN Nan
        ELSE IF op = "mul_2exp" THEN (IF IsInf(y) THEN y ELSE Fin(y.n * Pow2(x.n), y.d))
        ELSE IF op = "div_2exp" THEN (IF IsInf(y) THEN y ELSE Fin(y.n, y.d * Pow2(x.n)))
        ELSE IF IsInf(y) THEN Nan
        ELSE IF y.d # 1 THEN Skip
        ELSE IF op = "umod_2exp" THEN Fin(y.n % Pow2(x.n), 1)
        ELSE \* signed modulus: the representative in [-2^(k-1), 2^(k-1))
             LET m == Pow2(x.n)  u == y.n % m IN Fin(IF x.n > 0 /\ u >= m \div 2 THEN u - m ELSE u, 1))
  ELSE IF x.c = 3 \/ y.c = 3 THEN Nan
  ELSE IF op = "add" THEN Add(x, y)
  ELSE IF op = "sub" THEN Add(x, NegV(y))
  ELSE IF op = "mul" THEN Mul(x, y)
  ELSE IF op = "div" THEN Div(x, y)
  ELSE IF op = "idiv" THEN (LET q == Div(x, y) IN IF q.c # 0 THEN q ELSE Fin(Trunc(q.n, q.d), 1))
  ELSE IF op = "rem" THEN (IF Sg(y) = 0 THEN Nan ELSE IF IsInf(x) THEN Nan ELSE IF IsInf(y) THEN x
                           ELSE IF x.d # 1 \/ y.d # 1 THEN Skip ELSE Fin(x.n - Trunc(x.n * (IF y.n < 0 THEN -1 ELSE 1), Abs(y.n)) * y.n, 1))
  ELSE IF op = "add_mul" THEN (IF z.c = 3 THEN Nan ELSE LET p == Mul(x, y) IN IF p.c = 3 THEN Nan ELSE Add(z, p))
  ELSE IF op = "sub_mul" THEN (IF z.c = 3 THEN Nan ELSE LET p == Mul(x, y) IN IF p.c = 3 THEN Nan ELSE Add(z, NegV(p)))
  ELSE IF op = "gcd" THEN (IF IsInf(x) \/ IsInf(y) \/ x.d # 1 \/ y.d # 1 THEN Skip ELSE Fin(Gcd(x.n, y.n), 1))
  ELSE IF op = "lcm" THEN (IF IsInf(x) \/ IsInf(y) \/ x.d # 1 \/ y.d # 1 THEN Skip
                           ELSE IF x.n = 0 \/ y.n = 0 THEN Fin(0, 1) ELSE Fin((Abs(x.n) \div Gcd(x.n, y.n)) * Abs(y.n), 1))
  ELSE Skip
\* compare exact e with stored s (both non-NaN): -1 if e < s, 0 if equal, 1 if e > s
Cmp(e, s) ==
  IF e.c = 8 THEN (IF s.c = 2 THEN -1 ELSE IF s.c = 1 \/ s.n < 0 THEN 1
                   ELSE LET l == e.n * s.d * s.d  r == s.n * s.n * e.d IN IF l < r THEN -1 ELSE IF l = r THEN 0 ELSE 1)
  ELSE IF e.c = 2 THEN (IF s.c = 2 THEN 0 ELSE 1)
  ELSE IF e.c = 1 THEN (IF s.c = 1 THEN 0 ELSE -1)
  ELSE IF s.c = 2 THEN -1 ELSE IF s.c = 1 THEN 1
  ELSE LET l == e.n * s.d  r == s.n * e.d IN IF l < r THEN -1 ELSE IF l = r THEN 0 ELSE 1
Bit(code, b) == (code \div b) % 2 = 1
Class(code) == (code \div 16) % 4       \* 0 normal 1 -inf 2 +inf 3 nan
IntOf(lo, hi, k) == [c |-> 0, n |-> k, d |-> 1]
\* ln.ext: the type stores infinities and NaN; otherwise overflow / undefined results must be reported by the code alone
Sound(ln, e, code, s, dir, y) ==
  IF e.c = 3 THEN Class(code) = 3 /\ (ln.ext => s.c = 3)
  ELSE IF Class(code) = 3 THEN
       \* a NaN-class code for a defined result is only legitimate as V_UNKNOWN_{NEG,POS}_OVERFLOW: either the type has no
       \* infinities and the exact result is out of range on that side, or (fused multiply-add/sub) the intermediate
       \* product is out of range, so that the library cannot tell where the final result lies
       /\ (code \div 256) \in {10, 11}
       /\ \/ ~ln.ext /\ (IF (code \div 256) = 11 THEN Cmp(e, IntOf(ln.lo, ln.hi, ln.hi)) = 1 ELSE Cmp(e, IntOf(ln.lo, ln.hi, ln.lo)) = -1)
          \/ ln.op \in {"add_mul", "sub_mul"} /\ LET p == Mul(V(ln.a), y) IN p.c = 0 /\ (Cmp(p, IntOf(ln.lo, ln.hi, ln.hi)) = 1 \/ Cmp(p, IntOf(ln.lo, ln.hi, ln.lo)) = -1)
  ELSE /\ s.c # 3
       /\ (Class(code) = 1) = (s.c = 1) /\ (Class(code) = 2) = (s.c = 2)
       /\ LET c == Cmp(e, s) IN
            /\ (c = -1 => Bit(code, 2)) /\ (c = 0 => Bit(code, 1)) /\ (c = 1 => Bit(code, 4))
            /\ (dir = "up" => c <= 0) /\ (dir = "down" => c >= 0)
            \* an overflow claim must be true: the exact result lies beyond the finite range on the claimed side
            /\ (Bit(code, 64) => ((c = 1 /\ Cmp(e, IntOf(ln.lo, ln.hi, ln.hi)) = 1) \/ (c = -1 /\ Cmp(e, IntOf(ln.lo, ln.hi, ln.lo)) = -1)))
            \* an infinite store for a finite exact result is only legitimate beyond the finite range
            /\ ((s.c = 2 /\ e.c # 2) => Cmp(e, IntOf(ln.lo, ln.hi, ln.hi)) = 1)
            /\ ((s.c = 1 /\ e.c # 1) => Cmp(e, IntOf(ln.lo, ln.hi, ln.lo)) = -1)
\* tightness for integer targets, closed form: UP stores the least representable >= e, DOWN the greatest <= e
Tight(ln, e, s, dir) ==
  IF ~ln.integral \/ e.c \in {1, 2, 3} \/ dir = "ignore" \/ s.c = 3 THEN TRUE
  ELSE LET above(k) == Cmp(e, IntOf(ln.lo, ln.hi, k)) <= 0       \* k >= e
           below(k) == Cmp(e, IntOf(ln.lo, ln.hi, k)) >= 0 IN
       IF dir = "up" THEN (IF s.c = 2 THEN ~above(ln.hi) ELSE IF s.c = 1 THEN FALSE ELSE (s.n = ln.lo \/ ~above(s.n - 1)))
       ELSE (IF s.c = 1 THEN ~below(ln.lo) ELSE IF s.c = 2 THEN FALSE ELSE (s.n = ln.hi \/ ~below(s.n + 1)))
\* magnitude guard (R7): the exact arithmetic below must stay inside TLC's 32-bit integers, otherwise the case is skipped
Safe(a, b) == a = 0 \/ b = 0 \/ Abs(b) <= (1000000000 \div Abs(a))
GuardOK(ln, x, y, z) ==
  LET op == ln.op  big == IF Abs(ln.lo) > Abs(ln.hi) THEN Abs(ln.lo) ELSE Abs(ln.hi) IN
  IF op \in {"mul_2exp", "div_2exp", "smod_2exp", "umod_2exp"} THEN x.n <= 20 /\ Safe(y.n, Pow2(x.n)) /\ Safe(y.d, Pow2(x.n)) /\ Safe(big + 1, Pow2(x.n))
  ELSE /\ Safe(x.n, y.n) /\ Safe(x.n, y.d) /\ Safe(x.d, y.n) /\ Safe(x.d, y.d)
       /\ (op \in {"add_mul", "sub_mul"} => Safe(x.n * y.n, z.d) /\ Safe(z.n, x.d * y.d) /\ Abs(x.n * y.n) < 500000000 /\ Abs(z.n) < 500000000)
       /\ (op = "div" => Safe(x.n * y.d, big + 1) /\ Safe(x.d * y.n, big + 1))
       /\ (op = "sqrt" => Safe(y.n, y.d) /\ y.n < 1000000 /\ y.d < 1000)
Verdict(ln, i) ==
  LET y == V(ln.ys[i])  x == V(ln.a)  z == V(ln.z)
      e == IF GuardOK(ln, x, y, z) THEN Exact(ln.op, x, y, z) ELSE Skip
      code == ln.rs[i][1]  s == V(<<ln.rs[i][2], ln.rs[i][3], ln.rs[i][4]>>) IN
  IF e.c = 9 THEN "skip"
  ELSE IF ~Sound(ln, e, code, s, ln.dir, y) THEN "unsound"
  ELSE IF ~Tight(ln, e, s, ln.dir) THEN "untight"
  ELSE "ok"
VARIABLES l, bad, nsk, ncase
Init == l = 1 /\ bad = <<>> /\ nsk = 0 /\ ncase = 0
Next == /\ l <= Len(Tr) + 1
        /\ IF l = Len(Tr) + 1
           THEN JsonSerialize(IOEnv.VOUT, [n |-> Len(Tr), bad |-> bad, und |-> <<>>, skipped |-> nsk, cases |-> ncase]) /\ UNCHANGED <<bad, nsk, ncase>>
           ELSE LET ln == Tr[l] IN
                \* the verdict row is bound once (TLC re-evaluates LET definitions at every use)
                \E vs \in {SubSeq([i \in 1..Len(ln.ys) |-> Verdict(ln, i)], 1, Len(ln.ys))} :
                \E bs \in {{i \in 1..Len(ln.ys) : vs[i] \in {"unsound", "untight"}}} :
                LET first3 == IF bs = {} THEN <<>> ELSE
                       LET m1 == CHOOSE i \in bs : \A j \in bs : i <= j
                           r1 == bs \ {m1}
                       IN IF r1 = {} THEN <<m1>> ELSE LET m2 == CHOOSE i \in r1 : \A j \in r1 : i <= j  r2 == r1 \ {m2} IN
                          IF r2 = {} THEN <<m1, m2>> ELSE <<m1, m2, CHOOSE i \in r2 : \A j \in r2 : i <= j>>
                IN /\ bad' = bad \o [k \in 1..Len(first3) |-> [l |-> l, op |-> ln.op, why |-> vs[first3[k]], i |-> first3[k], count |-> Cardinality(bs)]]
                   /\ nsk' = nsk + Cardinality({i \in 1..Len(ln.ys) : vs[i] = "skip"})
                   /\ ncase' = ncase + Len(ln.ys)
        /\ l' = l + 1
=====================================================================
