---------------------------- MODULE CheckedWide ----------------------------
(* C11 for the 32- and 64-bit native integers: the same post-condition as Checked.tla, with the exact
   result kept symbolic and every comparison done in BigInt (TLC integers are 32-bit).  A value is
   <<class, sign, l1..l5>> (limbs base 2^14).  Operands are finite (the special values are covered
   exhaustively on the 8-bit types, which share the code); stored results may be infinite / NaN. *)
EXTENDS BigInt, FiniteSets, TLC, Json, IOUtils
Tr == ndJsonDeserialize(IOEnv.TRACE)
W(p) == [c |-> p[1], b |-> Mk(p[2], <<p[3], p[4], p[5], p[6], p[7]>>)]
One == BigOf(1)
\* sign(e - k) for the exact result e of op and an integer k
CmpE(op, x, y, z, k) ==
  IF op = "add" THEN BCmp(BAdd(x, y), k)
  ELSE IF op = "sub" THEN BCmp(BSub(x, y), k)
  ELSE IF op = "mul" THEN BCmp(BMul(x, y), k)
  ELSE IF op = "add_mul" THEN BCmp(BAdd(z, BMul(x, y)), k)
  ELSE IF op = "sub_mul" THEN BCmp(BSub(z, BMul(x, y)), k)
  ELSE IF op = "neg" THEN BCmp(BNeg(y), k)
  ELSE IF op = "abs" THEN BCmp(IF y.s < 0 THEN BNeg(y) ELSE y, k)
  ELSE IF op = "assign" THEN BCmp(y, k)
  ELSE IF op = "div" THEN BSgn(BSub(x, BMul(k, y))) * BSgn(y)          \* x/y - k has the sign of (x - k*y)*sign(y)
  ELSE IF op = "sqrt" THEN (IF k.s < 0 THEN 1 ELSE BCmp(y, BMul(k, k)))  \* sqrt(y) vs k >= 0
  ELSE 0
Undefined(op, x, y) == (op = "div" /\ y.s = 0) \/ (op = "sqrt" /\ y.s < 0)
Bit(code, b) == (code \div b) % 2 = 1
Class(code) == (code \div 16) % 4
Verdict(ln, i) ==
  LET x == W(ln.a).b  y == W(ln.ys[i]).b  z == W(ln.z).b  op == ln.op
      lo == W(ln.lo).b  hi == W(ln.hi).b
      code == ln.rs[i][1]  s == W(Tail(ln.rs[i]))  dir == ln.dir
      ce(k) == CmpE(op, x, y, z, k) IN
  IF Undefined(op, x, y) THEN (IF Class(code) = 3 /\ s.c = 3 THEN "ok" ELSE "unsound")
  ELSE IF Class(code) = 3 THEN
       (IF (code \div 256) \in {10, 11} /\ op \in {"add_mul", "sub_mul"}
           /\ (BCmp(BMul(x, y), hi) = 1 \/ BCmp(BMul(x, y), lo) = -1) THEN "ok" ELSE "unsound")
  ELSE IF s.c = 3 \/ (Class(code) = 1) # (s.c = 1) \/ (Class(code) = 2) # (s.c = 2) THEN "unsound"
  ELSE LET c == IF s.c = 2 THEN -1 ELSE IF s.c = 1 THEN 1 ELSE ce(s.b) IN
       IF ~((c = -1 => Bit(code, 2)) /\ (c = 0 => Bit(code, 1)) /\ (c = 1 => Bit(code, 4))) THEN "unsound"
       ELSE IF (dir = "up" /\ c > 0) \/ (dir = "down" /\ c < 0) THEN "unsound"
       ELSE IF Bit(code, 64) /\ ~((c = 1 /\ ce(hi) = 1) \/ (c = -1 /\ ce(lo) = -1)) THEN "unsound"
       ELSE IF (s.c = 2 /\ ce(hi) # 1) \/ (s.c = 1 /\ ce(lo) # -1) THEN "unsound"
       ELSE IF dir = "up" /\ s.c = 0 /\ BCmp(s.b, lo) # 0 /\ ce(BSub(s.b, One)) # 1 THEN "untight"
       ELSE IF dir = "down" /\ s.c = 0 /\ BCmp(s.b, hi) # 0 /\ ce(BAdd(s.b, One)) # -1 THEN "untight"
       ELSE IF (dir = "up" /\ s.c = 1) \/ (dir = "down" /\ s.c = 2) THEN "untight"
       ELSE "ok"
VARIABLES l, bad, ncase
Init == l = 1 /\ bad = <<>> /\ ncase = 0
Next == /\ l <= Len(Tr) + 1
        /\ IF l = Len(Tr) + 1
           THEN JsonSerialize(IOEnv.VOUT, [n |-> Len(Tr), bad |-> bad, und |-> <<>>, skipped |-> 0, cases |-> ncase]) /\ UNCHANGED <<bad, ncase>>
           ELSE LET ln == Tr[l] IN
                \E vs \in {SubSeq([i \in 1..Len(ln.ys) |-> Verdict(ln, i)], 1, Len(ln.ys))} :
                \E bs \in {{i \in 1..Len(ln.ys) : vs[i] # "ok"}} :
                LET m1 == IF bs = {} THEN 0 ELSE CHOOSE i \in bs : \A j \in bs : i <= j IN
                /\ bad' = IF bs = {} THEN bad ELSE Append(bad, [l |-> l, op |-> ln.op, why |-> vs[m1], i |-> m1, count |-> Cardinality(bs)])
                /\ ncase' = ncase + Len(ln.ys)
        /\ l' = l + 1
=====================================================================
