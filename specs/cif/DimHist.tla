------------------------------ MODULE DimHist ------------------------------
(* C20 — the dimension machine of the C interface.

   Every one of the 13 interfaced domain classes (closed / NNC polyhedra, grids, the boxes, BD shapes and octagons over their
   coefficient types, the two polyhedral powersets, the constraints product) obeys the SAME rules as far as space dimensions are
   concerned: which calls are dimension-compatible, and what the dimension of the receiver is afterwards.  This module is that
   abstract machine, fully executable:

     state     dim[s] for the slots s of a small pool: -1 = no object, otherwise the space dimension of the object behind the handle
     actions   one per family of entry points (ppl_new_<C>_from_space_dimension, ..._from_<C>, ppl_delete_<C>, ppl_<C>_<operation>)
     outcome   "ok"  — the call returns a non-negative value, the error handler is not invoked, dimensions change as below;
               "inv" — the call returns PPL_ERROR_INVALID_ARGUMENT after invoking the registered handler once with that code,
                       and no dimension changes (the handles stay usable: the history goes on with them).

   TLC checks the machine's own invariants exhaustively (DimMC.cfg) and, in simulation, prints behaviours together with the outcome
   the machine prescribes for every step; harness/cdim.cc replays each behaviour through the C entry points of ALL classes and reports
   every step whose return-code class, handler invocation count / code, or resulting ppl_<C>_space_dimension differs.             *)
EXTENDS Integers, Sequences, FiniteSets, TLC, Json
CONSTANTS Slots, MaxDim, MaxLen
VARIABLES dim, prog, lastout
vars == <<dim, prog, lastout>>
RE(S) == RandomElement(S)
Alive(s) == dim[s] >= 0
Step(op, s, t, a, b, vs, out, nd) == [op |-> op, s |-> s, t |-> t, a |-> a, b |-> b, vs |-> vs, out |-> out, nd |-> nd]
Emit(st) == prog' = Append(prog, st) /\ lastout' = st.out
SetSeq(S) == LET RECURSIVE F(_) F(X) == IF X = {} THEN <<>> ELSE LET m == CHOOSE x \in X : \A y \in X : x <= y IN <<m>> \o F(X \ {m}) IN F(S)
Init == dim = [s \in Slots |-> -1] /\ prog = <<>> /\ lastout = "ok"

\* ---- constructors and destructor
New(s, n, e) == /\ ~Alive(s) /\ dim' = [dim EXCEPT ![s] = n] /\ Emit(Step("new", s, 0, n, e, <<>>, "ok", n))
Copy(s, t) == /\ ~Alive(s) /\ Alive(t) /\ dim' = [dim EXCEPT ![s] = dim[t]] /\ Emit(Step("copy", s, t, 0, 0, <<>>, "ok", dim[t]))
Delete(s) == /\ Alive(s) /\ dim' = [dim EXCEPT ![s] = -1] /\ Emit(Step("delete", s, 0, 0, 0, <<>>, "ok", -1))
\* ---- binary operations that require equal dimensions
BinOps == {"intersection", "upper_bound", "difference", "time_elapse", "contains", "strictly_contains", "is_disjoint_from", "assign_copy"}
Bin(op, s, t) == /\ Alive(s) /\ Alive(t)
                 /\ LET good == dim[s] = dim[t] \/ op = "assign_copy"
                        nd == IF op = "assign_copy" THEN dim[t] ELSE dim[s] IN
                    /\ dim' = [dim EXCEPT ![s] = nd]
                    /\ Emit(Step(op, s, t, 0, 0, <<>>, IF good THEN "ok" ELSE "inv", nd))
Concat(s, t) == /\ Alive(s) /\ Alive(t) /\ dim[s] + dim[t] <= MaxDim + 2
                /\ dim' = [dim EXCEPT ![s] = dim[s] + dim[t]] /\ Emit(Step("concatenate", s, t, 0, 0, <<>>, "ok", dim[s] + dim[t]))
\* ---- dimension changes
AddDims(op, s, m) == /\ Alive(s) /\ dim[s] + m <= MaxDim + 2
                     /\ dim' = [dim EXCEPT ![s] = dim[s] + m] /\ Emit(Step(op, s, 0, m, 0, <<>>, "ok", dim[s] + m))
RemoveHigher(s, n) == /\ Alive(s)
                      /\ LET good == n <= dim[s]  nd == IF good THEN n ELSE dim[s] IN
                         dim' = [dim EXCEPT ![s] = nd] /\ Emit(Step("remove_higher", s, 0, n, 0, <<>>, IF good THEN "ok" ELSE "inv", nd))
RemoveDims(s, V) == /\ Alive(s)
                    /\ LET good == \A v \in V : v < dim[s]  nd == IF good THEN dim[s] - Cardinality(V) ELSE dim[s] IN
                       dim' = [dim EXCEPT ![s] = nd] /\ Emit(Step("remove_dims", s, 0, 0, 0, SetSeq(V), IF good THEN "ok" ELSE "inv", nd))
Expand(s, v, m) == /\ Alive(s) /\ dim[s] + m <= MaxDim + 2
                   /\ LET good == v < dim[s]  nd == IF good THEN dim[s] + m ELSE dim[s] IN
                      dim' = [dim EXCEPT ![s] = nd] /\ Emit(Step("expand", s, 0, v, m, <<>>, IF good THEN "ok" ELSE "inv", nd))
Fold(s, V, v) == /\ Alive(s)
                 /\ LET good == v < dim[s] /\ (\A w \in V : w < dim[s]) /\ v \notin V  nd == IF good THEN dim[s] - Cardinality(V) ELSE dim[s] IN
                    dim' = [dim EXCEPT ![s] = nd] /\ Emit(Step("fold", s, 0, v, 0, SetSeq(V), IF good THEN "ok" ELSE "inv", nd))
\* a (partial) injective map given as the sequence of images, -1 = not mapped; well-formed maps only (the domain is exactly 0..dim-1)
Map(s, img) == /\ Alive(s) /\ Len(img) = dim[s]
               /\ LET nd == Cardinality({i \in 1..Len(img) : img[i] >= 0}) IN
                  dim' = [dim EXCEPT ![s] = nd] /\ Emit(Step("map_dims", s, 0, 0, 0, img, "ok", nd))
\* ---- calls with a variable, a linear expression of dimension a, a denominator b
ExprOps == {"affine_image", "affine_preimage", "generalized_affine_image", "bounded_affine_image"}
ExprCall(op, s, v, ed, den) == /\ Alive(s)
                               /\ LET good == den # 0 /\ v < dim[s] /\ ed <= dim[s] IN
                                  UNCHANGED dim /\ Emit(Step(op, s, 0, ed, den, <<v>>, IF good THEN "ok" ELSE "inv", dim[s]))
\* ---- calls with a constraint / linear expression of dimension a only
DimOps == {"refine_with_constraint", "add_constraint", "relation_with_constraint", "bounds_from_above", "maximize", "refine_with_congruence"}
DimCall(op, s, cd) == /\ Alive(s) /\ UNCHANGED dim /\ Emit(Step(op, s, 0, cd, 0, <<>>, IF cd <= dim[s] THEN "ok" ELSE "inv", dim[s]))
Unconstrain(s, v) == /\ Alive(s) /\ UNCHANGED dim /\ Emit(Step("unconstrain", s, 0, v, 0, <<>>, IF v < dim[s] THEN "ok" ELSE "inv", dim[s]))
\* ---- observers and unary operations that always succeed
Plain(op, s) == /\ Alive(s) /\ UNCHANGED dim /\ Emit(Step(op, s, 0, 0, 0, <<>>, "ok", dim[s]))
PlainOps == {"space_dimension", "is_empty", "is_universe", "is_bounded", "OK", "topological_closure", "affine_dimension"}

D == 0..MaxDim
Next ==
  /\ Len(prog) < MaxLen
  /\ \/ \E s \in Slots, n \in D, e \in {0, 1} : New(s, n, e)
     \/ \E s, t \in Slots : Copy(s, t)
     \/ \E s \in Slots : Delete(s)
     \/ \E op \in BinOps, s, t \in Slots : Bin(op, s, t)
     \/ \E s, t \in Slots : Concat(s, t)
     \/ \E op \in {"embed", "project"}, s \in Slots, m \in 0..2 : AddDims(op, s, m)
     \/ \E s \in Slots, n \in 0..(MaxDim + 1) : RemoveHigher(s, n)
     \/ \E s \in Slots, V \in SUBSET (0..MaxDim) : Cardinality(V) <= 2 /\ RemoveDims(s, V)
     \/ \E s \in Slots, v \in 0..MaxDim, m \in 0..2 : Expand(s, v, m)
     \/ \E s \in Slots, V \in SUBSET (0..MaxDim), v \in 0..MaxDim : Cardinality(V) <= 2 /\ Fold(s, V, v)
     \/ \E op \in ExprOps, s \in Slots, v \in 0..MaxDim, ed \in 0..(MaxDim + 1), den \in {-2, 0, 1, 3} : ExprCall(op, s, v, ed, den)
     \/ \E op \in DimOps, s \in Slots, cd \in 0..(MaxDim + 1) : DimCall(op, s, cd)
     \/ \E s \in Slots, v \in 0..MaxDim : Unconstrain(s, v)
     \/ \E op \in PlainOps, s \in Slots : Plain(op, s)
Spec == Init /\ [][Next]_vars

(* ---- the machine's own invariants (exhaustive, DimMC.cfg) *)
TypeOK == \A s \in Slots : dim[s] \in -1..(MaxDim + 2)
\* a rejected call changes no dimension; an accepted one records the receiver's new dimension
StepOK == prog # <<>> =>
  LET st == prog[Len(prog)] IN
  /\ st.out \in {"ok", "inv"}
  /\ (st.op # "delete" => st.nd = dim[st.s])
RejectedUnchanged == [][lastout' = "inv" => dim' = dim]_vars

(* ---- simulation mode (DimSim.cfg): a random walk with the same actions, biased towards live objects; prints the behaviour *)
PickSet(k) == IF k = 0 THEN {} ELSE IF k = 1 THEN {RE(0..MaxDim)} ELSE {RE(0..MaxDim), RE(0..MaxDim)}
\* a well-formed map: k of the n dimensions are kept and sent bijectively onto 0..k-1, the others are not mapped
PickImg(n) == LET keep == RE(SUBSET (1..n))
                  k == Cardinality(keep)
                  bij == IF k = 0 THEN <<>> ELSE RE({p \in [1..k -> 0..(k - 1)] : \A i, j \in 1..k : i # j => p[i] # p[j]})
                  rank(i) == Cardinality({j \in keep : j <= i})
              IN [i \in 1..n |-> IF i \in keep THEN bij[rank(i)] ELSE -1]
SimNext ==
  /\ Len(prog) < MaxLen
  /\ LET dead == {s \in Slots : ~Alive(s)}  live == {s \in Slots : Alive(s)} IN
     \E k \in {RE(1..20)} :
       IF live = {} \/ (k = 1 /\ dead # {}) THEN \E s \in {RE(IF dead # {} THEN dead ELSE Slots)}, n \in {RE(D)}, e \in {RE({0, 0, 1})} : (IF Alive(s) THEN Delete(s) ELSE New(s, n, e))
       ELSE IF k = 2 /\ dead # {} THEN \E s \in {RE(dead)}, t \in {RE(live)} : Copy(s, t)
       ELSE IF k = 3 THEN \E s \in {RE(live)} : Delete(s)
       ELSE IF k \in {4, 5, 6} THEN \E op \in {RE(BinOps)}, s \in {RE(live)}, t \in {RE(live)} : Bin(op, s, t)
       ELSE IF k = 7 THEN \E s \in {RE(live)}, t \in {RE(live)} : (IF dim[s] + dim[t] <= MaxDim + 2 THEN Concat(s, t) ELSE Plain("space_dimension", s))
       ELSE IF k = 8 THEN \E op \in {RE({"embed", "project"})}, s \in {RE(live)}, m \in {RE(0..2)} : (IF dim[s] + m <= MaxDim + 2 THEN AddDims(op, s, m) ELSE Plain("OK", s))
       ELSE IF k = 9 THEN \E s \in {RE(live)}, n \in {RE(0..(MaxDim + 1))} : RemoveHigher(s, n)
       ELSE IF k = 10 THEN \E s \in {RE(live)}, V \in {PickSet(RE(0..2))} : RemoveDims(s, V)
       ELSE IF k = 11 THEN \E s \in {RE(live)}, v \in {RE(0..MaxDim)}, m \in {RE(0..2)} : (IF dim[s] + m <= MaxDim + 2 THEN Expand(s, v, m) ELSE Plain("is_empty", s))
       ELSE IF k = 12 THEN \E s \in {RE(live)}, V \in {PickSet(RE(0..2))}, v \in {RE(0..MaxDim)} : Fold(s, V, v)
       ELSE IF k = 13 THEN \E s \in {RE(live)} : (IF dim[s] \in 1..3 THEN \E img \in {PickImg(dim[s])} : Map(s, img) ELSE Plain("is_universe", s))
       ELSE IF k \in {14, 15} THEN \E op \in {RE(ExprOps)}, s \in {RE(live)}, v \in {RE(0..MaxDim)}, ed \in {RE(0..(MaxDim + 1))}, den \in {RE({-2, 0, 1, 1, 3})} : ExprCall(op, s, v, ed, den)
       ELSE IF k \in {16, 17} THEN \E op \in {RE(DimOps)}, s \in {RE(live)}, cd \in {RE(0..(MaxDim + 1))} : DimCall(op, s, cd)
       ELSE IF k = 18 THEN \E s \in {RE(live)}, v \in {RE(0..MaxDim)} : Unconstrain(s, v)
       ELSE \E op \in {RE(PlainOps)}, s \in {RE(live)} : Plain(op, s)
SimSpec == Init /\ [][SimNext]_vars
EmitProg == Len(prog) = MaxLen => PrintT(<<"PROG", ToJson(prog)>>)
=============================================================================
