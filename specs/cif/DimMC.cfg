CONSTANTS Slots = {1, 2}
 MaxDim = 2
 MaxLen = 3
SPECIFICATION Spec
INVARIANTS TypeOK StepOK
PROPERTY RejectedUnchanged
CHECK_DEADLOCK FALSE
