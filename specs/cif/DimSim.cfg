CONSTANTS Slots = {1, 2, 3}
 MaxDim = 3
 MaxLen = 24
SPECIFICATION SimSpec
CONSTRAINT EmitProg
CHECK_DEADLOCK FALSE
