---------------------------- MODULE GridHist ----------------------------
(* History generator for the grid pool (C05; same conventions as specs/poly/PolyHist.tla): per slot the driver
   knows alive/dimension and a hidden anchor point; congruences are mostly drawn among those the anchor
   satisfies, generators near the anchor, so that grids stay non-empty.  Recipe mode: two constructors,
   nd state-driver calls on slot 1, one target operation, two observers.  IllShare percent of the calls
   are ill-formed on purpose. *)
EXTENDS Integers, Sequences, TLC, Json, FiniteSets, SequencesExt
CONSTANTS MaxLen, Slots, MaxDim, OpSet, IllShare, CoefMax, Recipe, Shape   \* Shape: unused here (shared configuration with PolyHist)
Coef == (-CoefMax)..CoefMax
RE(S) == RandomElement(S)
Mat(s) == SubSeq(s, 1, Len(s))
Vec(n) == Mat([i \in 1..n |-> RE(Coef)])
SetToSeqL(S) == SetToSortSeq(S, <)
Dot(u, v) == LET RECURSIVE D(_)
                 D(i) == IF i = 0 THEN 0 ELSE u[i] * v[i] + D(i-1)
             IN D(IF Len(u) < Len(v) THEN Len(u) ELSE Len(v))
Ill(x) == RE(1..100) <= IllShare
VARIABLES prog, dim, anchor, phase, cur, focus, nd, rk
vars == <<prog, dim, anchor, phase, cur, focus, nd, rk>>
D0 == [op |-> "", dst |-> 1, src |-> 0, n |-> 0, topo |-> "G", k |-> "x", var |-> 0, den |-> 1, mod |-> 0,
       v |-> <<>>, w |-> <<>>, vs |-> <<>>, cs |-> <<>>, gs |-> <<>>]
Init == /\ prog = <<>> /\ dim = [s \in Slots |-> -1]
        /\ anchor = [s \in Slots |-> [i \in 1..MaxDim |-> 0]]
        /\ phase = "setup" /\ cur = "none" /\ focus = 1 /\ nd = 0 /\ rk = "op"
\* (Init is evaluated once per TLC run: the per-history random draws are made by this first step)
Setup == /\ phase = "setup" /\ phase' = "op"
         /\ anchor' = Mat([s \in 1..3 |-> Mat([i \in 1..(MaxDim + 2) |-> RE(-1..1)])])
         /\ nd' \in {RE(0..3)} /\ rk' \in {IF "chain" \in OpSet THEN "chain" ELSE RE({"op", "op", "twin"})}
         /\ UNCHANGED <<prog, dim, cur, focus>>
Alive(s) == dim[s] >= 0
AliveS == {s \in Slots : Alive(s)}
\* congruence (mod md, md = 0: equality) over n dimensions that the integer anchor a satisfies:  t.x - t.a + md*j = 0 (mod md)
Friendly(a, n, md) == LET mk(t, j) == Mat(<<(-Dot(t, a)) + md * j>> \o t)
                      IN CHOOSE r \in {mk(t, j) : t \in {Vec(n)}, j \in {RE(-1..1)}} : TRUE
AnyRow(n) == Mat(<<RE(Coef)>> \o Vec(n))
ModKinds == {"eq", "m1", "m2", "m2", "m3", "m4"}
ModOf(k) == IF k = "eq" THEN 0 ELSE IF k = "m1" THEN 1 ELSE IF k = "m2" THEN 2 ELSE IF k = "m3" THEN 3 ELSE 4
CgFor(s, n) == CHOOSE c \in {[k |-> k, v |-> IF RE(1..4) <= 3 THEN Friendly(anchor[s], n, ModOf(k)) ELSE AnyRow(n)] : k \in {RE(ModKinds)}} : TRUE
GGOf(kinds, a, n) == LET mk(k, d, t) == [k |-> k, v |-> IF k = "point" THEN Mat(<<d>> \o [i \in 1..n |-> d * a[i] + RE(-1..1)])
                                                     ELSE IF k = "param" THEN Mat(<<d>> \o t)
                                                     ELSE Mat(<<0>> \o (IF n > 0 /\ \A i \in 1..n : t[i] = 0 THEN [i \in 1..n |-> IF i = 1 THEN 1 ELSE 0] ELSE t))]
                     IN CHOOSE g \in {mk(k, d, t) : k \in {RE(kinds)}, d \in {RE({1, 1, 2, 3})}, t \in {Vec(n)}} : TRUE
GGFor(s, n) == GGOf({"point", "param", "param", "line"}, anchor[s], n)
PointFor(s, n) == [k |-> "point", v |-> Mat(<<1>> \o [i \in 1..n |-> anchor[s][i]])]
RandSeq(cnt, F(_)) == Mat([i \in 1..cnt |-> F(i)])
Emit(rec) == prog' = Append(prog, rec)
Keep == UNCHANGED <<dim, anchor>>
CtorOps == {"new", "from_cgs", "from_ggs"}
UnObs == {"congruences", "min_congruences", "grid_generators", "min_grid_generators", "space_dimension", "affine_dimension", "is_empty",
          "is_universe", "is_discrete", "is_bounded", "is_topologically_closed", "contains_integer_point", "OK"}
VarObs == {"constrains"}
ExprObs == {"bounds_from_above", "bounds_from_below", "maximize", "minimize", "frequency"}
BinObs == {"contains", "strictly_contains", "is_disjoint_from", "equals"}
CgOps == {"add_congruence", "refine_with_congruence", "relation_with_congruence"}
CgsOps == {"add_congruences", "refine_with_congruences"}
ConOps == {"add_constraint", "refine_with_constraint", "relation_with_constraint"}
GGOps == {"add_grid_generator", "relation_with_grid_generator"}
GGsOps == {"add_grid_generators"}
BinMut == {"intersection", "upper_bound", "upper_bound_if_exact", "difference", "time_elapse"}
\* widenings (C08): argument slot, optional token counter (mod = 1: a pointer is passed, den = tokens), limiting congruences
GLimOps == {"limited_congruence", "limited_generator", "limited_extrapolation"}
WidOps == {"congruence_widening", "generator_widening", "widening"} \cup GLimOps
PoolOps == {"copy_from", "assign", "swap", "rebuild", "dumpload", "destroy"}
UnMut == {"topological_closure"}
ImgOps == {"affine_image", "affine_preimage", "gen_affine_image", "gen_affine_preimage"}
DimUp == {"add_dims_embed", "add_dims_project", "expand", "concatenate"}
DimDown == {"remove_dims", "remove_higher", "fold"}
DimOther == {"unconstrain", "unconstrain_set", "map_dims"}
AllOps == CtorOps \cup UnObs \cup VarObs \cup ExprObs \cup BinObs \cup CgOps \cup CgsOps \cup ConOps \cup GGOps \cup GGsOps
          \cup BinMut \cup WidOps \cup PoolOps \cup UnMut \cup ImgOps \cup DimUp \cup DimDown \cup DimOther
DriverOps == {"min_congruences", "min_grid_generators", "congruences", "grid_generators", "add_grid_generator", "add_congruence", "is_empty", "contains", "equals"}
\* recipe "twin" (equal sets through different histories): ctor, ctor, nd drivers on slot 1, slot 2 := rebuild of slot 1 (one of four ways of
\* reconstructing the same grid), the congruences of both are minimized, then the binary observers must treat the two as the same set
\* recipe "chain" (C08, selected by the pseudo-operation "chain" in OpSet): ctor on slot 1, then 2 + nd times
\* [slot 2 := copy of slot 1; grow slot 1 by a generator / an image; widen slot 1 with slot 2]
RecipeLen == IF rk = "op" THEN 5 + nd ELSE IF rk = "chain" THEN 1 + 3 * (2 + nd) ELSE 7 + nd
GrowOps == {"add_grid_generator", "add_grid_generator", "add_grid_generators", "affine_image", "unconstrain"} \cap OpSet
Twin2 == Recipe /\ rk = "twin" /\ Len(prog) = 3 + nd
RecipeTargets == (AllOps \cap OpSet) \ (CtorOps \cup PoolOps)
RecipeOp == LET L == Len(prog) IN
            IF rk = "chain" THEN (IF L = 0 THEN RE({"from_cgs", "from_ggs", "from_ggs"})
                                  ELSE IF (L - 1) % 3 = 0 THEN "copy_from"
                                  ELSE IF (L - 1) % 3 = 1 THEN RE(IF GrowOps = {} THEN {"add_grid_generator"} ELSE GrowOps)
                                  ELSE RE(WidOps \cap OpSet))
            ELSE IF L = 0 THEN RE({"from_cgs", "from_ggs"})
            ELSE IF L = 1 THEN RE({"from_cgs", "from_ggs", "new"})
            ELSE IF L < 2 + nd THEN RE(DriverOps)
            ELSE IF rk = "op" THEN (IF L = 2 + nd THEN RE(RecipeTargets) ELSE IF L = 3 + nd THEN "min_congruences" ELSE "min_grid_generators")
            ELSE IF L = 2 + nd THEN "rebuild" ELSE IF L \in {3 + nd, 4 + nd} THEN RE({"min_congruences", "min_congruences", "congruences"})
            ELSE IF L = 5 + nd THEN "equals" ELSE RE({"contains", "strictly_contains", "equals", "is_disjoint_from"})
ChooseOp == /\ phase = "op" /\ Len(prog) < (IF Recipe THEN RecipeLen ELSE MaxLen)
            /\ LET ok == {o \in (AllOps \cap OpSet) : o \in CtorOps \/ AliveS # {}} IN
               \E op \in {IF Recipe THEN RecipeOp
                          ELSE IF AliveS = {} \/ (Cardinality(AliveS) < Cardinality(Slots) /\ RE(1..3) = 1) THEN RE(CtorOps \cap OpSet)
                          ELSE IF RE(1..3) = 1 /\ (DriverOps \cap ok) # {} THEN RE(DriverOps \cap ok) ELSE RE(ok)} : cur' = op
            /\ phase' = "args" /\ UNCHANGED <<prog, dim, anchor, focus, nd, rk>>
Args ==
  /\ phase = "args" /\ phase' = "op" /\ cur' = "none" /\ UNCHANGED <<nd, rk>>
  /\ \E s0 \in {IF Recipe THEN (IF (Len(prog) = 1 /\ rk # "chain") \/ Twin2 THEN 2 ELSE 1) ELSE IF AliveS = {} THEN focus ELSE IF Alive(focus) /\ RE(1..3) <= 2 THEN focus ELSE RE(AliveS)} : focus' = s0 /\
     \E ill \in {IF Recipe /\ Len(prog) # 2 + nd THEN FALSE ELSE Ill(Len(prog))} :
     \/ /\ cur \in CtorOps
        /\ \E s \in {IF Recipe \/ RE(1..2) = 1 THEN s0 ELSE RE(Slots)} :
           \E n \in {IF Recipe /\ Len(prog) = 1 THEN dim[1] ELSE IF Recipe THEN RE(1..MaxDim) ELSE RE(0..MaxDim)} : \E cnt \in {RE(1..3)} :
             /\ \/ cur = "new" /\ Emit([D0 EXCEPT !.op = cur, !.dst = s, !.n = n, !.k = RE({"universe", "universe", "empty"})])
                \/ cur = "from_cgs" /\ Emit([D0 EXCEPT !.op = cur, !.dst = s, !.n = n, !.cs = RandSeq(cnt, LAMBDA i : CgFor(s, n))])
                \/ cur = "from_ggs" /\ Emit([D0 EXCEPT !.op = cur, !.dst = s, !.n = n,
                        !.gs = (IF ill THEN <<>> ELSE <<PointFor(s, n)>>) \o RandSeq(cnt - 1, LAMBDA i : IF n = 0 THEN [k |-> "point", v |-> <<1>>] ELSE GGFor(s, n))])
             /\ IF ill /\ cur = "from_ggs" THEN Keep ELSE dim' = [dim EXCEPT ![s] = n] /\ UNCHANGED anchor
     \/ /\ cur \in UnObs \cup UnMut
        /\ \E s \in {s0} : Emit([D0 EXCEPT !.op = cur, !.dst = s, !.n = dim[s]]) /\ Keep
     \/ /\ cur \in VarObs
        /\ \E s \in {s0} : Emit([D0 EXCEPT !.op = cur, !.dst = s, !.n = dim[s], !.var = IF ill \/ dim[s] = 0 THEN dim[s] ELSE RE(0..(dim[s]-1))]) /\ Keep
     \/ /\ cur \in ExprObs
        /\ \E s \in {s0} : \E n \in {IF ill THEN dim[s] + 1 ELSE dim[s]} : Emit([D0 EXCEPT !.op = cur, !.dst = s, !.n = dim[s], !.v = AnyRow(n)]) /\ Keep
     \/ /\ cur \in BinObs \cup BinMut
        /\ \E s \in {s0} : \E t \in {LET c == {t \in AliveS : dim[t] = dim[s]} IN IF Recipe /\ Alive(3 - s) THEN 3 - s ELSE IF ill \/ c = {} THEN RE(AliveS) ELSE RE(c)} :
             Emit([D0 EXCEPT !.op = cur, !.dst = s, !.src = t, !.n = dim[s], !.var = RE(0..1)]) /\ Keep
     \/ /\ cur \in WidOps
        /\ \E s \in {s0} : \E t \in {LET c == {t \in AliveS : dim[t] = dim[s]} IN IF Recipe /\ Alive(3 - s) THEN 3 - s ELSE IF ill \/ c = {} THEN RE(AliveS) ELSE RE(c)} :
           \E cnt \in {IF cur \in GLimOps THEN RE(0..2) ELSE 0} :
             Emit([D0 EXCEPT !.op = cur, !.dst = s, !.src = t, !.n = dim[s], !.var = RE(0..3), !.mod = RE({0, 0, 1}), !.den = RE(0..2),
                              !.cs = RandSeq(cnt, LAMBDA i : CgFor(s, dim[s]))]) /\ Keep
     \/ /\ cur \in CgOps
        /\ \E s \in {s0} : \E n \in {IF ill THEN dim[s] + 1 ELSE dim[s]} : \E c \in {CgFor(s, n)} :
             Emit([D0 EXCEPT !.op = cur, !.dst = s, !.n = n, !.mod = ModOf(c.k), !.v = c.v]) /\ Keep
     \/ /\ cur \in CgsOps
        /\ \E s \in {s0} : \E n \in {IF ill THEN dim[s] + 1 ELSE dim[s]} : \E cnt \in {RE(0..3)} :
             Emit([D0 EXCEPT !.op = cur, !.dst = s, !.n = n, !.var = RE(0..1), !.cs = RandSeq(cnt, LAMBDA i : CgFor(s, n))]) /\ Keep
     \/ /\ cur \in ConOps
        /\ \E s \in {s0} : \E n \in {IF ill THEN dim[s] + 1 ELSE dim[s]} : \E k \in {RE({"eq", "eq", "ge", "gt"})} :
             Emit([D0 EXCEPT !.op = cur, !.dst = s, !.n = n, !.k = k, !.v = IF RE(1..2) = 1 THEN Friendly(anchor[s], n, 0) ELSE AnyRow(n)]) /\ Keep
     \/ /\ cur \in GGOps
        /\ \E s \in {s0} : \E n \in {IF ill THEN dim[s] + 1 ELSE dim[s]} : \E g \in {GGFor(s, n)} :
             (n > 0 \/ g.k = "point") /\ Emit([D0 EXCEPT !.op = cur, !.dst = s, !.n = n, !.k = g.k, !.v = g.v]) /\ Keep
     \/ /\ cur \in GGsOps
        /\ \E s \in {s0} : \E n \in {IF ill THEN dim[s] + 1 ELSE dim[s]} : \E cnt \in {RE(0..2)} :
             Emit([D0 EXCEPT !.op = cur, !.dst = s, !.n = n, !.var = RE(0..1),
                              !.gs = (IF ill THEN <<>> ELSE <<PointFor(s, n)>>) \o RandSeq(cnt, LAMBDA i : IF n = 0 THEN [k |-> "point", v |-> <<1>>] ELSE GGFor(s, n))]) /\ Keep
     \/ /\ cur \in ImgOps
        /\ \E s \in {s0} : LET n == dim[s] IN
             Emit([D0 EXCEPT !.op = cur, !.dst = s, !.n = n, !.var = IF (ill /\ RE(1..3) = 1) \/ n = 0 THEN n ELSE RE(0..(n-1)),
                              !.den = IF ill /\ RE(1..3) = 1 THEN 0 ELSE RE({-2, -1, 1, 1, 2}), !.mod = IF cur \in {"gen_affine_image", "gen_affine_preimage"} THEN RE({0, 1, 2, 3}) ELSE 0,
                              !.v = AnyRow(IF ill /\ RE(1..3) = 1 THEN n + 1 ELSE n)]) /\ Keep
     \/ /\ cur \in DimUp
        /\ \E s \in {s0} : \E t \in {IF Recipe /\ Alive(3 - s) THEN 3 - s ELSE RE(AliveS)} : \E add \in {IF cur = "concatenate" THEN dim[t] ELSE RE(0..2)} :
           \E ev \in {IF ill \/ dim[s] = 0 THEN dim[s] ELSE RE(0..(dim[s]-1))} :
             /\ dim[s] + add <= MaxDim
             /\ Emit([D0 EXCEPT !.op = cur, !.dst = s, !.src = IF cur = "concatenate" THEN t ELSE 0, !.n = dim[s], !.var = IF cur = "expand" THEN ev ELSE add, !.den = add])
             /\ IF cur = "expand" /\ ev = dim[s] THEN Keep ELSE dim' = [dim EXCEPT ![s] = dim[s] + add] /\ UNCHANGED anchor
     \/ /\ cur \in DimDown
        /\ \E s \in {s0} : LET n == dim[s] IN
             \/ cur = "remove_higher" /\ \E m \in {IF ill THEN n + 1 ELSE RE(0..n)} :
                  Emit([D0 EXCEPT !.op = cur, !.dst = s, !.n = n, !.var = m]) /\ (IF ill THEN Keep ELSE dim' = [dim EXCEPT ![s] = m] /\ UNCHANGED anchor)
             \/ cur = "remove_dims" /\ \E R \in {IF n = 0 THEN {} ELSE RE(SUBSET (0..(n-1)))} :
                  Emit([D0 EXCEPT !.op = cur, !.dst = s, !.n = n, !.vs = SetToSeqL(IF ill THEN R \cup {n} ELSE R)])
                  /\ (IF ill THEN Keep ELSE dim' = [dim EXCEPT ![s] = n - Cardinality(R)] /\ UNCHANGED anchor)
             \/ cur = "fold" /\ n > 0 /\ \E dst \in {RE(0..(n-1))} : \E R \in {RE(SUBSET ((0..(n-1)) \ {dst}))} :
                  Emit([D0 EXCEPT !.op = cur, !.dst = s, !.n = n, !.var = dst, !.vs = SetToSeqL(IF ill THEN R \cup {dst} ELSE R)])
                  /\ (IF ill THEN Keep ELSE dim' = [dim EXCEPT ![s] = n - Cardinality(R)] /\ UNCHANGED anchor)
     \/ /\ cur \in DimOther
        /\ \E s \in {s0} : LET n == dim[s] IN
             \/ cur = "unconstrain" /\ Emit([D0 EXCEPT !.op = cur, !.dst = s, !.n = n, !.var = IF ill \/ n = 0 THEN n ELSE RE(0..(n-1))]) /\ Keep
             \/ cur = "unconstrain_set" /\ \E R \in {IF n = 0 THEN {} ELSE RE(SUBSET (0..(n-1)))} :
                  Emit([D0 EXCEPT !.op = cur, !.dst = s, !.n = n, !.vs = SetToSeqL(IF ill THEN R \cup {n} ELSE R)]) /\ Keep
             \/ cur = "map_dims" /\ n > 0 /\ \E perm \in {RE(Permutations(0..(n-1)))} : \E drop \in {RE(SUBSET (0..(n-1)))} :
                  LET kept == {i \in 0..(n-1) : i \notin drop}
                      rank(i) == Cardinality({j \in kept : perm[j] < perm[i]})
                      mp == [i \in 1..n |-> IF (i-1) \in kept THEN rank(i-1) ELSE -1] IN
                  Emit([D0 EXCEPT !.op = cur, !.dst = s, !.n = n, !.vs = Mat(mp)]) /\ dim' = [dim EXCEPT ![s] = Cardinality(kept)] /\ UNCHANGED anchor
     \/ /\ cur \in PoolOps
        /\ \E s \in {IF Recipe THEN 2 ELSE RE(IF cur \in {"copy_from", "rebuild", "dumpload"} THEN Slots ELSE AliveS)} : \E t \in {IF Recipe THEN 1 ELSE RE(AliveS)} :
             \/ cur \in {"copy_from", "assign"} /\ (cur = "copy_from" \/ Alive(s)) /\ Emit([D0 EXCEPT !.op = cur, !.dst = s, !.src = t, !.n = dim[t]])
                  /\ dim' = [dim EXCEPT ![s] = dim[t]] /\ anchor' = [anchor EXCEPT ![s] = anchor[t]]
             \/ cur = "swap" /\ Alive(s) /\ Emit([D0 EXCEPT !.op = cur, !.dst = s, !.src = t, !.n = dim[s], !.var = RE(0..1)])
                  /\ dim' = [dim EXCEPT ![s] = dim[t], ![t] = dim[s]] /\ anchor' = [anchor EXCEPT ![s] = anchor[t], ![t] = anchor[s]]
             \/ cur = "rebuild" /\ Emit([D0 EXCEPT !.op = cur, !.dst = s, !.src = t, !.n = dim[t], !.var = RE(1..4)])
                  /\ dim' = [dim EXCEPT ![s] = dim[t]] /\ anchor' = [anchor EXCEPT ![s] = anchor[t]]
             \/ cur = "dumpload" /\ Emit([D0 EXCEPT !.op = cur, !.dst = t, !.src = s, !.n = dim[t]])
                  /\ dim' = [dim EXCEPT ![s] = dim[t]] /\ anchor' = [anchor EXCEPT ![s] = anchor[t]]
             \/ cur = "destroy" /\ RE(1..4) = 1 /\ Emit([D0 EXCEPT !.op = cur, !.dst = s]) /\ dim' = [dim EXCEPT ![s] = -1] /\ UNCHANGED anchor
Next == Setup \/ ChooseOp \/ Args
Spec == Init /\ [][Next]_vars
EmitProg == ((IF Recipe THEN Len(prog) = RecipeLen ELSE Len(prog) \in {MaxLen \div 2, MaxLen}) /\ phase = "op") => PrintT(<<"PROG", ToJson(prog)>>)
=====================================================================
