---------------------------- MODULE GridTrace ----------------------------
(* Trace specification of the grid pool (C05).  State: val[s] = the verified value of slot s: its dimension,
   emptiness, minimized congruences C and minimized grid generators G, proved to denote the same lattice by
   the determinant criterion of GridSem (nothing shared with the library's Hermite-style simplification).
   Every recorded call is one action whose expected post-state is the DEFINITION of the call evaluated on
   the verified pre-state: congruence systems are united, generator systems are united, images act on
   generators, preimages on congruences, the difference is decided by the finite-quotient criterion.  *)
EXTENDS GridSem, Json, IOUtils
Tr == ndJsonDeserialize(IOEnv.TRACE)
VARIABLES l, val, und, bad
Dead == [alive |-> FALSE, n |-> 0, empty |-> TRUE, C |-> <<>>, G |-> <<>>]
Proj(p) == [alive |-> p.alive, n |-> p.n, empty |-> p.empty, C |-> p.C, G |-> p.G]
Init == l = 1 /\ val = <<Dead, Dead, Dead>> /\ und = <<>> /\ bad = <<>>
M(p) == p.n + 1
Pad(v, m) == [i \in 1..m |-> IF i <= Len(v) THEN v[i] ELSE 0]
PadC(R, m) == [i \in 1..Len(R) |-> [mod |-> R[i].mod, v |-> Pad(R[i].v, m)]]
PadG(R, m) == [i \in 1..Len(R) |-> [k |-> R[i].k, v |-> Pad(R[i].v, m)]]
GScale(c, v) == [i \in 1..Len(v) |-> c * v[i]]
RECURSIVE Lcm2(_, _)
Lcm2(a, b) == IF a = 0 \/ b = 0 THEN 0 ELSE (Abs(a) \div Gcd(a, b)) * Abs(b)
LcmSeq(s) == LET RECURSIVE F(_)
                 F(i) == IF i = 0 THEN 1 ELSE Lcm2(s[i], F(i-1))
             IN F(Len(s))
MaxAbs(rows) == LET RECURSIVE F(_, _)
                    F(i, j) == IF i > Len(rows) THEN 0
                               ELSE IF j > Len(rows[i].v) THEN F(i+1, 1)
                               ELSE LET a == Abs(rows[i].v[j]) b == F(i, j+1) IN IF a > b THEN a ELSE b
                IN F(1, 1)
MaxMod(rows) == LET RECURSIVE F(_)
                    F(i) == IF i = 0 THEN 0 ELSE LET a == rows[i].mod b == F(i-1) IN IF a > b THEN a ELSE b
                IN F(Len(rows))
Bound(m) == IF m <= 2 THEN 2000 ELSE IF m = 3 THEN 150 ELSE 40
SmallVal(p) == ~p.alive \/ (Len(p.C) <= 8 /\ Len(p.G) <= 8 /\ MaxAbs(p.C) <= Bound(M(p)) /\ MaxAbs(p.G) <= Bound(M(p)) /\ MaxMod(p.C) <= Bound(M(p)))
WF(p) == ~p.alive \/ (IF p.empty THEN Len(p.G) = 0 ELSE MinPairEq(p.C, p.G, M(p)))
GContains(x, y) == IF y.empty THEN TRUE ELSE IF x.empty THEN FALSE ELSE AllSat(x.C, y.G)     \* y subset of x
SameG(a, b) == IF a.empty \/ b.empty THEN a.empty = b.empty ELSE AllSat(a.C, b.G) /\ AllSat(b.C, a.G)
GWidenOps == {"congruence_widening", "generator_widening", "widening", "limited_congruence", "limited_generator", "limited_extrapolation"}
GLimOps == {"limited_congruence", "limited_generator", "limited_extrapolation"}
Same(a, b) == (a.alive = b.alive) /\ (~a.alive \/ (a.n = b.n /\ (Proj(a) = Proj(b) \/ SameG(a, b))))
\* exact disjointness of two non-empty grids given by minimized generators: the difference of their points is not in Z*params + Q*lines
DisjointGG(Gx, Gy, m) ==
  LET px == Points(Gx)[1]  py == Points(Gy)[1]
      prm == Params(Gx) \o Params(Gy)
      lns == Lines(Gx) \o Lines(Gy)
      D == Lcm2(Lcm2(px.v[1], py.v[1]), LcmSeq([i \in 1..Len(prm) |-> prm[i].v[1]]))
      d == [i \in 1..m |-> IF i = 1 THEN 0 ELSE (D \div px.v[1]) * px.v[i] - (D \div py.v[1]) * py.v[i]]
      Bm == [i \in 1..Len(prm) |-> GScale(D \div prm[i].v[1], Hom(prm[i].v))]
      Wn == SetToSeq(NullSpan([i \in 1..Len(lns) |-> [eq |-> TRUE, v |-> Hom(lns[i].v)]] \o <<[eq |-> TRUE, v |-> Unit(1, m)]>>, m).null)
      phi(v) == [j \in 1..Len(Wn) |-> Dot(Wn[j], v)]
      PB == [i \in 1..Len(Bm) |-> phi(Bm[i])]
      pd == phi(d)
      k == Len(Wn)
      rk(Mx) == IF Len(Mx) = 0 \/ k = 0 THEN 0 ELSE
                 LET RECURSIVE best(_)
                     best(r) == IF r = 0 THEN 0 ELSE IF r <= Len(Mx) /\ r <= k /\ MinorsGcd(Mx, r, k) # 0 THEN r ELSE best(r-1)
                 IN best(IF Len(Mx) < k THEN Len(Mx) ELSE k)
      r0 == rk(PB)  r1 == rk(Append(PB, pd))
  IN IF k = 0 THEN FALSE
     ELSE IF \A j \in 1..k : pd[j] = 0 THEN FALSE
     ELSE IF r1 # r0 THEN TRUE
     ELSE MinorsGcd(Append(PB, pd), r0, k) # MinorsGcd(PB, r0, k)
Disjoint(x, y, m) == x.empty \/ y.empty \/ DisjointGG(x.G, y.G, m)
ZN(m) == <<[k |-> "point", v |-> Unit(1, m)]>> \o [i \in 1..(m-1) |-> [k |-> "param", v |-> [j \in 1..m |-> IF j = 1 \/ j = i + 1 THEN 1 ELSE 0]]]
AsParams(GG) == [i \in 1..Len(GG) |-> IF GG[i].k = "point" THEN [k |-> "param", v |-> GG[i].v] ELSE GG[i]]
ImgGen(g, ev, den, kc) ==
  LET sd == IF den > 0 THEN 1 ELSE -1  ad == Abs(den)
      newc == IF g.k = "point" THEN Dot(ev, g.v) ELSE Dot(Hom(ev), g.v)
  IN [k |-> g.k, v |-> [i \in 1..Len(g.v) |-> IF i = 1 THEN (IF g.k = "line" THEN 0 ELSE ad * g.v[1]) ELSE IF i = kc THEN sd * newc ELSE ad * g.v[i]]]
PreCon(c, ev, den, kc) ==
  LET a == c.v[kc] IN [mod |-> c.mod * Abs(den), v |-> [i \in 1..Len(c.v) |-> (IF i = kc THEN 0 ELSE den * c.v[i]) + a * ev[i]]]
\* relation of a non-empty grid (minimized generators G) with a congruence c
RelCg(x, c, m) ==
  IF x.empty THEN [sat |-> TRUE, inc |-> TRUE, dis |-> TRUE, si |-> FALSE]
  ELSE LET G == x.G
           inc == \A j \in 1..Len(G) : SatCG(c, G[j])
           p == Points(G)[1] qs == Params(G) ls == Lines(G)
           lineFree == \E j \in 1..Len(ls) : Val(c, ls[j]) # 0
           D == Lcm2(p.v[1], LcmSeq([i \in 1..Len(qs) |-> qs[i].v[1]]))
           cp == (D \div p.v[1]) * Val(c, p)
           steps == [i \in 1..Len(qs) |-> (D \div qs[i].v[1]) * Val(c, qs[i])] \o <<D * c.mod>>
           g == LET RECURSIVE F(_)
                    F(i) == IF i = 0 THEN 0 ELSE Gcd(steps[i], F(i-1))
                IN F(Len(steps))
           dis == ~lineFree /\ (IF g = 0 THEN cp # 0 ELSE cp % g # 0)
       IN [sat |-> inc /\ c.mod = 0, inc |-> inc, dis |-> dis, si |-> ~inc /\ ~dis]
AffDimG(g) == IF g.empty THEN 0 ELSE Len(Lines(g.G)) + Len(Params(g.G))
IndexIn(I, x) == LET cs == Props(x.C) qs == Params(I.G) t == Len(cs)
                 IN IF t = 0 THEN 1 ELSE Abs(Det([i \in 1..t |-> [j \in 1..t |-> Val(cs[i], qs[j]) \div (cs[i].mod * qs[j].v[1])]]))
\* does the non-empty result R denote the grid with congruences CC (raw) ?   /  generators GG (raw) ?
EqC(R, CC, m) == ~R.empty /\ RawCEq(CC, R.G, m)
EqG(R, GG, m) == ~R.empty /\ RawGEq(GG, R.C, m)
\* expression constant on the grid ?  (zero on every line and parameter)
ConstOn(x, ev) == \A j \in 1..Len(x.G) : x.G[j].k = "point" \/ Dot(Hom(ev), x.G[j].v) = 0
TrivialCg(v) == \A i \in 2..Len(v) : v[i] = 0
HasPoint(gs) == \E i \in 1..Len(gs) : gs[i].k = "point"
Observers == {"congruences", "min_congruences", "grid_generators", "min_grid_generators", "space_dimension", "affine_dimension", "is_empty",
              "is_universe", "is_discrete", "is_bounded", "is_topologically_closed", "contains_integer_point", "constrains", "OK", "contains",
              "strictly_contains", "is_disjoint_from", "equals", "relation_with_congruence", "relation_with_constraint",
              "relation_with_grid_generator", "bounds_from_above", "bounds_from_below", "maximize", "minimize", "frequency"}
Pre(e, d, s) ==
  LET op == e.op  n == d.n IN
  IF op \in {"new", "from_cgs"} THEN "ok"
  \* generators that are all-zero parameters/lines are dropped on insertion: acceptance is then not asserted
  ELSE IF op = "from_ggs" THEN (IF Len(e.gs) > 0 /\ ~HasPoint(e.gs) THEN (IF \A i \in 1..Len(e.gs) : IsZero(Hom(e.gs[i].v)) THEN "any" ELSE "inv") ELSE "ok")
  ELSE IF op \in {"add_congruence", "refine_with_congruence", "relation_with_congruence", "add_congruences", "refine_with_congruences",
                  "relation_with_constraint", "refine_with_constraint", "relation_with_grid_generator"} THEN (IF e.argn > n THEN "inv" ELSE "ok")
  \* a non-trivial inequality is rejected, unless the grid is already empty (nothing is looked at then)
  ELSE IF op = "add_constraint" THEN (IF e.argn > n THEN "inv" ELSE IF e.k # "eq" /\ ~TrivialCg(e.v) THEN (IF d.empty THEN "any" ELSE "inv") ELSE IF e.k # "eq" THEN "any" ELSE "ok")
  ELSE IF op = "add_grid_generator" THEN (IF e.argn > n THEN "inv" ELSE IF d.empty /\ e.k # "point" THEN "inv" ELSE "ok")
  ELSE IF op = "add_grid_generators" THEN (IF Len(e.gs) = 0 THEN "any" ELSE IF e.argn > n THEN "inv" ELSE IF d.empty /\ ~HasPoint(e.gs) THEN "inv" ELSE "ok")
  ELSE IF op \in {"contains", "strictly_contains", "is_disjoint_from", "intersection", "upper_bound", "upper_bound_if_exact", "difference", "time_elapse",
                  "congruence_widening", "generator_widening", "widening"} THEN (IF s.n # n THEN "inv" ELSE "ok")
  ELSE IF op \in GLimOps THEN (IF s.n # n THEN "inv" ELSE IF Len(e.cs) > 0 /\ e.argn > n THEN "inv" ELSE "ok")
  ELSE IF op \in {"affine_image", "affine_preimage", "gen_affine_image", "gen_affine_preimage"} THEN (IF e.den = 0 \/ e.var >= n \/ Len(e.v) - 1 > n THEN "inv" ELSE "ok")
  ELSE IF op \in {"bounds_from_above", "bounds_from_below", "maximize", "minimize", "frequency"} THEN (IF Len(e.v) - 1 > n THEN "inv" ELSE "ok")
  ELSE IF op \in {"constrains", "unconstrain"} THEN (IF e.var >= n THEN "inv" ELSE "ok")
  ELSE IF op \in {"unconstrain_set", "remove_dims"} THEN (IF \E i \in 1..Len(e.vs) : e.vs[i] >= n THEN "inv" ELSE "ok")
  ELSE IF op = "remove_higher" THEN (IF e.var > n THEN "inv" ELSE "ok")
  ELSE IF op = "expand" THEN (IF e.var >= n THEN "inv" ELSE "ok")
  ELSE IF op = "fold" THEN (IF e.var >= n \/ (\E i \in 1..Len(e.vs) : e.vs[i] >= n \/ e.vs[i] = e.var) THEN "inv" ELSE "ok")
  ELSE IF op = "map_dims" THEN (IF Len(e.vs) # n THEN "und" ELSE "ok")
  ELSE "ok"
V1(b, why) == IF b THEN "ok" ELSE why
CgOf(e, m) == [mod |-> e.mod, v |-> Pad(e.v, m)]
\* adding congruences CC to the non-empty grid d: the result r must be the intersection
AddCgs(d, r, CC, m, tag) ==
  IF d.empty THEN V1(r.empty, tag)
  ELSE IF ~r.empty THEN V1(RawCEq(d.C \o CC, r.G, m), tag)
  ELSE IF \E i \in 1..Len(CC) : RelCg(d, CC[i], m).dis THEN "ok"
  ELSE IF Len(CC) <= 1 THEN tag          \* a single congruence that is not disjoint from d cannot empty it
  ELSE "und"
(* ---- grid widenings (C08); harness protocol as for polyhedra: z = d joined with s, `plain` (no tokens, no limiting congruences) on a copy,
   `wtwin` on arguments rebuilt through another history (rr.num = tokens left there).  The certificate of a grid is the pair
   (number of equalities, number of proper congruences) of its minimized congruence system; a non-stationary step must decrease it. *)
GCert(p) == [ne |-> Cardinality({i \in 1..Len(p.C) : p.C[i].mod = 0}), np |-> Cardinality({i \in 1..Len(p.C) : p.C[i].mod # 0})]
GStab(new, old) == new.ne < old.ne \/ (new.ne = old.ne /\ new.np < old.np)
GWidenCheck(e, d, s, r, m) ==
  LET zG == (IF d.empty THEN <<>> ELSE d.G) \o (IF s.empty THEN <<>> ELSE s.G)
      zEmpty == d.empty /\ s.empty
      IsZ(x) == IF zEmpty THEN x.empty ELSE EqG(x, zG, m)
      pl == e.plain  tw == e.wtwin  t == e.den
      isLim == e.op \in GLimOps
      keeps(c) == LET row == [mod |-> c.mod, v |-> Pad(c.v, m)] IN (zEmpty \/ AllSat(<<row>>, zG)) => (r.empty \/ AllSat(<<row>>, r.G))
  IN IF r.n # d.n \/ ~(GContains(r, d) /\ GContains(r, s)) THEN "C08:widening-not-an-upper-bound"
     ELSE IF ~pl.alive \/ ~tw.alive \/ ~SmallVal(pl) \/ ~SmallVal(tw) THEN "und"
     ELSE IF ~WF(pl) \/ ~WF(tw) THEN "C05:descriptions-disagree"
     ELSE IF ~(pl.ok /\ tw.ok) THEN "C05:OK()"
     ELSE IF ~(Same(Proj(r), Proj(tw)) /\ (e.mod = 0 \/ e.ri = e.rr.num)) THEN "C08:widening-depends-on-the-representation-of-its-arguments"
     ELSE IF e.mod > 0 /\ t > 0 THEN
          (IF isLim THEN V1(GContains(pl, r) /\ (e.ri = t \/ (e.ri = t - 1 /\ IsZ(r))), "C08:limited-extrapolation-with-tokens")
           ELSE IF IsZ(pl) THEN V1(IsZ(r) /\ e.ri = t, "C08:token-consumed-although-widening-loses-nothing")
           ELSE V1(IsZ(r) /\ e.ri = t - 1, "C08:token-not-consumed-or-object-changed-when-widening-would-lose-precision"))
     ELSE IF isLim THEN
          (IF ~GContains(pl, r) THEN "C08:limited-extrapolation-exceeds-the-plain-widening"
           ELSE IF ~(\A i \in 1..Len(e.cs) : keeps(e.cs[i])) THEN "C08:limited-extrapolation-drops-a-supplied-congruence-satisfied-by-the-argument"
           ELSE "ok")
     ELSE IF ~Same(Proj(r), Proj(pl)) THEN "C08:widening-differs-from-the-plain-widening-of-a-copy"
     ELSE IF s.empty \/ r.empty \/ Same(Proj(r), s) THEN "ok"
     ELSE V1(GStab(GCert(r), GCert(s)), "C08:grid-certificate-does-not-decrease-on-a-non-stationary-step")
Sem(e, d, s, r, m) ==
  LET op == e.op IN
  IF op = "new" THEN V1(r.alive /\ r.n = e.argn /\ (IF e.k = "empty" THEN r.empty ELSE ~r.empty /\ Len(Lines(r.G)) = e.argn), "C05:constructor")
  ELSE IF op = "from_cgs" THEN (IF ~r.alive \/ r.n # e.argn THEN "C05:from-congruences" ELSE AddCgs([alive |-> TRUE, n |-> e.argn, empty |-> FALSE, C |-> <<>>, G |-> <<[k |-> "point", v |-> Unit(1, e.argn + 1)]>> \o [i \in 1..e.argn |-> [k |-> "line", v |-> Unit(i + 1, e.argn + 1)]]], r, PadC(e.cs, e.argn + 1), e.argn + 1, "C05:from-congruences"))
  ELSE IF op = "from_ggs" THEN (IF Len(e.gs) = 0 \/ ~HasPoint(e.gs) THEN V1(r.alive /\ r.empty, "C05:from-generators") ELSE V1(r.alive /\ r.n = e.argn /\ EqG(r, PadG(e.gs, e.argn + 1), e.argn + 1), "C05:from-generators"))
  ELSE IF op = "destroy" THEN V1(~r.alive, "C13:destroy")
  ELSE IF op \in {"copy_from", "assign", "rebuild"} THEN V1(Same(r, s), "C13:" \o op)
  ELSE IF op = "swap" THEN V1(Same(r, s) /\ Same(e.post[e.src], d), "C13:swap")
  ELSE IF op = "dumpload" THEN V1(e.ri = 7 /\ Same(e.post[IF e.src > 0 THEN e.src ELSE e.dst], d) /\ Same(r, d), "C15:dump-load")
  \* observers
  ELSE IF op \in {"congruences", "min_congruences"} THEN (IF d.empty THEN "und" ELSE V1(RawCEq(e.obs, d.G, m), "C05:returned-congruences"))
  ELSE IF op \in {"grid_generators", "min_grid_generators"} THEN (IF d.empty THEN V1(Len(e.obs) = 0, "C05:returned-generators") ELSE V1(RawGEq(e.obs, d.C, m), "C05:returned-generators"))
  ELSE IF op = "space_dimension" THEN V1(e.ri = d.n, "C05:space_dimension")
  ELSE IF op = "affine_dimension" THEN V1(e.ri = AffDimG(d), "C05:affine_dimension")
  ELSE IF op = "is_empty" THEN V1(e.rb = d.empty, "C05:is_empty")
  ELSE IF op = "is_universe" THEN V1(e.rb = (~d.empty /\ Len(Lines(d.G)) = d.n), "C05:is_universe")
  ELSE IF op = "is_discrete" THEN V1(e.rb = (d.empty \/ Len(Lines(d.G)) = 0), "C05:is_discrete")
  ELSE IF op = "is_bounded" THEN V1(e.rb = (d.empty \/ AffDimG(d) = 0), "C05:is_bounded")
  ELSE IF op = "is_topologically_closed" THEN V1(e.rb, "C05:is_topologically_closed")
  ELSE IF op = "contains_integer_point" THEN V1(e.rb = (~d.empty /\ ~DisjointGG(d.G, ZN(m), m)), "C05:contains_integer_point")
  ELSE IF op = "constrains" THEN V1(e.rb = (d.empty \/ \E i \in 1..Len(d.C) : d.C[i].v[e.var + 2] # 0), "C05:constrains")
  ELSE IF op = "OK" THEN V1(e.rb, "C05:OK()")
  ELSE IF op = "contains" THEN V1(e.rb = GContains(d, s), "C05:contains")
  ELSE IF op = "strictly_contains" THEN V1(e.rb = (GContains(d, s) /\ ~GContains(s, d)), "C05:strictly_contains")
  ELSE IF op = "equals" THEN V1(e.rb = (d.n = s.n /\ SameG(d, s)), "C05:equals")
  ELSE IF op = "is_disjoint_from" THEN V1(e.rb = Disjoint(d, s, m), "C05:is_disjoint_from")
  ELSE IF op = "relation_with_congruence" THEN
       LET x == RelCg(d, CgOf(e, m), m) IN V1(e.rc.inc = x.inc /\ e.rc.dis = x.dis /\ e.rc.si = x.si, "C05:relation_with_congruence")
  ELSE IF op = "relation_with_constraint" THEN
       (IF e.k = "eq" THEN LET x == RelCg(d, [mod |-> 0, v |-> Pad(e.v, m)], m) IN V1(e.rc.inc = x.inc /\ e.rc.dis = x.dis /\ e.rc.si = x.si, "C05:relation_with_constraint")
        ELSE IF d.empty THEN V1(e.rc.inc /\ e.rc.dis, "C05:relation_with_constraint")
        ELSE IF ~ConstOn(d, Pad(e.v, m)) THEN V1(e.rc.si /\ ~e.rc.inc /\ ~e.rc.dis, "C05:relation_with_constraint")
        ELSE LET p == Points(d.G)[1]  val0 == Dot(Pad(e.v, m), p.v)
                 holds == IF e.k = "gt" THEN val0 > 0 ELSE val0 >= 0 IN
             V1(e.rc.inc = holds /\ e.rc.dis = ~holds /\ ~e.rc.si, "C05:relation_with_constraint"))
  ELSE IF op = "relation_with_grid_generator" THEN
       LET g == [k |-> e.k, v |-> Pad(e.v, m)] IN
       V1(e.rb = (~d.empty /\ \A i \in 1..Len(d.C) : IF g.k = "point" THEN SatCG(d.C[i], g)
                                                     ELSE IF g.k = "line" THEN Dot(d.C[i].v, Hom(g.v)) = 0
                                                     ELSE (IF d.C[i].mod = 0 THEN Dot(d.C[i].v, Hom(g.v)) = 0 ELSE Dot(d.C[i].v, Hom(g.v)) % (d.C[i].mod * g.v[1]) = 0)), "C05:relation_with_grid_generator")
  ELSE IF op \in {"bounds_from_above", "bounds_from_below"} THEN V1(e.rb = (d.empty \/ ConstOn(d, Pad(e.v, m))), "C05:" \o op)
  ELSE IF op \in {"maximize", "minimize"} THEN
       (IF d.empty \/ ~ConstOn(d, Pad(e.v, m)) THEN V1(~e.rr.ok, "C05:" \o op)
        ELSE LET p == Points(d.G)[1] IN V1(e.rr.ok /\ e.rr.den > 0 /\ e.rr.num * p.v[1] = Dot(Pad(e.v, m), p.v) * e.rr.den /\ e.rr.ext, "C05:" \o op))
  ELSE IF op = "frequency" THEN
       (IF d.empty THEN V1(~e.rr.ok, "C05:frequency")
        ELSE LET E == Pad(e.v, m)  ls == Lines(d.G)  qs == Params(d.G)  p == Points(d.G)[1] IN
             IF \E j \in 1..Len(ls) : Dot(Hom(E), ls[j].v) # 0 THEN V1(~e.rr.ok, "C05:frequency")
             ELSE IF ~e.rr.ok THEN "C05:frequency"
             ELSE \* frequency f = gcd of the steps E(q)/div(q); all values are congruent to E(p)/div(p) modulo f
                  LET D == Lcm2(p.v[1], LcmSeq([i \in 1..Len(qs) |-> qs[i].v[1]]))
                      steps == [i \in 1..Len(qs) |-> (D \div qs[i].v[1]) * Dot(Hom(E), qs[i].v)]
                      g == LET RECURSIVE F(_)
                               F(i) == IF i = 0 THEN 0 ELSE Gcd(steps[i], F(i-1))
                           IN F(Len(steps))
                      cp == (D \div p.v[1]) * Dot(E, p.v)
                  IN \* reported frequency fn/fd must equal g/D; reported value vn/vd must be congruent to cp/D modulo g/D
                     IF e.rr.fd <= 0 \/ e.rr.fn * D # g * e.rr.fd THEN "C05:frequency-value"
                     ELSE IF e.rr.den <= 0 THEN "C05:frequency-value"
                     ELSE LET diffnum == e.rr.num * D - cp * e.rr.den     \* (vn/vd - cp/D) * (vd*D)
                          IN IF g = 0 THEN V1(diffnum = 0, "C05:frequency-value")
                             ELSE V1(diffnum % (g * e.rr.den) = 0, "C05:frequency-value"))
  \* mutators
  ELSE IF op \in {"add_congruence", "refine_with_congruence"} THEN AddCgs(d, r, <<CgOf(e, m)>>, m, "C05:" \o op)
  ELSE IF op \in {"add_congruences", "refine_with_congruences"} THEN AddCgs(d, r, PadC(e.cs, m), m, "C05:" \o op)
  ELSE IF op \in {"add_constraint", "refine_with_constraint"} THEN
       (IF e.k = "eq" THEN AddCgs(d, r, <<[mod |-> 0, v |-> Pad(e.v, m)]>>, m, "C05:" \o op)
        ELSE \* an inequality can only be used when it is trivial; refine may ignore it: the result is between the exact refinement and d
             IF Same(r, d) THEN "ok" ELSE IF TrivialCg(e.v) /\ r.empty THEN "ok" ELSE "C05:" \o op)
  ELSE IF op = "add_grid_generator" THEN V1(EqG(r, (IF d.empty THEN <<>> ELSE d.G) \o <<[k |-> e.k, v |-> Pad(e.v, m)]>>, m), "C05:add_grid_generator")
  ELSE IF op = "add_grid_generators" THEN (IF Len(e.gs) = 0 THEN V1(Same(r, d), "C05:add_grid_generators") ELSE V1(EqG(r, (IF d.empty THEN <<>> ELSE d.G) \o PadG(e.gs, m), m), "C05:add_grid_generators"))
  ELSE IF op = "intersection" THEN (IF Disjoint(d, s, m) THEN V1(r.empty, "C05:intersection") ELSE V1(EqC(r, d.C \o s.C, m), "C05:intersection"))
  ELSE IF op = "upper_bound" THEN (IF d.empty /\ s.empty THEN V1(r.empty, "C05:upper_bound") ELSE V1(EqG(r, (IF d.empty THEN <<>> ELSE d.G) \o (IF s.empty THEN <<>> ELSE s.G), m), "C05:upper_bound"))
  ELSE IF op = "upper_bound_if_exact" THEN
       \* for grids the union is a grid iff one contains the other
       LET exact == GContains(d, s) \/ GContains(s, d) IN
       IF e.rb # exact THEN "C05:upper_bound_if_exact-boolean"
       ELSE IF ~e.rb THEN V1(Same(r, d), "C05:upper_bound_if_exact-changed-on-false")
       ELSE V1(Same(r, IF GContains(d, s) THEN d ELSE s), "C05:upper_bound_if_exact-result")
  ELSE IF op = "time_elapse" THEN (IF d.empty \/ s.empty THEN V1(r.empty, "C05:time_elapse") ELSE V1(EqG(r, d.G \o AsParams(s.G), m), "C05:time_elapse"))
  ELSE IF op = "topological_closure" THEN V1(Same(r, d), "C05:topological_closure")
  ELSE IF op = "difference" THEN
       (IF d.empty THEN V1(r.empty, "C05:difference")
        ELSE IF s.empty THEN V1(Same(r, d), "C05:difference")
        ELSE IF GContains(s, d) THEN V1(r.empty, "C05:difference")
        ELSE IF Disjoint(d, s, m) THEN V1(Same(r, d), "C05:difference")
        ELSE \* the intersection I is a non-empty proper sub-grid of d; its description is not logged, so the index-2 case
             \* is decided on the result: it must be the other coset (inside d, disjoint from s, same dimension, index 2)
             IF Same(r, d) THEN
                  \* must not be the index-2 case: then the complement coset (strictly smaller) would be the smallest grid
                  "und"
             ELSE V1(~r.empty /\ GContains(d, r) /\ Disjoint(r, s, m) /\ AffDimG(r) = AffDimG(d) /\ Len(Lines(r.G)) = Len(Lines(d.G)) /\ IndexIn(r, d) = 2, "C05:difference"))
  ELSE IF op \in {"affine_image", "gen_affine_image"} THEN
       (IF d.empty THEN V1(r.empty, "C05:" \o op)
        ELSE LET img == [i \in 1..Len(d.G) |-> ImgGen(d.G[i], Pad(e.v, m), e.den, e.var + 2)]
                 extra == IF op = "gen_affine_image" /\ e.mod # 0 THEN <<[k |-> "param", v |-> [i \in 1..m |-> IF i = 1 THEN 1 ELSE IF i = e.var + 2 THEN Abs(e.mod) ELSE 0]]>> ELSE <<>>
             IN V1(EqG(r, img \o extra, m), "C05:" \o op))
  ELSE IF op \in {"affine_preimage", "gen_affine_preimage"} THEN
       (IF d.empty THEN V1(r.empty, "C05:" \o op)
        ELSE IF op = "gen_affine_preimage" /\ e.mod # 0 THEN "und"
        ELSE IF r.empty THEN (IF Pad(e.v, m)[e.var + 2] # 0 THEN "C05:" \o op ELSE "und")     \* an invertible map has a non-empty preimage
        ELSE V1(EqC(r, [i \in 1..Len(d.C) |-> PreCon(d.C[i], Pad(e.v, m), e.den, e.var + 2)], m), "C05:" \o op))
  ELSE IF op = "unconstrain" THEN (IF d.empty THEN V1(r.empty, "C05:unconstrain") ELSE V1(EqG(r, Append(d.G, [k |-> "line", v |-> Unit(e.var + 2, m)]), m), "C05:unconstrain"))
  ELSE IF op = "unconstrain_set" THEN (IF d.empty THEN V1(r.empty, "C05:unconstrain") ELSE V1(EqG(r, d.G \o [i \in 1..Len(e.vs) |-> [k |-> "line", v |-> Unit(e.vs[i] + 2, m)]], m), "C05:unconstrain"))
  ELSE IF op = "add_dims_embed" THEN
       (IF d.empty THEN V1(r.n = d.n + e.var /\ r.empty, "C05:add_space_dimensions_and_embed")
        ELSE V1(r.n = d.n + e.var /\ EqG(r, PadG(d.G, m + e.var) \o [i \in 1..e.var |-> [k |-> "line", v |-> Unit(m + i, m + e.var)]], m + e.var), "C05:add_space_dimensions_and_embed"))
  ELSE IF op = "add_dims_project" THEN
       (IF d.empty THEN V1(r.n = d.n + e.var /\ r.empty, "C05:add_space_dimensions_and_project")
        ELSE V1(r.n = d.n + e.var /\ EqG(r, PadG(d.G, m + e.var), m + e.var), "C05:add_space_dimensions_and_project"))
  ELSE IF op = "concatenate" THEN
       (IF d.empty \/ s.empty THEN V1(r.n = d.n + s.n /\ r.empty, "C05:concatenate")
        ELSE LET sh(c) == [mod |-> c.mod, v |-> [j \in 1..(m + s.n) |-> IF j = 1 THEN c.v[1] ELSE IF j <= m THEN 0 ELSE c.v[j - m + 1]]] IN
             V1(r.n = d.n + s.n /\ EqC(r, PadC(d.C, m + s.n) \o [i \in 1..Len(s.C) |-> sh(s.C[i])], m + s.n), "C05:concatenate"))
  ELSE IF op \in {"remove_dims", "remove_higher", "map_dims", "fold"} THEN
       LET rm == IF op = "remove_dims" THEN {e.vs[i] + 2 : i \in 1..Len(e.vs)}
                 ELSE IF op = "remove_higher" THEN {j \in 2..m : j - 2 >= e.var}
                 ELSE IF op = "fold" THEN {e.vs[i] + 2 : i \in 1..Len(e.vs)}
                 ELSE {i + 1 : i \in {i \in 1..Len(e.vs) : e.vs[i] < 0}}
           keep == SetToSortSeq({j \in 1..m : j \notin rm}, <)
           nn == Len(keep) - 1
           \* position of old coordinate keep[t] in the result
           newpos(t) == IF op = "map_dims" /\ t > 1 THEN e.vs[keep[t] - 1] + 2 ELSE t
           imgs(g, c) == [k |-> g.k, v |-> [q \in 1..(nn + 1) |-> LET t == CHOOSE t \in 1..Len(keep) : newpos(t) = q IN
                                                                      IF op = "fold" /\ keep[t] = e.var + 2 THEN g.v[c] ELSE g.v[keep[t]]]]
           cols == IF op = "fold" THEN rm \cup {e.var + 2} ELSE {0}
           G == SetToSeq({imgs(d.G[i], c) : i \in 1..Len(d.G), c \in cols})
           Gnz == SelectSeq(G, LAMBDA g : g.k = "point" \/ ~IsZero(g.v))
       IN IF d.empty THEN V1(r.n = nn /\ r.empty, "C05:" \o op) ELSE V1(r.n = nn /\ EqG(r, Gnz, nn + 1), "C05:" \o op)
  ELSE IF op = "expand" THEN
       (IF d.empty THEN V1(r.n = d.n + e.den /\ r.empty, "C05:expand")
        ELSE LET k == e.den  c == e.var + 2
                 Cx == PadC(d.C, m + k)
                 copy(i) == [t \in 1..Len(Cx) |-> [mod |-> Cx[t].mod, v |-> [j \in 1..(m + k) |-> IF j = c THEN 0 ELSE IF j = m + i THEN Cx[t].v[c] ELSE Cx[t].v[j]]]]
                 RECURSIVE All(_)
                 All(i) == IF i = 0 THEN Cx ELSE All(i - 1) \o copy(i)
             IN V1(r.n = d.n + k /\ EqC(r, All(k), m + k), "C05:expand"))
  ELSE IF op \in GWidenOps THEN GWidenCheck(e, d, s, r, m)
  ELSE "und"
Check(e) ==
  LET d == val[e.dst]  s == IF e.src > 0 THEN val[e.src] ELSE d  r == e.post[e.dst]  m == M(d)
      touched == IF e.op = "swap" THEN {e.dst, e.src} ELSE IF e.op = "dumpload" THEN {IF e.src > 0 THEN e.src ELSE e.dst} ELSE {e.dst}
      frameOK == \A i \in 1..3 : (i \notin touched) => Same(e.post[i], val[i])
      allSame == \A i \in 1..3 : Same(e.post[i], val[i])
      pre == Pre(e, d, s)
  IN IF \E i \in 1..3 : e.post[i].alive /\ ~e.post[i].ok THEN "C05:OK()"
     ELSE IF ~(\A i \in 1..3 : SmallVal(e.post[i])) \/ e.big THEN "und"
     ELSE IF ~(\A i \in 1..3 : Proj(e.post[i]) = val[i] \/ WF(e.post[i])) THEN "C05:descriptions-disagree"
     ELSE IF ~frameOK THEN "C13:frame"
     ELSE IF e.exc \in {"dead", "skipped"} THEN V1(allSame, "C13:changed-on-skip")
     ELSE IF e.exc = "unknown-op" THEN "und"
     ELSE IF e.op \notin {"new", "from_cgs", "from_ggs", "destroy", "copy_from", "rebuild"} /\ ~d.alive THEN "und"
     ELSE IF pre = "und" THEN "und"
     ELSE IF pre = "inv" THEN (IF e.exc # "invalid_argument" THEN "C14:rejected-call-not-rejected" ELSE V1(allSame, "C14:rejected-call-changed-value"))
     ELSE IF e.exc # "" THEN (IF pre = "any" THEN V1(allSame, "C14:exception-changed-value") ELSE "C14:unexpected-exception")
     ELSE IF e.op \in Observers /\ ~allSame THEN "C05:observer-changed-value"
     ELSE Sem(e, d, s, r, m)
Next == /\ l <= Len(Tr) + 1
        /\ IF l = Len(Tr) + 1
           THEN JsonSerialize(IOEnv.VOUT, [n |-> Len(Tr), bad |-> bad, und |-> und]) /\ UNCHANGED <<val, und, bad>>
           ELSE LET e == Tr[l] IN
                IF e.e = "Reset" THEN val' = <<Dead, Dead, Dead>> /\ UNCHANGED <<und, bad>>
                ELSE IF e.e \in {"Crash", "Hang"} THEN val' = <<Dead, Dead, Dead>> /\ und' = und /\ bad' = Append(bad, [l |-> l, op |-> e.e, why |-> "C05:" \o e.e])
                ELSE \E c \in {Check(e)} :
                     /\ val' = [i \in 1..3 |-> Proj(e.post[i])]
                     /\ und' = (IF c = "und" THEN Append(und, l) ELSE und)
                     /\ bad' = (IF c \in {"ok", "und"} THEN bad ELSE Append(bad, [l |-> l, op |-> e.op, why |-> c]))
        /\ l' = l + 1
=====================================================================
