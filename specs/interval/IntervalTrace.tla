---------------------------- MODULE IntervalTrace ----------------------------
(* C12: one action per interval operation.  The exact result is computed here from the DEFINITION
   (hull of the corner products with attainment rules, reciprocal-based quotient, tighter-bound meet,
   hull of the two pieces for the difference) over extended rationals -- not by the nine-way sign case
   analysis of the library.  For an exact boundary type the logged result must EQUAL it (bounds,
   openness, infinities, emptiness); for an inexact one (integer or floating-point bounds) it must
   ENCLOSE it.  Floating-point bounds are compared exactly through BigInt (sign * mantissa * 2^e). *)
EXTENDS BigInt, FiniteSets, TLC, Json, IOUtils
Tr == ndJsonDeserialize(IOEnv.TRACE)
Abs(x) == IF x < 0 THEN -x ELSE x
RECURSIVE Gcd(_, _)
Gcd(a, b) == IF b = 0 THEN Abs(a) ELSE Gcd(Abs(b), Abs(a) % Abs(b))
Q(n, d) == LET g == Gcd(n, d) s == IF d < 0 THEN -1 ELSE 1 IN [s |-> 0, n |-> s * (n \div g), d |-> s * (d \div g)]
PInf == [s |-> 1, n |-> 0, d |-> 1]
MInf == [s |-> -1, n |-> 0, d |-> 1]
Fin(x) == x.s = 0
Sgn(x) == IF x.s # 0 THEN x.s ELSE IF x.n > 0 THEN 1 ELSE IF x.n < 0 THEN -1 ELSE 0
Lt(x, y) == IF x.s = -1 THEN y.s # -1 ELSE IF x.s = 1 THEN FALSE
            ELSE IF y.s = 1 THEN TRUE ELSE IF y.s = -1 THEN FALSE ELSE x.n * y.d < y.n * x.d
Eq(x, y) == ~Lt(x, y) /\ ~Lt(y, x)
NegX(x) == IF Fin(x) THEN Q(-x.n, x.d) ELSE [s |-> -x.s, n |-> 0, d |-> 1]
AddX(x, y) == IF Fin(x) /\ Fin(y) THEN Q(x.n * y.d + y.n * x.d, x.d * y.d) ELSE IF Fin(x) THEN y ELSE x
MulX(x, y) == IF Fin(x) /\ Fin(y) THEN Q(x.n * y.n, x.d * y.d)
              ELSE IF Sgn(x) = 0 \/ Sgn(y) = 0 THEN Q(0, 1)
              ELSE IF Sgn(x) * Sgn(y) > 0 THEN PInf ELSE MInf
FromJ(b, isLo) == IF b.inf THEN [v |-> IF isLo THEN MInf ELSE PInf, c |-> FALSE] ELSE [v |-> Q(b.num, b.den), c |-> ~b.open]
Empty == [e |-> TRUE]
MkI(lo, hi) == IF Lt(hi.v, lo.v) \/ (Eq(lo.v, hi.v) /\ ~(lo.c /\ hi.c)) THEN Empty ELSE [e |-> FALSE, lo |-> lo, hi |-> hi]
IvJ(j) == IF j.empty THEN Empty ELSE MkI(FromJ(j.lo, TRUE), FromJ(j.hi, FALSE))
SameB(a, b) == Eq(a.v, b.v) /\ (Fin(a.v) => a.c = b.c)
SameI(a, b) == IF a.e \/ b.e THEN a.e = b.e ELSE SameB(a.lo, b.lo) /\ SameB(a.hi, b.hi)
Has0(x) == LET z == Q(0,1) IN ~x.e /\ (Lt(x.lo.v, z) \/ (Eq(x.lo.v, z) /\ x.lo.c)) /\ (Lt(z, x.hi.v) \/ (Eq(x.hi.v, z) /\ x.hi.c))
MinB(S) == CHOOSE a \in S : \A b \in S : Lt(a.v, b.v) \/ (Eq(a.v, b.v) /\ (a.c \/ ~b.c))
MaxB(S) == CHOOSE a \in S : \A b \in S : Lt(b.v, a.v) \/ (Eq(a.v, b.v) /\ (a.c \/ ~b.c))
NegI(x) == IF x.e THEN Empty ELSE MkI([v |-> NegX(x.hi.v), c |-> x.hi.c], [v |-> NegX(x.lo.v), c |-> x.lo.c])
AddI(x, y) == IF x.e \/ y.e THEN Empty
              ELSE MkI([v |-> AddX(x.lo.v, y.lo.v), c |-> x.lo.c /\ y.lo.c], [v |-> AddX(x.hi.v, y.hi.v), c |-> x.hi.c /\ y.hi.c])
SubI(x, y) == AddI(x, NegI(y))
Zero(b) == Fin(b.v) /\ b.v.n = 0
ProdB(a, b) == [v |-> MulX(a.v, b.v), c |-> (a.c /\ b.c) \/ (Zero(a) /\ a.c) \/ (Zero(b) /\ b.c)]
MulI(x, y) == IF x.e \/ y.e THEN Empty
              ELSE LET C == {ProdB(a, b) : a \in {x.lo, x.hi}, b \in {y.lo, y.hi}}
                       Z == IF Has0(x) \/ Has0(y) THEN {[v |-> Q(0,1), c |-> TRUE]} ELSE {}
                   IN MkI(MinB(C \cup Z), MaxB(C \cup Z))
Recip(b, side) == IF ~Fin(b.v) THEN [v |-> Q(0,1), c |-> FALSE]
                  ELSE IF b.v.n = 0 THEN [v |-> IF side = 1 THEN PInf ELSE MInf, c |-> FALSE]
                  ELSE [v |-> Q(b.v.d, b.v.n), c |-> b.c]
Univ == [e |-> FALSE, lo |-> [v |-> MInf, c |-> FALSE], hi |-> [v |-> PInf, c |-> FALSE]]
IsZeroI(x) == ~x.e /\ Zero(x.lo) /\ Zero(x.hi)
ZeroInside(y) == ~y.e /\ Lt(y.lo.v, Q(0,1)) /\ Lt(Q(0,1), y.hi.v)
DivI(x, y) ==
  IF x.e \/ y.e THEN Empty
  ELSE IF IsZeroI(y) THEN Empty
  ELSE LET z == Q(0,1)
           posSide == ~Lt(y.lo.v, z)
           negSide == ~Lt(z, y.hi.v)
       IN IF posSide THEN MulI(x, MkI(Recip(y.hi, 1), Recip(y.lo, 1)))
          ELSE IF negSide THEN MulI(x, MkI(Recip(y.hi, -1), Recip(y.lo, -1)))
          ELSE IF IsZeroI(x) THEN x
          ELSE Univ
JoinI(x, y) == IF x.e THEN y ELSE IF y.e THEN x ELSE MkI(MinB({x.lo, y.lo}), MaxB({x.hi, y.hi}))
MeetLo(a, b) == IF Lt(a.v, b.v) THEN b ELSE IF Lt(b.v, a.v) THEN a ELSE [v |-> a.v, c |-> a.c /\ b.c]
MeetHi(a, b) == IF Lt(a.v, b.v) THEN a ELSE IF Lt(b.v, a.v) THEN b ELSE [v |-> a.v, c |-> a.c /\ b.c]
MeetI(x, y) == IF x.e \/ y.e THEN Empty ELSE MkI(MeetLo(x.lo, y.lo), MeetHi(x.hi, y.hi))
DiffI(x, y) == IF x.e THEN Empty ELSE IF y.e THEN x
   ELSE LET left == MkI(x.lo, MeetHi(x.hi, [v |-> y.lo.v, c |-> ~y.lo.c]))
            right == MkI(MeetLo(x.lo, [v |-> y.hi.v, c |-> ~y.hi.c]), x.hi)
        IN JoinI(left, right)
RelI(rel, k) == LET b(c) == [v |-> k, c |-> c] lo0 == [v |-> MInf, c |-> FALSE] hi0 == [v |-> PInf, c |-> FALSE] IN
   IF rel = "le" THEN MkI(lo0, b(TRUE)) ELSE IF rel = "lt" THEN MkI(lo0, b(FALSE)) ELSE IF rel = "ge" THEN MkI(b(TRUE), hi0)
   ELSE IF rel = "gt" THEN MkI(b(FALSE), hi0) ELSE MkI(b(TRUE), b(TRUE))
SubsetI(a, b) == a.e \/ (~b.e /\ (Lt(b.lo.v, a.lo.v) \/ (Eq(b.lo.v, a.lo.v) /\ (b.lo.c \/ ~a.lo.c))) /\ (Lt(a.hi.v, b.hi.v) \/ (Eq(b.hi.v, a.hi.v) /\ (b.hi.c \/ ~a.hi.c))))
(* ---- enclosure of an exact interval x by a logged result j whose bounds may be floating point *)
RECURSIVE Pow2B(_)
Pow2B(k) == IF k = 0 THEN BigOf(1) ELSE BMul(BigOf(2), Pow2B(k - 1))
\* sign(logged bound b - rational r) for finite b, r
CmpLogged(b, r) ==
  IF ~b.big THEN (IF Lt(Q(b.num, b.den), r) THEN -1 ELSE IF Lt(r, Q(b.num, b.den)) THEN 1 ELSE 0)
  ELSE LET M == [s |-> b.s, m |-> Trim(b.m)]
           Mn == IF Len(M.m) = 0 THEN BigOf(0) ELSE M
       IN IF b.e >= 0 THEN BCmp(BMul(BMul(Mn, Pow2B(b.e)), BigOf(r.d)), BigOf(r.n))
          ELSE BCmp(BMul(Mn, BigOf(r.d)), BMul(BigOf(r.n), Pow2B(-b.e)))
LoOK(jl, xl) == \* logged lower bound jl is <= exact lower bound xl (as sets: does not cut)
  jl.inf \/ (Fin(xl.v) /\ LET c == CmpLogged(jl, xl.v) IN c < 0 \/ (c = 0 /\ (~jl.open \/ ~xl.c))) \/ (xl.v.s = 1)
HiOK(jh, xh) ==
  jh.inf \/ (Fin(xh.v) /\ LET c == CmpLogged(jh, xh.v) IN c > 0 \/ (c = 0 /\ (~jh.open \/ ~xh.c))) \/ (xh.v.s = -1)
Encl(j, x) == x.e \/ (~j.empty /\ LoOK(j.lo, x.lo) /\ HiOK(j.hi, x.hi))
TooBig(j) == ~j.empty /\ (j.lo.toobig \/ j.hi.toobig)
Acc(ln, j, x, exactHere) == IF TooBig(j) THEN "und" ELSE IF ln.exact /\ exactHere THEN (IF SameI(IvJ(j), x) THEN "ok" ELSE "bad") ELSE (IF Encl(j, x) THEN "ok" ELSE "bad")
Checks(ln) ==
  LET x == IvJ(ln.x)  y == IvJ(ln.y)  k == Q(ln.kn, ln.kd) IN
  << <<"operand-x", Acc(ln, ln.rx, x, TRUE)>>, <<"operand-y", Acc(ln, ln.ry, y, TRUE)>>,
     <<"add", Acc(ln, ln.add, AddI(x, y), TRUE)>>, <<"sub", Acc(ln, ln.sub, SubI(x, y), TRUE)>>,
     <<"mul", Acc(ln, ln.mul, MulI(x, y), TRUE)>>,
     \* with 0 in the interior of the divisor no exact result is documented: enclosure only
     <<"div", Acc(ln, ln.div, DivI(x, y), ~ZeroInside(y))>>,
     <<"neg", Acc(ln, ln.neg, NegI(x), TRUE)>>, <<"join", Acc(ln, ln.join, JoinI(x, y), TRUE)>>, <<"join2", Acc(ln, ln.join2, JoinI(x, y), TRUE)>>,
     <<"intersect", Acc(ln, ln.meet, MeetI(x, y), TRUE)>>, <<"intersect2", Acc(ln, ln.meet2, MeetI(x, y), TRUE)>>,
     <<"difference", Acc(ln, ln.diff, DiffI(x, y), TRUE)>>,
     <<"add-aliased", Acc(ln, ln.addself, AddI(x, x), TRUE)>>, <<"mul-aliased", Acc(ln, ln.mulalias, MulI(x, y), TRUE)>>,
     <<"add-dst=first", Acc(ln, ln.add1, AddI(x, y), TRUE)>>, <<"add-dst=second", Acc(ln, ln.add2, AddI(x, y), TRUE)>>,
     <<"sub-dst=first", Acc(ln, ln.sub1, SubI(x, y), TRUE)>>, <<"sub-dst=second", Acc(ln, ln.sub2, SubI(x, y), TRUE)>>,
     <<"mul-dst=second", Acc(ln, ln.mul2, MulI(x, y), TRUE)>>,
     <<"div-dst=first", Acc(ln, ln.div1, DivI(x, y), ~ZeroInside(y))>>, <<"div-dst=second", Acc(ln, ln.div2, DivI(x, y), ~ZeroInside(y))>>,
     \* x - x and x * x with all three the same object: the interval operation (not the pointwise one)
     <<"sub-all-aliased", Acc(ln, ln.subself, SubI(x, x), TRUE)>>, <<"mul-all-aliased", Acc(ln, ln.mulself, MulI(x, x), TRUE)>>,
     <<"join-dst=second", Acc(ln, ln.join3, JoinI(x, y), TRUE)>>, <<"intersect-dst=second", Acc(ln, ln.meet3, MeetI(x, y), TRUE)>>,
     <<"neg-aliased", Acc(ln, ln.negself, NegI(x), TRUE)>>,
     <<"refine", Acc(ln, ln.refine, MeetI(x, RelI(ln.rel, k)), TRUE)>>,
     \* predicates: exact for exact types (the operands are then represented exactly); for inexact ones only when the operands were
     <<"contains", IF ~SameI(IvJ(ln.rx), x) \/ ~SameI(IvJ(ln.ry), y) THEN "und" ELSE IF ln.contains = SubsetI(y, x) THEN "ok" ELSE "bad">>,
     <<"strictly_contains", IF ~SameI(IvJ(ln.rx), x) \/ ~SameI(IvJ(ln.ry), y) THEN "und" ELSE IF ln.strictly_contains = (SubsetI(y, x) /\ ~SubsetI(x, y)) THEN "ok" ELSE "bad">>,
     <<"is_disjoint_from", IF ~SameI(IvJ(ln.rx), x) \/ ~SameI(IvJ(ln.ry), y) THEN "und" ELSE IF ln.disjoint = MeetI(x, y).e THEN "ok" ELSE "bad">>,
     <<"equal", IF ~SameI(IvJ(ln.rx), x) \/ ~SameI(IvJ(ln.ry), y) THEN "und" ELSE IF ln.eq = SameI(x, y) THEN "ok" ELSE "bad">>,
     <<"is_bounded", IF ~SameI(IvJ(ln.rx), x) THEN "und" ELSE IF ln.bounded = (x.e \/ (Fin(x.lo.v) /\ Fin(x.hi.v))) THEN "ok" ELSE "bad">>,
     <<"is_singleton", IF ~SameI(IvJ(ln.rx), x) THEN "und" ELSE IF ln.singleton = (~x.e /\ Eq(x.lo.v, x.hi.v)) THEN "ok" ELSE "bad">> >>
VARIABLES l, bad, nund, ncase
Init == l = 1 /\ bad = <<>> /\ nund = 0 /\ ncase = 0
Next == /\ l <= Len(Tr) + 1
        /\ IF l = Len(Tr) + 1
           THEN JsonSerialize(IOEnv.VOUT, [n |-> Len(Tr), bad |-> bad, und |-> <<>>, skipped |-> nund, cases |-> ncase]) /\ UNCHANGED <<bad, nund, ncase>>
           ELSE \E cs \in {Checks(Tr[l])} :
                LET bs == SelectSeq(cs, LAMBDA c : c[2] = "bad") IN
                /\ bad' = bad \o [i \in 1..Len(bs) |-> [l |-> l, op |-> bs[i][1], why |-> "C12:" \o bs[i][1], ty |-> Tr[l].ty]]
                /\ nund' = nund + Len(SelectSeq(cs, LAMBDA c : c[2] = "und"))
                /\ ncase' = ncase + Len(cs)
        /\ l' = l + 1
=====================================================================
