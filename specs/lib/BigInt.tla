---------------------------- MODULE BigInt ----------------------------
(* Exact integers beyond TLC's 32 bits (DESIGN.md 3.5): sign-magnitude, little-endian limbs in base 2^14
   (so that a limb product is below 2^28 and a column sum of up to 8 products stays below 2^31).
   A number is [s |-> -1 | 0 | 1, m |-> <<l1, ..., lk>>] with no leading (high) zero limb; zero is [s |-> 0, m |-> <<>>].
   Only what the checks need: construction from small integers, addition, subtraction, multiplication, comparison. *)
EXTENDS Integers, Sequences
B == 16384
BAbs(x) == IF x < 0 THEN -x ELSE x
RECURSIVE Limbs(_)
Limbs(n) == IF n = 0 THEN <<>> ELSE <<n % B>> \o Limbs(n \div B)          \* n >= 0
BigOf(k) == IF k = 0 THEN [s |-> 0, m |-> <<>>] ELSE [s |-> IF k > 0 THEN 1 ELSE -1, m |-> Limbs(BAbs(k))]
RECURSIVE Trim(_)
Trim(m) == IF Len(m) > 0 /\ m[Len(m)] = 0 THEN Trim(SubSeq(m, 1, Len(m) - 1)) ELSE m
Mk(s, m) == LET t == Trim(m) IN IF Len(t) = 0 THEN [s |-> 0, m |-> <<>>] ELSE [s |-> s, m |-> t]
At(m, i) == IF i <= Len(m) THEN m[i] ELSE 0
Max2(a, b) == IF a > b THEN a ELSE b
\* magnitude comparison: -1, 0, 1
RECURSIVE CmpM(_, _, _)
CmpM(a, b, i) == IF i = 0 THEN 0 ELSE IF At(a, i) < At(b, i) THEN -1 ELSE IF At(a, i) > At(b, i) THEN 1 ELSE CmpM(a, b, i - 1)
CmpMag(a, b) == CmpM(a, b, Max2(Len(a), Len(b)))
\* magnitude addition / subtraction (a >= b for SubM)
RECURSIVE AddM(_, _, _, _)
AddM(a, b, i, c) == IF i > Max2(Len(a), Len(b)) THEN (IF c = 0 THEN <<>> ELSE <<c>>)
                    ELSE LET t == At(a, i) + At(b, i) + c IN <<t % B>> \o AddM(a, b, i + 1, t \div B)
RECURSIVE SubM(_, _, _, _)
SubM(a, b, i, br) == IF i > Len(a) THEN <<>>
                     ELSE LET t == At(a, i) - At(b, i) - br IN IF t < 0 THEN <<t + B>> \o SubM(a, b, i + 1, 1) ELSE <<t>> \o SubM(a, b, i + 1, 0)
BNeg(x) == [s |-> -x.s, m |-> x.m]
BAdd(x, y) == IF x.s = 0 THEN y ELSE IF y.s = 0 THEN x
              ELSE IF x.s = y.s THEN Mk(x.s, AddM(x.m, y.m, 1, 0))
              ELSE LET c == CmpMag(x.m, y.m) IN
                   IF c = 0 THEN [s |-> 0, m |-> <<>>] ELSE IF c > 0 THEN Mk(x.s, SubM(x.m, y.m, 1, 0)) ELSE Mk(y.s, SubM(y.m, x.m, 1, 0))
BSub(x, y) == BAdd(x, BNeg(y))
\* schoolbook multiplication: column k (1-based) = sum of a[i]*b[k+1-i]
RECURSIVE Col(_, _, _, _)
Col(a, b, k, i) == IF i > Len(a) \/ i > k THEN 0 ELSE (IF k + 1 - i <= Len(b) THEN a[i] * b[k + 1 - i] ELSE 0) + Col(a, b, k, i + 1)
RECURSIVE MulM(_, _, _, _)
MulM(a, b, k, c) == IF k > Len(a) + Len(b) THEN (IF c = 0 THEN <<>> ELSE Limbs(c))
                    ELSE LET t == Col(a, b, k, 1) + c IN <<t % B>> \o MulM(a, b, k + 1, t \div B)
BMul(x, y) == IF x.s = 0 \/ y.s = 0 THEN [s |-> 0, m |-> <<>>] ELSE Mk(x.s * y.s, MulM(x.m, y.m, 1, 0))
BCmp(x, y) == IF x.s # y.s THEN (IF x.s < y.s THEN -1 ELSE 1) ELSE IF x.s = 0 THEN 0 ELSE x.s * CmpMag(x.m, y.m)
BSgn(x) == x.s
=====================================================================
