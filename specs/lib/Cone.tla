---------------------------- MODULE Cone ----------------------------
(* Exact comparison of H- and V-descriptions of (NNC) polyhedra, small dims. *)
EXTENDS Integers, Sequences, FiniteSets, TLC, SequencesExt

Dot(u, v) == LET RECURSIVE D(_)
                 D(i) == IF i = 0 THEN 0 ELSE u[i]*v[i] + D(i-1)
             IN D(Len(u))
DropAt(s, i) == [j \in 1..(Len(s)-1) |-> IF j < i THEN s[j] ELSE s[j+1]]
RECURSIVE Det(_)
Det(M) == IF Len(M) = 0 THEN 1
          ELSE IF Len(M) = 1 THEN M[1][1]
          ELSE IF Len(M) = 2 THEN M[1][1]*M[2][2] - M[1][2]*M[2][1]
          ELSE LET n == Len(M)
                   minor(j) == [i \in 1..(n-1) |-> DropAt(M[i+1], j)]
                   RECURSIVE S(_)
                   S(j) == IF j = 0 THEN 0
                           ELSE (IF M[1][j] = 0 THEN 0
                                 ELSE (IF j % 2 = 1 THEN 1 ELSE -1) * M[1][j] * Det(minor(j)))
                                + S(j-1)
               IN S(n)
Abs(x) == IF x < 0 THEN -x ELSE x
RECURSIVE Gcd(_, _)
Gcd(a, b) == IF b = 0 THEN Abs(a) ELSE Gcd(b, a % b)
VGcd(v) == LET RECURSIVE G(_)
               G(i) == IF i = 0 THEN 0 ELSE Gcd(v[i], G(i-1))
           IN G(Len(v))
Normalize(v) == LET g == VGcd(v) IN IF g = 0 THEN v ELSE [i \in 1..Len(v) |-> v[i] \div g]
\* generalized cross product of m-1 vectors (sequence R) in Z^m, gcd-normalized
Cross(R, m) == Normalize([j \in 1..m |->
                 (IF j % 2 = 1 THEN 1 ELSE -1) * Det([i \in 1..(m-1) |-> DropAt(R[i], j)])])
IsZero(v) == \A i \in 1..Len(v) : v[i] = 0
Neg(v) == [i \in 1..Len(v) |-> -v[i]]
Unit(j, m) == [i \in 1..m |-> IF i = j THEN 1 ELSE 0]
KSubsets(S, k) == {T \in SUBSET S : Cardinality(T) = k}
SortedSeq(S) == SetToSortSeq(S, <)

(* A "cone system" A: sequence of [eq |-> BOOLEAN, v |-> vec], meaning {y : v.y = 0 / >= 0}. *)
Feas(A, y) == \A i \in 1..Len(A) : LET d == Dot(A[i].v, y) IN IF A[i].eq THEN d = 0 ELSE d >= 0
SatSet(A, y) == {i \in 1..Len(A) : Dot(A[i].v, y) = 0}

\* rank of the rows of A and a spanning set of its null space
NullSpan(A, m) ==
  LET n == Len(A)
      vec(S, E) == LET s == SortedSeq(S) e == SortedSeq(E) k == Len(s)
                   IN Cross([i \in 1..(m-1) |-> IF i <= k THEN A[s[i]].v ELSE Unit(e[i-k], m)], m)
      nz(k) == { x \in { vec(S, E) : S \in KSubsets(1..n, k), E \in KSubsets(1..m, m-1-k) } : ~IsZero(x) }
      full == n >= m /\ \E S \in KSubsets(1..n, m) : Det([i \in 1..m |-> A[SortedSeq(S)[i]].v]) # 0
      RECURSIVE best(_)
      best(k) == IF k = 0 THEN 0 ELSE IF nz(k) # {} THEN k ELSE best(k-1)
      r == IF full THEN m ELSE best(IF n < m-1 THEN n ELSE m-1)
  IN [rank |-> r,
      null |-> IF r = m THEN {} ELSE { x \in nz(r) : \A i \in 1..n : Dot(A[i].v, x) = 0 }]

Rank(vs, m) == NullSpan([i \in 1..Len(vs) |-> [eq |-> TRUE, v |-> vs[i]]], m).rank

\* extreme rays of {y : A y >= 0} modulo its lineality space (each as a gcd-normalized vector orthogonal to the computed null spanning set)
ExtRays(A, m) ==
  LET ns == NullSpan(A, m)
      nullSeq == SetToSeq(ns.null)
      Ap == A \o [i \in 1..Len(nullSeq) |-> [eq |-> TRUE, v |-> nullSeq[i]]]
      n == Len(Ap)
      xs == { Cross([i \in 1..(m-1) |-> Ap[SortedSeq(S)[i]].v], m) : S \in KSubsets(1..n, m-1) }
  IN [rank |-> ns.rank,
      rays |-> { y \in (xs \cup {Neg(x) : x \in xs}) : ~IsZero(y) /\ Feas(Ap, y) }]

(* B: sequence of [line |-> BOOLEAN, v |-> vec] generating cone(B). *)
Incl(A, B) == \A i \in 1..Len(A), j \in 1..Len(B) :
                 LET d == Dot(A[i].v, B[j].v) IN IF A[i].eq \/ B[j].line THEN d = 0 ELSE d >= 0
\* cone{y: A y>=0} = cone(B), B having explicit lineality (lines)
ConeEq(A, B, m) ==
  /\ Incl(A, B)
  /\ LET er == ExtRays(A, m)
         linesB == SelectSeq(B, LAMBDA b : b.line)
     IN /\ Rank([i \in 1..Len(linesB) |-> linesB[i].v], m) = m - er.rank
        /\ \A y \in er.rays : \E j \in 1..Len(B) : ~B[j].line /\ SatSet(A, B[j].v) = SatSet(A, y)
=====================================================================
