---------------------------- MODULE GridSem ----------------------------
EXTENDS Cone
(* CG: seq of [mod |-> Nat (0 = equality), v |-> (b, a1..an)]
   GG: seq of [k |-> "line"|"param"|"point", v |-> (d, c1..cn)]  (d > 0 for point/param, 0 for line) *)
Hom(v) == [i \in 1..Len(v) |-> IF i = 1 THEN 0 ELSE v[i]]
\* value of congruence row on generator (numerator), and the modulus it must be divisible by
Val(c, g) == IF g.k = "point" THEN Dot(c.v, g.v) ELSE Dot(c.v, Hom(g.v))
SatCG(c, g) == IF c.mod = 0 \/ g.k = "line" THEN Val(c, g) = 0
               ELSE Val(c, g) % (c.mod * g.v[1]) = 0
AllSat(CG, GG) == \A i \in 1..Len(CG), j \in 1..Len(GG) : SatCG(CG[i], GG[j])
Sel(S, P(_)) == SelectSeq(S, P)
Lines(GG) == Sel(GG, LAMBDA g : g.k = "line")
Params(GG) == Sel(GG, LAMBDA g : g.k = "param")
Points(GG) == Sel(GG, LAMBDA g : g.k = "point")
Eqs(CG) == Sel(CG, LAMBDA c : c.mod = 0)
Props(CG) == Sel(CG, LAMBDA c : c.mod # 0)
HomRows(S) == [i \in 1..Len(S) |-> Hom(S[i].v)]
\* gcd of all k x k minors of integer matrix M (seq of rows of equal length w), k = number of columns... general: k given
MinorsGcd(M, k, w) ==
  LET rs == KSubsets(1..Len(M), k)  cs == KSubsets(1..w, k)
      dets == { Det([i \in 1..k |-> [j \in 1..k |-> M[SortedSeq(R)[i]][SortedSeq(C)[j]]]]) : R \in rs, C \in cs }
      RECURSIVE G(_)
      G(S) == IF S = {} THEN 0 ELSE LET x == CHOOSE y \in S : TRUE IN Gcd(x, G(S \ {x}))
  IN G(dets)
\* minimized pair criterion; m = n+1
MinPairEq(CG, GG, m) ==
  LET n == m - 1
      ls == Lines(GG) qs == Params(GG) ps == Points(GG) es == Eqs(CG) cs == Props(CG)
      s == Len(ls) t == Len(qs) u == Len(es) v == Len(cs)
  IN /\ Len(ps) = 1
     /\ AllSat(CG, GG)
     /\ s + t + u = n /\ v = t
     /\ Rank(HomRows(ls) \o HomRows(qs), m) = s + t
     /\ Rank(HomRows(es) \o HomRows(cs), m) = u + v
     /\ LET M == [i \in 1..t |-> [j \in 1..t |-> Val(cs[i], qs[j]) \div (cs[i].mod * qs[j].v[1])]]
        IN t = 0 \/ Abs(Det(M)) = 1
\* raw generators vs minimized congruences (non-empty case)
RawGEq(GG, minCG, m) ==
  LET n == m - 1
      es == Eqs(minCG) cs == Props(minCG) u == Len(es) t == Len(cs)
      ls == Lines(GG) ps == Points(GG)
      p0 == ps[1]
      \* difference vectors: params, and (point - p0) for other points, as rational vectors num/den
      coord(c, g) == \* integer coordinate of generator g (param or point-diff) along dual functional c
         IF g.k = "param" THEN Val(c, g) \div (c.mod * g.v[1])
         ELSE \* point diff: (g/d - p0/d0): c.hom(g)/d - c.hom(p0)/d0 over mod
              (Dot(c.v, Hom(g.v)) * p0.v[1] - Dot(c.v, Hom(p0.v)) * g.v[1]) \div (c.mod * g.v[1] * p0.v[1])
      gens == Params(GG) \o SubSeq(ps, 2, Len(ps))
      Lam == [i \in 1..Len(gens) |-> [j \in 1..t |-> coord(cs[j], gens[i])]]
  IN /\ Len(ps) >= 1
     /\ AllSat(minCG, GG)
     /\ Rank(HomRows(es) \o HomRows(cs), m) = u + t
     /\ Rank(HomRows(ls), m) = n - u - t
     /\ (t = 0 \/ (Len(gens) >= t /\ MinorsGcd(Lam, t, t) = 1))
\* raw congruences vs minimized generators (non-empty case)
RawCEq(CG, minGG, m) ==
  LET n == m - 1
      ls == Lines(minGG) qs == Params(minGG) ps == Points(minGG) s == Len(ls) t == Len(qs)
      es == Eqs(CG) cs == Props(CG)
      Nu == [i \in 1..Len(cs) |-> [j \in 1..t |-> Val(cs[i], qs[j]) \div (cs[i].mod * qs[j].v[1])]]
  IN /\ Len(ps) = 1
     /\ AllSat(CG, minGG)
     /\ Rank(HomRows(ls) \o HomRows(qs), m) = s + t
     /\ Rank(HomRows(es), m) = n - s - t
     /\ (t = 0 \/ (Len(cs) >= t /\ MinorsGcd(Nu, t, t) = 1))
=====================================================================
