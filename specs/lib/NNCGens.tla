---------------------------- MODULE NNCGens ----------------------------
EXTENDS Query
VSum(S, len) == LET RECURSIVE F(_)
                    F(T) == IF T = {} THEN [i \in 1..len |-> 0]
                            ELSE LET x == CHOOSE y \in T : TRUE IN Add(x, F(T \ {x}))
                IN F(S)
\* generators of the NNC set described by H (m = n+1); empty sequence if the set is empty
GensOf(H, m) ==
  IF HEmpty(H, m) THEN <<>>
  ELSE
  LET A == HCone(H, m)
      ns == NullSpan(A, m)
      er == ExtRays(A, m).rays
      strictOK(y) == \A i \in 1..Len(H) : H[i].k = "gt" => Dot(H[i].v, y) > 0
      lines == {[k |-> "line", v |-> x] : x \in ns.null}   \* spanning set (maybe dependent; harmless)
      base == {[k |-> IF y[1] = 0 THEN "ray" ELSE IF strictOK(y) THEN "point" ELSE "cpoint", v |-> y] : y \in er}
      \* faces: for every subset T of rows, the generators (non-line) saturating T
      n == Len(H)
      face(T) == {g \in base : \A i \in T : Dot(H[i].v, g.v) = 0}
      included(F) == ~\E i \in 1..n : H[i].k = "gt" /\ \A g \in F : Dot(H[i].v, g.v) = 0
      hasPt(F) == \E g \in F : g.k \in {"point", "cpoint"}
      extra == {[k |-> "point", v |-> Normalize(VSum({g.v : g \in face(T)}, m))] :
                  T \in {T \in SUBSET (1..n) : LET F == face(T) IN hasPt(F) /\ included(F) /\ ~\E g \in F : g.k = "point"}}
  IN SetToSeq(lines \cup base \cup extra)
=====================================================================
