---------------------------- MODULE PolySem ----------------------------
EXTENDS Cone
(* H: seq of [k |-> "eq"|"ge"|"gt", v]; V: seq of [k |-> "line"|"ray"|"point"|"cpoint", v]; m = dim+1 *)
Pos(m) == [eq |-> FALSE, v |-> Unit(1, m)]
HCone(H, m) == <<Pos(m)>> \o [i \in 1..Len(H) |-> [eq |-> H[i].k = "eq", v |-> H[i].v]]
VCone(V) == [i \in 1..Len(V) |-> [line |-> V[i].k = "line", v |-> V[i].v]]
HasPt(V) == \E i \in 1..Len(V) : V[i].k \in {"point", "cpoint"}
HasRealPt(V) == \E i \in 1..Len(V) : V[i].k = "point"
\* closure of H-set is empty
HClosureEmpty(H, m) == \A y \in ExtRays(HCone(H, m), m).rays : y[1] = 0
\* closures equal (V has explicit lines)
SameClosureHV(H, V, m) ==
  IF ~HasPt(V) THEN Len(V) = 0 /\ HClosureEmpty(H, m)
  ELSE ConeEq(HCone(H, m), VCone(V), m)
\* polar version: V arbitrary (raw), H has explicit equalities
SameClosureVH(V, H, m) ==
  IF ~HasPt(V) THEN Len(V) = 0 /\ HClosureEmpty(H, m)
  ELSE ConeEq([i \in 1..Len(V) |-> [eq |-> V[i].k = "line", v |-> V[i].v]],
              [i \in 1..(Len(H)+1) |-> IF i = 1 THEN [line |-> FALSE, v |-> Unit(1, m)]
                                       ELSE [line |-> H[i-1].k = "eq", v |-> H[i-1].v]], m)
\* strictness: points satisfy strict rows strictly
StrictIncl(H, V) == \A i \in 1..Len(H), j \in 1..Len(V) :
                      (H[i].k = "gt" /\ V[j].k = "point") => Dot(H[i].v, V[j].v) > 0
\* face criterion (H, V with equal closures, V nonempty)
FaceOK(H, V) ==
  LET n == Len(H)
      strict == {i \in 1..n : H[i].k = "gt"}
      Sat(T) == {j \in 1..Len(V) : \A i \in T : Dot(H[i].v, V[j].v) = 0}
  IN \A T \in SUBSET (1..n) :
       LET F == Sat(T) IN
         (\E j \in F : V[j].k \in {"point", "cpoint"}) =>
            ( (\E s \in strict : \A j \in F : Dot(H[s].v, V[j].v) = 0)
              <=> ~(\E j \in F : V[j].k = "point") )
SameSetHV(H, V, m) ==
  IF ~HasPt(V) THEN Len(V) = 0 /\
       \* H-set empty: closure empty, or some strict row saturated by the whole closure
       LET er == ExtRays(HCone(H, m), m).rays
           fin == {y \in er : y[1] > 0}
       IN fin = {} \/ \E i \in 1..Len(H) : H[i].k = "gt" /\ \A y \in er : Dot(H[i].v, y) = 0
  ELSE /\ HasRealPt(V)
       /\ SameClosureHV(H, V, m)
       /\ StrictIncl(H, V)
       /\ FaceOK(H, V)
SameSetVH(V, H, m) ==
  IF ~HasPt(V) THEN SameSetHV(H, V, m)
  ELSE /\ HasRealPt(V)
       /\ SameClosureVH(V, H, m)
       /\ StrictIncl(H, V)
       /\ FaceOK(H, V)
=====================================================================
