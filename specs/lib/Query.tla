---------------------------- MODULE Query ----------------------------
EXTENDS Rel
(* All operators take a VERIFIED pair (H, V) of one polyhedron, m = n+1. *)
Hom(v) == [i \in 1..Len(v) |-> IF i = 1 THEN 0 ELSE v[i]]
IsPt(g) == g.k = "point"
IsCp(g) == g.k = "cpoint"
SatRow(h, g) == LET d == Dot(h.v, g.v) IN
                  IF g.k = "line" THEN d = 0
                  ELSE IF h.k = "eq" THEN d = 0
                  ELSE IF h.k = "gt" /\ g.k = "point" THEN d > 0
                  ELSE d >= 0
QEmpty(V) == ~HasPt(V)
QBounded(V) == \A i \in 1..Len(V) : V[i].k \in {"point", "cpoint"}
QUniverse(V, m) == HasRealPt(V) /\ Rank([i \in 1..Len(SelectSeq(V, LAMBDA g : g.k = "line")) |-> SelectSeq(V, LAMBDA g : g.k = "line")[i].v], m) = m - 1
InSet(H, g) == \A i \in 1..Len(H) : SatRow(H[i], [k |-> "point", v |-> g.v])
QClosed(H, V) == \A j \in 1..Len(V) : IsCp(V[j]) => InSet(H, V[j])
QContains(Hx, Vy) == \A i \in 1..Len(Hx), j \in 1..Len(Vy) : SatRow(Hx[i], Vy[j])
HEmpty(H, m) == LET er == ExtRays(HCone(H, m), m).rays
                    fin == {y \in er : y[1] > 0}
                IN fin = {} \/ \E i \in 1..Len(H) : H[i].k = "gt" /\ \A y \in er : Dot(H[i].v, y) = 0
QDisjoint(Hx, Hy, m) == HEmpty(Hx \o Hy, m)
AffDim(V, m) == IF QEmpty(V) THEN 0 ELSE Rank([i \in 1..Len(V) |-> V[i].v], m) - 1
Constrains(H, V, var) == QEmpty(V) \/ \E i \in 1..Len(H) : H[i].v[var+2] # 0
\* relation with a constraint c = [k, v]
RelCon(H, V, c, m) ==
  LET emp == QEmpty(V)
      sat == \A j \in 1..Len(V) : Dot(c.v, V[j].v) = 0
      inc == \A j \in 1..Len(V) : SatRow(c, V[j])
      dis == HEmpty(Append(H, c), m)
  IN [sat |-> sat, inc |-> inc, dis |-> dis, si |-> ~dis /\ ~inc]
\* relation with a generator g
Subsumes(H, V, g) ==
  IF QEmpty(V) THEN FALSE
  ELSE \A i \in 1..Len(H) : LET d == Dot(H[i].v, g.v) IN
         IF g.k = "line" THEN d = 0
         ELSE IF H[i].k = "eq" THEN d = 0
         ELSE IF g.k = "point" /\ H[i].k = "gt" THEN d > 0
         ELSE d >= 0
\* sup of e (vector with e[1] inhomogeneous term) over P; returns [bounded, num, den, attained]
SupInfo(V, e, sgn) ==
  LET E == [i \in 1..Len(e) |-> sgn * e[i]]
      unb == \E j \in 1..Len(V) : (V[j].k = "ray" /\ Dot(Hom(E), V[j].v) > 0) \/ (V[j].k = "line" /\ Dot(Hom(E), V[j].v) # 0)
      pts == {j \in 1..Len(V) : V[j].k \in {"point", "cpoint"}}
      \* value of E at generator j = Dot(E, v)/v[1]
      Ge(a, b) == Dot(E, V[a].v) * V[b].v[1] >= Dot(E, V[b].v) * V[a].v[1]
      best == CHOOSE a \in pts : \A b \in pts : Ge(a, b)
  IN IF pts = {} \/ unb THEN [ok |-> FALSE, num |-> 0, den |-> 1, att |-> FALSE]
     ELSE [ok |-> TRUE, num |-> sgn * Dot(E, V[best].v), den |-> V[best].v[1],
           att |-> \E a \in pts : V[a].k = "point" /\ Ge(a, best)]
=====================================================================
