---------------------------- MODULE Rel ----------------------------
EXTENDS PolySem
(* Fourier-Motzkin elimination of coordinate j (1-based index into homogeneous vector, j >= 2)
   from H = seq of [k |-> "eq"|"ge"|"gt", v].  Result keeps vector length (coordinate j zeroed). *)
Scale(c, v) == [i \in 1..Len(v) |-> c * v[i]]
Add(u, v) == [i \in 1..Len(u) |-> u[i] + v[i]]
Norm(r) == [k |-> r.k, v |-> Normalize(r.v)]
Elim(H, j) ==
  LET idx == 1..Len(H)
      eqs == {i \in idx : H[i].k = "eq" /\ H[i].v[j] # 0}
  IN IF eqs # {} THEN
       \* substitute using one equality
       LET e == CHOOSE i \in eqs : TRUE
           ev == IF H[e].v[j] > 0 THEN H[e].v ELSE Neg(H[e].v)   \* coefficient positive
           c == ev[j]
           sub(r) == [k |-> r.k, v |-> Normalize(Add(Scale(c, r.v), Scale(-r.v[j], ev)))]
       IN [i \in 1..(Len(H)-1) |-> sub(H[IF i < e THEN i ELSE i+1])]
     ELSE
       LET zero == {i \in idx : H[i].v[j] = 0}
           pos == {i \in idx : H[i].v[j] > 0}
           neg == {i \in idx : H[i].v[j] < 0}
           comb(p, n) == [k |-> IF H[p].k = "gt" \/ H[n].k = "gt" THEN "gt" ELSE "ge",
                          v |-> Normalize(Add(Scale(-H[n].v[j], H[p].v), Scale(H[p].v[j], H[n].v)))]
           S == {Norm(H[i]) : i \in zero} \cup {comb(p, n) : p \in pos, n \in neg}
       IN SetToSeq(S)
\* remove coordinate j from every row (after Elim it is zero)
DropCoord(H, j) == [i \in 1..Len(H) |-> [k |-> H[i].k, v |-> DropAt(H[i].v, j)]]
\* append a zero coordinate
Ext(H) == [i \in 1..Len(H) |-> [k |-> H[i].k, v |-> Append(H[i].v, 0)]]
\* swap coordinates a and b in every row
SwapC(H, a, b) == [i \in 1..Len(H) |-> [k |-> H[i].k,
                    v |-> [t \in 1..Len(H[i].v) |-> IF t = a THEN H[i].v[b] ELSE IF t = b THEN H[i].v[a] ELSE H[i].v[t]]]]
(* image of P (H over m coords) under relation R given as rows over m+1 coords (last = primed x_k), k = coordinate index (>=2) *)
ImageH(H, R, kc, m) ==
  LET lifted == Ext(H) \o R                  \* over (1, x_1..x_n, w)
      el == Elim(lifted, kc)                  \* eliminate old x_k
      sw == SwapC(el, kc, m+1)                \* move w into position k (old position now zero)
  IN DropCoord(sw, m+1)
(* preimage: P constrains (x_{-k}, w); R relates (x, w); eliminate w *)
PreimageH(H, R, kc, m) ==
  LET Pw == SwapC(Ext(H), kc, m+1)           \* P's constraint on x_k becomes constraint on w
      el == Elim(Pw \o R, m+1)
  IN DropCoord(el, m+1)
=====================================================================
