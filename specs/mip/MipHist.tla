---------------------------- MODULE MipHist ----------------------------
(* History generator for MIP_Problem (C06): incremental construction interleaved with solve / is_satisfiable and the
   point/value observers.  State: the space dimension (to draw arguments of the right size) and the program so far. *)
EXTENDS Integers, Sequences, TLC, Json, FiniteSets, SequencesExt
CONSTANTS MaxLen, MaxDim, IllShare
RE(S) == RandomElement(S)
Mat(s) == SubSeq(s, 1, Len(s))
Vec(n, lo, hi) == Mat([i \in 1..n |-> RE(lo..hi)])
Ill(x) == RE(1..100) <= IllShare
VARIABLES prog, dim
vars == <<prog, dim>>
D0 == [op |-> "", k |-> "ge", n |-> 0, v |-> <<>>, vs |-> <<>>, cs |-> <<>>, b |-> 0]
\* (Init is evaluated once per TLC run: the dimension of a history is drawn by its first step)
Init == prog = <<>> /\ dim = 0
Emit(r) == prog' = Append(prog, r)
Row(n, ill) == [k |-> IF ill THEN RE({"gt", "ge"}) ELSE RE({"ge", "ge", "ge", "eq"}), v |-> Mat(<<RE(-2..4)>> \o Vec(n, -3, 3))]
BoxRows(n) == Mat([i \in 1..(2*n) |-> IF i <= n THEN [k |-> "ge", v |-> [j \in 1..(n+1) |-> IF j = i + 1 THEN 1 ELSE 0]]
                                       ELSE [k |-> "ge", v |-> [j \in 1..(n+1) |-> IF j = 1 THEN RE(1..5) ELSE IF j = i - n + 1 THEN -1 ELSE 0]]])
\* "add_nonneg" / "add_bound": a sign restriction x_k >= 0 (resp. a bound -x_k + c >= 0) on ONE variable, mostly the newest one: such rows are not
\* stored in the tableau but turn the variable into a non-split column, separately for the variables added after a solve
Ops == {"add_constraint", "add_constraint", "add_constraints", "add_box", "add_dims", "add_dims", "add_nonneg", "add_nonneg", "add_bound", "add_ints", "set_obj", "set_mode", "pricing",
        "solve", "solve", "is_satisfiable", "feasible_point", "optimizing_point", "optimal_value", "evaluate", "copy", "dumpload", "clear"}
\* one history in three follows the incremental template (flag b of its first record): sign restrictions / bounds / rows and an objective,
\* a solve, a new dimension, more of the same on the new variable, a new objective, a second solve and the point / value observers
IncrOp(L) == IF L = 1 THEN RE({"add_nonneg", "add_nonneg", "add_bound", "add_constraint", "add_box", "set_obj"})
             ELSE IF L = 2 THEN RE({"add_nonneg", "add_bound", "add_constraint", "set_obj", "set_mode"})
             ELSE IF L = 3 THEN RE({"solve", "solve", "is_satisfiable"})
             ELSE IF L = 4 THEN "add_dims"
             ELSE IF L = 5 THEN RE({"add_nonneg", "add_bound", "add_bound", "add_constraint", "add_ints", "set_mode"})
             ELSE IF L = 6 THEN "set_obj"
             ELSE IF L = 7 THEN RE({"set_mode", "solve", "add_bound"})
             ELSE IF L = 8 THEN "solve"
             ELSE RE({"optimal_value", "optimizing_point", "feasible_point", "solve"})
Next ==
  /\ Len(prog) < MaxLen
  /\ \E op \in {IF Len(prog) = 0 THEN "new" ELSE IF prog[1].b = 1 /\ (Len(prog) # 4 \/ dim < MaxDim) THEN IncrOp(Len(prog)) ELSE RE(Ops)} : \E ill \in {IF Len(prog) > 0 /\ prog[1].b = 1 THEN FALSE ELSE Ill(Len(prog))} :
     LET n == IF ill /\ RE(1..2) = 1 THEN dim + 1 ELSE dim IN
     \/ op = "new" /\ \E tp \in {RE(0..2)} : \E d0 \in {IF tp = 1 /\ MaxDim > 1 THEN RE(1..(MaxDim - 1)) ELSE RE(1..MaxDim)} : Emit([D0 EXCEPT !.op = "new", !.n = d0, !.b = tp]) /\ dim' = d0
     \/ op = "add_constraint" /\ \E nn \in {n} : \E r \in {Row(nn, ill)} : Emit([D0 EXCEPT !.op = op, !.n = nn, !.k = r.k, !.v = r.v]) /\ UNCHANGED dim
     \/ op = "add_constraints" /\ \E nn \in {n} : \E cnt \in {RE(1..3)} : Emit([D0 EXCEPT !.op = op, !.n = nn, !.cs = Mat([i \in 1..cnt |-> Row(nn, ill)])]) /\ UNCHANGED dim
     \/ op \in {"add_nonneg", "add_bound"} /\ dim > 0 /\ \E kk \in {IF RE(1..3) <= 2 THEN dim ELSE RE(1..dim)} : \E c \in {RE(1..6)} :
          Emit([D0 EXCEPT !.op = "add_constraint", !.n = dim, !.k = "ge",
                          !.v = [j \in 1..(dim + 1) |-> IF j = kk + 1 THEN (IF op = "add_nonneg" THEN 1 ELSE -1) ELSE IF j = 1 /\ op = "add_bound" THEN c ELSE 0]]) /\ UNCHANGED dim
     \/ op = "add_box" /\ Emit([D0 EXCEPT !.op = "add_constraints", !.n = dim, !.cs = BoxRows(dim)]) /\ UNCHANGED dim
     \/ op = "add_dims" /\ dim < MaxDim /\ Emit([D0 EXCEPT !.op = op, !.b = 1]) /\ dim' = dim + 1
     \/ op = "add_ints" /\ \E S \in {RE(SUBSET (0..(IF ill THEN dim ELSE dim - 1)))} : Emit([D0 EXCEPT !.op = op, !.vs = SetToSortSeq(S, <)]) /\ UNCHANGED dim
     \/ op = "set_obj" /\ \E nn \in {n} : Emit([D0 EXCEPT !.op = op, !.n = nn, !.v = Mat(<<RE(-2..2)>> \o Vec(nn, -3, 3))]) /\ UNCHANGED dim
     \/ op = "set_mode" /\ Emit([D0 EXCEPT !.op = op, !.b = RE(0..1)]) /\ UNCHANGED dim
     \/ op = "pricing" /\ Emit([D0 EXCEPT !.op = op, !.b = RE(0..2)]) /\ UNCHANGED dim
     \/ op \in {"solve", "is_satisfiable", "feasible_point", "optimizing_point", "optimal_value", "copy", "dumpload"} /\ Emit([D0 EXCEPT !.op = op]) /\ UNCHANGED dim
     \/ op = "evaluate" /\ \E nn \in {n} : Emit([D0 EXCEPT !.op = op, !.n = nn, !.v = Mat(<<RE(1..2)>> \o Vec(nn, -2, 3))]) /\ UNCHANGED dim
     \/ op = "clear" /\ RE(1..5) = 1 /\ Emit([D0 EXCEPT !.op = op]) /\ dim' = 0
Spec == Init /\ [][Next]_vars
EmitProg == Len(prog) \in {MaxLen \div 2, MaxLen} => PrintT(<<"PROG", ToJson(prog)>>)
=====================================================================
