---------------------------- MODULE MipTrace ----------------------------
(* C06: the state of the specification is the problem DATA only (dimension, constraints, integer variables,
   objective, direction).  Mutators update the data; every observer must answer what the data dictates:
   the feasible region's generators are enumerated by brute force (GensOf), the LP optimum is read off them,
   integer variables are enumerated over the box the generators span and each slice is solved again.
   Since the expected answer is a function of the data only, "incremental = fresh" is automatic: any
   history reaching the same data must log the same status and value. *)
EXTENDS NNCGens, Json, IOUtils
Tr == ndJsonDeserialize(IOEnv.TRACE)
VARIABLES l, dat, pend, und, bad
NoProb == [alive |-> FALSE, n |-> 0, H |-> <<>>, ints |-> {}, obj |-> <<0>>, max |-> TRUE]
Init == l = 1 /\ dat = NoProb /\ pend = "" /\ und = <<>> /\ bad = <<>>
Pad(v, m) == [i \in 1..m |-> IF i <= Len(v) THEN v[i] ELSE 0]
Better(obj, mx, a, b) == LET va == Dot(obj, a.v) * b.v[1]  vb == Dot(obj, b.v) * a.v[1] IN IF mx THEN va >= vb ELSE va <= vb
IsInt(g, ints) == \A i \in ints : g.v[i] % g.v[1] = 0
FeasPt(H, g) == \A i \in 1..Len(H) : LET d == Dot(H[i].v, g.v) IN IF H[i].k = "eq" THEN d = 0 ELSE d >= 0
BoundedInts(d) == LET G == GensOf(d.H, d.n + 1) IN \A j \in 1..Len(G) : G[j].k \in {"ray", "line"} => \A i \in d.ints : G[j].v[i] = 0
Expected(d) ==
  LET m == d.n + 1  H == d.H  G == GensOf(H, m)  ints == d.ints  obj == Pad(d.obj, m)
      sgn == IF d.max THEN 1 ELSE -1
      pts == {j \in 1..Len(G) : G[j].k = "point"}
      rays == {j \in 1..Len(G) : G[j].k \in {"ray", "line"}}
      lpUnb == \E j \in rays : (G[j].k = "ray" /\ sgn * Dot(Hom(obj), G[j].v) > 0) \/ (G[j].k = "line" /\ Dot(Hom(obj), G[j].v) # 0)
      boundedInts == \A j \in rays : \A i \in ints : G[j].v[i] = 0
  IN IF Len(G) = 0 THEN [status |-> "unfeasible", num |-> 0, den |-> 1]
     ELSE IF ints = {} THEN
        (IF lpUnb THEN [status |-> "unbounded", num |-> 0, den |-> 1]
         ELSE LET b == CHOOSE a \in pts : \A c \in pts : Better(obj, d.max, G[a], G[c])
              IN [status |-> "optimized", num |-> Dot(obj, G[b].v), den |-> G[b].v[1]])
     ELSE IF ~boundedInts THEN [status |-> "undecided", num |-> 0, den |-> 1]
     ELSE
       LET lo(i) == LET a == CHOOSE a \in pts : \A c \in pts : G[a].v[i] * G[c].v[1] <= G[c].v[i] * G[a].v[1] IN -((-G[a].v[i]) \div G[a].v[1])
           hi(i) == LET a == CHOOSE a \in pts : \A c \in pts : G[a].v[i] * G[c].v[1] >= G[c].v[i] * G[a].v[1] IN G[a].v[i] \div G[a].v[1]
           iseq == SetToSeq(ints)
           RECURSIVE Assign(_)
           Assign(k) == IF k = 0 THEN {<<>>} ELSE {Append(s, z) : s \in Assign(k-1), z \in lo(iseq[k])..hi(iseq[k])}
           slice(s) == H \o [k \in 1..Len(iseq) |-> [k |-> "eq", v |-> [t \in 1..m |-> IF t = 1 THEN -s[k] ELSE IF t = iseq[k] THEN 1 ELSE 0]]]
           slices == {GensOf(slice(s), m) : s \in Assign(Len(iseq))}
           feas == {S \in slices : Len(S) > 0}
           unb == \E S \in feas : \E j \in 1..Len(S) : (S[j].k = "ray" /\ sgn * Dot(Hom(obj), S[j].v) > 0) \/ (S[j].k = "line" /\ Dot(Hom(obj), S[j].v) # 0)
           cands == UNION {{S[j] : j \in {j \in 1..Len(S) : S[j].k = "point"}} : S \in feas}
       IN IF feas = {} THEN [status |-> "unfeasible", num |-> 0, den |-> 1]
          ELSE IF unb THEN [status |-> "unbounded", num |-> 0, den |-> 1]
          ELSE LET b == CHOOSE a \in cands : \A c \in cands : Better(obj, d.max, a, c)
               IN [status |-> "optimized", num |-> Dot(obj, b.v), den |-> b.v[1]]
TooBig(d) == Len(d.H) > 9 \/ \E i \in 1..Len(d.H) : \E j \in 1..Len(d.H[i].v) : Abs(d.H[i].v[j]) > 30
V1(b, why) == IF b THEN "ok" ELSE why
\* a strict inequality without variables (0 > b): Constraint_System::has_strict_inequalities() does not count it, the library accepts it (or
\* not: the rejection is not asserted); accepted, it is the tautology or the contradiction it denotes
TrivRow(r) == \A j \in 2..Len(r.v) : r.v[j] = 0
NontrivStrict(r) == r.k = "gt" /\ ~TrivRow(r)
TrivStrict(r) == r.k = "gt" /\ TrivRow(r)
Closed(r, m) == IF r.k = "gt" THEN [k |-> "ge", v |-> Pad(<<IF r.v[1] > 0 THEN 0 ELSE -1>>, m)] ELSE [k |-> r.k, v |-> Pad(r.v, m)]
RowsOf(cs, m) == [i \in 1..Len(cs) |-> Closed(cs[i], m)]
\* verdict and next data for one recorded call
Step(e, d) ==
  LET m == d.n + 1  op == e.op
      inv(cond) == IF cond THEN (IF e.exc = "invalid_argument" THEN <<"ok", d>> ELSE <<"C14:rejected-call-not-rejected", d>>) ELSE <<"go", d>>
      noexc == e.exc = ""
  IN IF op = "new" THEN <<V1(noexc /\ e.dim = e.n, "C06:constructor"), [alive |-> TRUE, n |-> e.n, H |-> <<>>, ints |-> {}, obj |-> <<0>>, max |-> TRUE]>>
     ELSE IF ~d.alive \/ e.exc = "dead" THEN <<"und", d>>
     ELSE IF op = "clear" THEN <<V1(noexc /\ e.dim = 0, "C06:clear"), [alive |-> TRUE, n |-> 0, H |-> <<>>, ints |-> {}, obj |-> <<0>>, max |-> TRUE]>>
     ELSE IF op = "add_constraint" THEN
          (IF e.n > d.n \/ NontrivStrict([k |-> e.k, v |-> e.v]) THEN inv(TRUE)
           ELSE IF TrivStrict([k |-> e.k, v |-> e.v]) /\ e.exc = "invalid_argument" THEN <<"ok", d>>
           ELSE <<V1(noexc, "C06:unexpected-exception"), [d EXCEPT !.H = Append(d.H, Closed([k |-> e.k, v |-> e.v], m))]>>)
     ELSE IF op = "add_constraints" THEN
          (IF (Len(e.cs) > 0 /\ e.n > d.n) \/ (\E i \in 1..Len(e.cs) : NontrivStrict(e.cs[i])) THEN inv(TRUE)
           ELSE IF (\E i \in 1..Len(e.cs) : TrivStrict(e.cs[i])) /\ e.exc = "invalid_argument" THEN <<"ok", d>>
           ELSE <<V1(noexc, "C06:unexpected-exception"), [d EXCEPT !.H = d.H \o RowsOf(e.cs, m)]>>)
     ELSE IF op = "add_dims" THEN <<V1(noexc /\ e.dim = d.n + e.b, "C06:add_space_dimensions_and_embed"),
                                    [d EXCEPT !.n = d.n + e.b, !.H = [i \in 1..Len(d.H) |-> [k |-> d.H[i].k, v |-> Pad(d.H[i].v, m + e.b)]], !.obj = Pad(d.obj, m + e.b)]>>
     ELSE IF op = "add_ints" THEN (IF \E i \in 1..Len(e.vs) : e.vs[i] >= d.n THEN inv(TRUE) ELSE <<V1(noexc, "C06:unexpected-exception"), [d EXCEPT !.ints = d.ints \cup {e.vs[i] + 2 : i \in 1..Len(e.vs)}]>>)
     ELSE IF op = "set_obj" THEN (IF e.n > d.n THEN inv(TRUE) ELSE <<V1(noexc, "C06:unexpected-exception"), [d EXCEPT !.obj = Pad(e.v, m)]>>)
     ELSE IF op = "set_mode" THEN <<V1(noexc, "C06:unexpected-exception"), [d EXCEPT !.max = (e.b = 1)]>>
     ELSE IF op \in {"pricing", "copy"} THEN <<V1(noexc, "C06:unexpected-exception"), d>>
     ELSE IF op = "dumpload" THEN <<V1(noexc /\ e.rb, "C15:dump-load"), d>>
     ELSE IF op = "evaluate" THEN
          (IF e.n > d.n THEN inv(TRUE)
           ELSE <<V1(noexc /\ e.den > 0 /\ e.num * e.v[1] = Dot(Pad(d.obj, m), Pad(e.v, m)) * e.den, "C06:evaluate_objective_function"), d>>)
     ELSE IF TooBig(d) THEN <<"und", d>>
     ELSE LET x == Expected(d) IN
          IF x.status = "undecided" THEN <<"und", d>>
          ELSE IF op = "solve" THEN <<V1(noexc /\ e.status = x.status, "C06:solve-status"), d>>
          ELSE IF op = "is_satisfiable" THEN <<V1(noexc /\ e.rb = (x.status # "unfeasible"), "C06:is_satisfiable"), d>>
          ELSE IF op = "feasible_point" THEN
               (IF x.status = "unfeasible" THEN <<V1(e.exc = "domain_error", "C14:query-on-infeasible-problem-not-rejected"), d>>
                ELSE <<V1(noexc /\ Len(e.pt) = m /\ e.pt[1] > 0 /\ FeasPt(d.H, [k |-> "point", v |-> e.pt]) /\ IsInt([k |-> "point", v |-> e.pt], d.ints), "C06:feasible_point"), d>>)
          ELSE IF op = "optimizing_point" THEN
               (IF x.status # "optimized" THEN <<V1(e.exc = "domain_error", "C14:query-on-unsolvable-problem-not-rejected"), d>>
                ELSE <<V1(noexc /\ Len(e.pt) = m /\ e.pt[1] > 0 /\ FeasPt(d.H, [k |-> "point", v |-> e.pt]) /\ IsInt([k |-> "point", v |-> e.pt], d.ints)
                           /\ Dot(Pad(d.obj, m), e.pt) * x.den = x.num * e.pt[1], "C06:optimizing_point"), d>>)
          ELSE IF op = "optimal_value" THEN
               (IF x.status # "optimized" THEN <<V1(e.exc = "domain_error", "C14:query-on-unsolvable-problem-not-rejected"), d>>
                ELSE <<V1(noexc /\ e.den > 0 /\ e.num * x.den = x.num * e.den, "C06:optimal_value"), d>>)
          ELSE <<"und", d>>
Next == /\ l <= Len(Tr) + 1
        /\ IF l = Len(Tr) + 1
           THEN JsonSerialize(IOEnv.VOUT, [n |-> Len(Tr), bad |-> bad, und |-> und]) /\ UNCHANGED <<dat, pend, und, bad>>
           ELSE LET e == Tr[l] IN
                IF e.e = "Reset" THEN dat' = NoProb /\ pend' = "" /\ UNCHANGED <<und, bad>>
                ELSE IF e.e = "Call" THEN pend' = e.op /\ UNCHANGED <<dat, und, bad>>
                ELSE IF e.e \in {"Crash", "Hang"} THEN
                     /\ bad' = Append(bad, [l |-> l, op |-> pend, why |-> IF e.e = "Hang" /\ dat.alive /\ ~TooBig(dat) /\ dat.ints # {} /\ ~BoundedInts(dat)
                                                                           THEN "C06:hang-integer-variable-unbounded-in-the-relaxation" ELSE "C06:" \o e.e])
                     /\ dat' = NoProb /\ pend' = "" /\ UNCHANGED und
                ELSE \E r0 \in {Step(e, dat)} : \E r \in {IF ~e.ok /\ r0[1] \in {"ok", "und"} THEN <<"C06:OK()", r0[2]>> ELSE r0} :
                     /\ dat' = r[2] /\ pend' = ""
                     /\ und' = (IF r[1] = "und" THEN Append(und, l) ELSE und)
                     /\ bad' = (IF r[1] \in {"ok", "und"} THEN bad ELSE Append(bad, [l |-> l, op |-> e.op, why |-> r[1]]))
        /\ l' = l + 1
=====================================================================
