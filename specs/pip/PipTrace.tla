---------------------------- MODULE PipTrace ----------------------------
(* C07: every logged solve of a parametric integer program is one action.  The solution TREE the library
   returned is evaluated BY THE SPECIFICATION (artificial parameters by floor division, decision nodes by their
   constraints) for every valuation of the parameters in 0..PMax, and the outcome is compared with the
   definition: the lexicographically smallest non-negative integer point of the feasible region, found by
   brute force in the box 0..BMax, or bottom when there is none.  Any disagreement found is a concrete
   integer witness, hence genuine whatever the box (R1); when the brute-force minimum touches the border of
   the box the case is undecided. *)
EXTENDS Integers, Sequences, FiniteSets, TLC, Json, IOUtils
Tr == ndJsonDeserialize(IOEnv.TRACE)
BMax == 7
PMax == 4
\* expression e = <<inh, c_0, ..., c_{k-1}>> over dims 0.. ; env = values of dims 0..Len(env)-1
EvalE(e, env) == LET RECURSIVE S(_)
                     S(i) == IF i = 0 THEN 0 ELSE (IF i <= Len(env) /\ i + 1 <= Len(e) THEN e[i+1] * env[i] ELSE 0) + S(i-1)
                 IN e[1] + S(Len(e) - 1)
UsesBeyond(e, k) == \E i \in 2..Len(e) : i - 1 > k /\ e[i] # 0          \* mentions a dimension that is not defined yet
SatC(c, env) == LET x == EvalE(c.v, env) IN IF c.k = "eq" THEN x = 0 ELSE IF c.k = "gt" THEN x > 0 ELSE x >= 0
RECURSIVE WithArts(_, _, _)
WithArts(arts, i, env) == IF i > Len(arts) THEN env
                          ELSE IF arts[i].den <= 0 \/ UsesBeyond(arts[i].e, Len(env)) THEN <<"ill-formed">>
                          ELSE WithArts(arts, i+1, Append(env, EvalE(arts[i].e, env) \div arts[i].den))
\* Eval returns <<"bot">>, <<"sol", values>> or <<"ill-formed">>
RECURSIVE Eval(_, _)
Eval(n, env) ==
  IF n.kind = "bot" THEN <<"bot">>
  ELSE LET env2 == WithArts(n.art, 1, env) IN
       IF env2 = <<"ill-formed">> THEN <<"ill-formed">>
       ELSE IF \E i \in 1..Len(n.cs) : UsesBeyond(n.cs[i].v, Len(env2)) THEN <<"ill-formed">>
       ELSE LET ok == \A i \in 1..Len(n.cs) : SatC(n.cs[i], env2) IN
            IF n.kind = "sol" THEN (IF ~ok THEN <<"bot">>
                                    ELSE IF \E i \in 1..Len(n.sol) : UsesBeyond(n.sol[i], Len(env2)) THEN <<"ill-formed">>
                                    ELSE <<"sol", [i \in 1..Len(n.sol) |-> EvalE(n.sol[i], env2)]>>)
            ELSE IF ok THEN Eval(n.t, env2) ELSE Eval(n.f, env2)
RECURSIVE Tuples(_, _)
Tuples(S, k) == IF k = 0 THEN {<<>>} ELSE {Append(t, a) : t \in Tuples(S, k - 1), a \in S}
LexLess(x, y) == \E i \in 1..Len(x) : x[i] < y[i] /\ \A j \in 1..(i-1) : x[j] = y[j]
\* environment over all D dims from variable values xs and parameter values ps
EnvOf(e, xs, ps) == [d \in 1..e.D |-> LET isv == \E i \in 1..Len(e.vars) : e.vars[i] = d - 1 IN
                                       IF isv THEN xs[CHOOSE i \in 1..Len(e.vars) : e.vars[i] = d - 1] ELSE ps[CHOOSE i \in 1..Len(e.pars) : e.pars[i] = d - 1]]
IsCtx(c, e) == \A i \in 1..Len(e.vars) : c.v[e.vars[i] + 2] = 0
Verdicts(e) ==
  IF e.status \in {"hang", "crash", "exception"} THEN {<<"C07:" \o e.status, <<>>, <<>>>>}
  ELSE IF ~e.ok THEN {<<"C07:OK()", <<>>, <<>>>>}
  ELSE LET nv == Len(e.vars)  np == Len(e.pars)  zero == [i \in 1..nv |-> 0] IN
       UNION { LET ctxOK == \A i \in 1..Len(e.cs) : IsCtx(e.cs[i], e) => SatC(e.cs[i], EnvOf(e, zero, p))
                   F == {x \in Tuples(0..e.bmax, nv) : \A i \in 1..Len(e.cs) : SatC(e.cs[i], EnvOf(e, x, p))}
                   r == Eval(e.tree, EnvOf(e, zero, p))
                   border(x) == \E i \in 1..nv : x[i] = e.bmax
               IN IF ~ctxOK THEN {}
                  ELSE IF r[1] = "ill-formed" THEN {<<"C07:tree-uses-undeclared-parameter", p, <<>>>>}
                  ELSE IF r[1] = "bot" THEN (IF F = {} THEN {} ELSE {<<"C07:bottom-but-feasible", p, CHOOSE x \in F : \A y \in F : ~LexLess(y, x)>>})
                  ELSE LET x == r[2] IN
                       IF \E i \in 1..nv : x[i] < 0 THEN {<<"C07:negative-solution", p, x>>}
                       ELSE IF ~(\A i \in 1..Len(e.cs) : SatC(e.cs[i], EnvOf(e, x, p))) THEN {<<"C07:infeasible-solution", p, x>>}
                       ELSE IF \E y \in F : LexLess(y, x) THEN {<<"C07:not-the-lexicographic-minimum", p, x>>}
                       ELSE {}
             : p \in Tuples(0..PMax, np) }
       \cup (IF e.status = "unfeasible" /\ e.tree.kind # "bot" THEN {<<"C07:status-unfeasible-with-a-tree", <<>>, <<>>>>} ELSE {})
AllKinds == <<"C07:hang", "C07:crash", "C07:exception", "C07:OK()", "C07:tree-uses-undeclared-parameter", "C07:bottom-but-feasible",
              "C07:negative-solution", "C07:infeasible-solution", "C07:not-the-lexicographic-minimum", "C07:status-unfeasible-with-a-tree">>
VARIABLES l, bad
Init == l = 1 /\ bad = <<>>
Next == /\ l <= Len(Tr) + 1
        /\ IF l = Len(Tr) + 1 THEN JsonSerialize(IOEnv.VOUT, [n |-> Len(Tr), bad |-> bad, und |-> <<>>]) /\ UNCHANGED bad
           ELSE \E vs \in {Verdicts(Tr[l])} :
                LET present == SelectSeq(AllKinds, LAMBDA k : \E v \in vs : v[1] = k) IN
                bad' = bad \o [i \in 1..Len(present) |->
                                 LET w == CHOOSE v \in vs : v[1] = present[i] IN
                                 [l |-> l, op |-> "solve", why |-> present[i], pv |-> w[2], x |-> w[3], count |-> Cardinality({v \in vs : v[1] = present[i]})]]
        /\ l' = l + 1
=====================================================================
