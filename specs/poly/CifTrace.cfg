INIT Init
NEXT CifNext
CHECK_DEADLOCK FALSE
