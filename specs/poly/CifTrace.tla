------------------------------ MODULE CifTrace ------------------------------
(* C20 — the C language interface.  The events come from harness/cpoly.cc, which executes the SAME TLC-generated call
   histories as harness/poly.cc but performs every call through the C entry points of interfaces/C on ppl_Polyhedron_t
   handles.  An event additionally carries
      rcode   the (negative) return code of the failing C call, 0 if every C call of the step returned >= 0
      hcalls  how many times the handler registered with ppl_set_error_handler was invoked during the step
      hcode   the code the handler received last.
   A negative return code is mapped by the harness to the name of the C++ exception class that the code stands for, so the
   whole definitional model of PolyTrace (preconditions => which calls must be rejected and with which class, results of
   observers, results of mutators, frame, value unchanged by a failing call) applies unchanged; on top of it:
     (P1) a call fails (negative code)  <=>  the registered handler ran exactly once, with the same code;
     (P2) no C++ exception crosses the interface;
     (P3) the handles stay usable after a failing call (PolyTrace compares their values with the pre-state and every later
          call of the history goes through them);
     (P4) boolean answers arrive as positive / zero and agree with the model; numeric answers arrive through out-parameters.
   Every rejection is reported under C20: through this harness any divergence is a divergence of the C interface from the
   documented C++ behaviour. *)
EXTENDS PolyTrace

Protocol(e) ==
  IF e.exc = "c++-exception-crossed-the-interface" THEN "C20:exception-crossed-the-C-interface"
  ELSE IF e.rcode < 0 /\ e.hcalls = 0 THEN "C20:negative-code-but-handler-not-invoked"
  ELSE IF e.rcode < 0 /\ e.hcalls > 1 THEN "C20:handler-invoked-more-than-once"
  ELSE IF e.rcode < 0 /\ e.hcode # e.rcode THEN "C20:handler-code-differs-from-return-code"
  ELSE IF e.rcode >= 0 /\ e.hcalls > 0 THEN "C20:handler-invoked-but-call-reported-success"
  ELSE IF e.exc = "error-code" THEN "C20:undocumented-error-code"
  ELSE "ok"

CifCheck(e) ==
  LET p == Protocol(e) IN
  IF p # "ok" THEN p
  ELSE LET c == Check(e) IN IF c \in {"ok", "und"} THEN c ELSE "C20:" \o c

CifNext ==
  /\ l <= Len(Tr) + 1
  /\ IF l = Len(Tr) + 1
     THEN /\ JsonSerialize(IOEnv.VOUT, [n |-> Len(Tr), bad |-> bad, und |-> und])
          /\ UNCHANGED <<val, und, bad>>
     ELSE LET e == Tr[l] IN
          IF e.e = "Reset" THEN val' = <<Dead, Dead, Dead>> /\ UNCHANGED <<und, bad>>
          ELSE IF e.e \in {"Crash", "Hang"} THEN val' = <<Dead, Dead, Dead>> /\ und' = und /\ bad' = Append(bad, [l |-> l, op |-> e.e, why |-> "C20:" \o e.e])
          ELSE LET c == CifCheck(e) IN
               /\ val' = [i \in 1..3 |-> Proj(e.post[i])]
               /\ und' = IF c = "und" THEN Append(und, l) ELSE und
               /\ bad' = IF c \in {"ok", "und"} THEN bad ELSE Append(bad, [l |-> l, op |-> e.op, why |-> c])
  /\ l' = l + 1
=============================================================================
