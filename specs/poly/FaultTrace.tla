----------------------------- MODULE FaultTrace -----------------------------
(* C14(b) — calls cut short by resource exhaustion, client-requested abandonment or coefficient overflow.
   The abstract machine: a history of calls is executed on a pool of objects with the library's live-block count `base';
   a fault behaviour is   Run(k) : the calls are executed until the k-th fault position (allocation request / abandonment
   checkpoint / first overflow); the interrupted call may only end by propagating the fault's own exception (or by completing, if
   the library absorbed it);  Recover : every object of the pool is checked, used, copied, assigned to, used again and destroyed;
   Again : the same history is executed undisturbed on fresh objects.
   The trace (harness/fault.cc) has one "Hist" line per history (number of fault positions n) followed by one "Fault" line per
   explored position.  Accepting a line means:
     - positions are visited in increasing order and below n (the enumeration really covers the run);
     - the exception that left the interrupted call is the injected one (std::bad_alloc / the client's Throwable / std::overflow_error)
       or the one the same call raises in the undisturbed run (a rejected call whose message formatting absorbed the fault),
       not a different class and not a crash;
     - after Recover the live-block count is back to `base' (leak = 0); a non-zero difference is a leak only if repeating the very
       same position leaks again (a static pool that grew once does not);
     - every object could be assigned to, then used (correct answers, invariant OK(), copy) and destroyed; whether OK() held
       BEFORE the assignment is logged (okbefore) but not required: the value of an object after an exception is unspecified;
     - Again gives exactly the answers and final values of the reference run.                                                  *)
EXTENDS Naturals, Integers, Sequences, TLC, Json, IOUtils
VARIABLES l, cur, lastk, bad, und
Tr == ndJsonDeserialize(IOEnv.TRACE)
Init == l = 1 /\ cur = [n |-> 0, mode |-> 0] /\ lastk = -1 /\ bad = <<>> /\ und = <<>>
Injected(mode) == IF mode \in {0, 3} THEN "bad_alloc" ELSE IF mode = 1 THEN "abandoned" ELSE "overflow_error"
FaultCheck(e) ==
  IF e.mode # cur.mode \/ e.k <= lastk \/ (e.mode # 2 /\ e.k >= cur.n - 1) THEN "C14:fault-enumeration-out-of-order"
  ELSE IF e.crashed THEN "C14:crash-during-or-after-fault-in-a-fresh-process"
  ELSE IF e.thrown \notin {Injected(e.mode), "none", e.refexc} THEN "C14:fault-left-the-call-as-a-different-exception"
  ELSE IF e.thrown = "none" /\ e.fired /\ e.mode = 1 THEN "C14:abandonment-request-swallowed"
  ELSE IF ~e.usable THEN "C14:object-unusable-after-fault"
  ELSE IF ~e.okafter THEN "C14:object-invariant-broken-after-fault"
  ELSE IF e.leak > 0 /\ e.leak2 > 0 THEN "C14:memory-leaked-by-interrupted-call"
  ELSE IF ~e.same THEN "C14:library-not-usable-after-fault"
  ELSE "ok"
Next ==
  /\ l <= Len(Tr) + 1
  /\ IF l = Len(Tr) + 1
     THEN /\ JsonSerialize(IOEnv.VOUT, [n |-> Len(Tr), bad |-> bad, und |-> und])
          /\ UNCHANGED <<cur, lastk, bad, und>>
     ELSE LET e == Tr[l] IN
          IF e.e = "Reset" THEN cur' = [n |-> 0, mode |-> 0] /\ lastk' = -1 /\ UNCHANGED <<bad, und>>
          \* a crash or hang BEFORE the "Hist" line happened in an undisturbed run: not a fault behaviour (the functional properties own it)
          ELSE IF e.e \in {"Crash", "Hang"} /\ cur.n = 0 THEN cur' = cur /\ lastk' = lastk /\ und' = Append(und, l) /\ bad' = bad
          ELSE IF e.e \in {"Crash", "Hang"} THEN cur' = cur /\ lastk' = lastk /\ und' = und /\ bad' = Append(bad, [l |-> l, op |-> e.e, why |-> "C14:" \o e.e])
          ELSE IF e.e = "Hist" THEN /\ cur' = [n |-> e.n + 1, mode |-> e.mode] /\ lastk' = -1 /\ und' = und
                                    /\ bad' = IF e.usable /\ e.okafter THEN bad ELSE Append(bad, [l |-> l, op |-> e.op, why |-> "C14:object-unusable-after-undisturbed-run"])
          ELSE LET c == FaultCheck(e) IN
               /\ cur' = cur /\ lastk' = e.k
               /\ und' = und
               /\ bad' = IF c = "ok" THEN bad ELSE Append(bad, [l |-> l, op |-> e.op, why |-> c])
  /\ l' = l + 1
=============================================================================
