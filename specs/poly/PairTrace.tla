---------------------------- MODULE PairTrace ----------------------------
(* C11, configuration clause: the same TLC-generated histories are executed by the library built
   with unbounded (GMP) coefficients (event a) and by the library built with bounded checked
   coefficients (event b).  A step is accepted iff b raised std::overflow_error (from then on the
   rest of that history is not compared: the bounded objects are only required to stay usable),
   or b agrees with a: same exception, same answers, and every slot denotes the same set.
   "The bounded configuration never returns a different answer." *)
EXTENDS NNCGens, Json, IOUtils
Tr == ndJsonDeserialize(IOEnv.TRACE)
VARIABLES l, off, bad, und, ncmp
Init == l = 1 /\ off = FALSE /\ bad = <<>> /\ und = <<>> /\ ncmp = 0
Sub(a, b) == QContains(b.H, a.V)
SameVal(a, b) == (a.alive = b.alive) /\ (~a.alive \/ (a.n = b.n /\ a.topo = b.topo /\ ((a.H = b.H /\ a.V = b.V) \/ (Sub(a, b) /\ Sub(b, a)))))
MaxAbs(rows) == LET RECURSIVE F(_, _)
                    F(i, j) == IF i > Len(rows) THEN 0
                               ELSE IF j > Len(rows[i].v) THEN F(i+1, 1)
                               ELSE LET x == Abs(rows[i].v[j]) y == F(i, j+1) IN IF x > y THEN x ELSE y
                IN F(1, 1)
SmallVal(p) == ~p.alive \/ (MaxAbs(p.H) <= 60 /\ MaxAbs(p.V) <= 60 /\ Len(p.H) <= 14 /\ Len(p.V) <= 14)
Verdict(a, b) ==
  IF b.e # "Op" THEN "C11:bounded-build-" \o b.e
  ELSE IF a.e # "Op" THEN "und"
  ELSE IF a.big \/ b.big \/ ~(\A i \in 1..3 : SmallVal(a.post[i]) /\ SmallVal(b.post[i])) THEN "und"
  ELSE IF b.exc # a.exc THEN "C11:bounded-build-different-exception"
  ELSE IF b.rb # a.rb \/ b.ri # a.ri \/ b.rc # a.rc THEN "C11:bounded-build-different-answer"
  ELSE IF (b.rr.ok # a.rr.ok) \/ (a.rr.ok /\ (b.rr.num * a.rr.den # a.rr.num * b.rr.den \/ b.rr.ext # a.rr.ext)) THEN "C11:bounded-build-different-optimum"
  ELSE IF ~(\A i \in 1..3 : SameVal(a.post[i], b.post[i])) THEN "C11:bounded-build-different-value"
  ELSE "ok"
Next == /\ l <= Len(Tr) + 1
        /\ IF l = Len(Tr) + 1
           THEN JsonSerialize(IOEnv.VOUT, [n |-> Len(Tr), bad |-> bad, und |-> und, compared |-> ncmp]) /\ UNCHANGED <<off, bad, und, ncmp>>
           ELSE LET p == Tr[l] IN
                IF p.e = "Reset" THEN off' = FALSE /\ UNCHANGED <<bad, und, ncmp>>
                ELSE IF off THEN UNCHANGED <<off, bad, und, ncmp>>
                ELSE IF p.b.e = "Op" /\ p.b.exc = "overflow_error" THEN off' = TRUE /\ UNCHANGED <<bad, und>> /\ ncmp' = ncmp + 1
                ELSE \E c \in {Verdict(p.a, p.b)} :
                     /\ off' = (c # "ok")        \* after a disagreement or an undecided step the two runs are no longer comparable
                     /\ ncmp' = ncmp + 1
                     /\ und' = IF c = "und" THEN Append(und, l) ELSE und
                     /\ bad' = IF c \in {"ok", "und"} THEN bad ELSE Append(bad, [l |-> l, op |-> p.a.op, why |-> c])
        /\ l' = l + 1
=====================================================================
