CONSTANTS MaxLen = 12
 Slots = {1,2,3}
 MaxDim = 3
 IllShare = 6
 CoefMax = 2
 OpSet <- AllOps
 Recipe = FALSE
SPECIFICATION Spec
CONSTRAINT EmitProg
CHECK_DEADLOCK FALSE
