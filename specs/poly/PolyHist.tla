---------------------------- MODULE PolyHist ----------------------------
(* History generator for the polyhedron pool (C01, C02, C13, C14a, C15): the driver half of the
   Pool machine of DESIGN.md 3.6.  The state is only what decides applicability of a call --
   per slot: alive/dimension, topology, and a hidden anchor point near which most data is drawn
   so that objects stay non-empty -- and the program emitted so far.  Two phases per call: first
   the operation (operations, not argument tuples, are equiprobable), then slots and arguments.
   A share `IllShare` of the calls is made ill-formed on purpose (rejected-call actions of C14a).
   Run with -simulate; every behaviour reaching MaxLen is printed as one JSON program. *)
EXTENDS Integers, Sequences, TLC, Json, FiniteSets, SequencesExt
CONSTANTS MaxLen, Slots, MaxDim, OpSet, IllShare, CoefMax, Recipe, Shape
Coef == (-CoefMax)..CoefMax
RE(S) == RandomElement(S)
\* NOTE on randomness: TLC re-evaluates a LET-bound or lazily represented expression at every use, so
\* every random draw is bound exactly once with  \E x \in {draw}  or  CHOOSE x \in {draw} : TRUE  and
\* random vectors are materialised with SubSeq.
Mat(s) == SubSeq(s, 1, Len(s))
\* Shape = "poly": arbitrary coefficient vectors.  Otherwise the same histories drive boxes ("box"), bounded-difference shapes
\* ("bds") or octagons ("oct"): three vectors in four are then template directions of that domain (a*x_i; a*x_i - a*x_j;
\* a*x_i +- a*x_j), so that most constraints and expressions are representable, and one in four is arbitrary.
GVec(n) == Mat([i \in 1..n |-> RE(Coef)])
ShapeVec(n) == LET mk(i, j, a, sg) == [k \in 1..n |-> IF k = i THEN a ELSE IF k = j /\ Shape # "box" THEN (IF Shape = "bds" THEN -a ELSE sg * a) ELSE 0]
               IN CHOOSE v \in {mk(i, j, a, sg) : i \in {RE(1..n)}, j \in {RE(1..n)}, a \in {RE(Coef \ {0})}, sg \in {RE({-1, 1})}} : TRUE
Vec(n) == IF Shape = "poly" \/ n = 0 \/ RE(1..4) = 1 THEN GVec(n) ELSE Mat(ShapeVec(n))
SetToSeqL(S) == SetToSortSeq(S, <)
Dot(u, v) == LET RECURSIVE D(_)
                 D(i) == IF i = 0 THEN 0 ELSE u[i] * v[i] + D(i-1)
             IN D(IF Len(u) < Len(v) THEN Len(u) ELSE Len(v))
VARIABLES prog, dim, topo, anchor, phase, cur, focus, nd, rk
vars == <<prog, dim, topo, anchor, phase, cur, focus, nd, rk>>
D0 == [op |-> "", dst |-> 1, src |-> 0, n |-> 0, topo |-> "C", k |-> "x", var |-> 0, den |-> 1, mod |-> 0,
       v |-> <<>>, w |-> <<>>, vs |-> <<>>, cs |-> <<>>, gs |-> <<>>]
Init == /\ prog = <<>> /\ dim = [s \in Slots |-> -1] /\ topo = [s \in Slots |-> "C"]
        /\ anchor = [s \in Slots |-> [i \in 1..MaxDim |-> 0]]
        /\ phase = "setup" /\ cur = "none" /\ focus = 1 /\ nd = 0 /\ rk = "op"
\* TLC evaluates Init ONCE per run, also in simulation mode: every random draw that must differ from one history to the next (anchors,
\* number of state drivers, kind of recipe) is made by this first step, not by Init
Setup == /\ phase = "setup" /\ phase' = "op"
         /\ anchor' = Mat([s \in 1..3 |-> Mat([i \in 1..(MaxDim + 2) |-> RE(-1..1)])])
         /\ nd' \in {RE(0..3)} /\ rk' \in {IF "chain" \in OpSet THEN "chain" ELSE IF "copy-recipe" \in OpSet THEN "copy" ELSE RE({"op", "op", "copy"})}
         /\ UNCHANGED <<prog, dim, topo, cur, focus>>
Alive(s) == dim[s] >= 0
AliveS == {s \in Slots : Alive(s)}
\* the step of a powerset "copy" recipe in which the copy receives a further disjunct: its arguments are drawn around the original's anchor
ShareNow == Recipe /\ Shape \in {"psetC", "psetN"} /\ rk = "copy" /\ Len(prog) = 3 + nd
\* NOTE: a zero-arity definition built from constants only would be evaluated ONCE by TLC and cached; the dummy parameter prevents that
Ill(x) == RE(1..100) <= IllShare
\* a constraint over n dimensions that the anchor a satisfies (kind k)
Friendly(a, n, k) == LET mk(t, sl) == Mat(<<(-Dot(t, a)) + (IF k = "eq" THEN 0 ELSE IF k = "gt" THEN 1 + sl ELSE sl)>> \o t)
                     IN CHOOSE r \in {mk(t, sl) : t \in {Vec(n)}, sl \in {RE(0..2)}} : TRUE
AnyCon(n) == Mat(<<RE(Coef)>> \o Vec(n))
ConKinds(t) == IF t = "NNC" THEN {"ge", "ge", "eq", "gt"} ELSE {"ge", "ge", "eq"}
ConFor(s, n) == CHOOSE c \in {[k |-> k, v |-> IF RE(1..4) <= 3 THEN Friendly(anchor[IF ShareNow THEN 1 ELSE s], n, k) ELSE AnyCon(n)] : k \in {RE(ConKinds(topo[s]))}} : TRUE
\* generator near the anchor: points anchor+delta (divisor 1 or 2), rays/lines random
\* (shape mode: mostly points, so that many elements are bounded and the deduction rules of the weakly relational transformers are reached)
GenKinds(t) == IF Shape # "poly" THEN {"point", "point", "point", "point", "point", "ray", "line"}
               ELSE IF t = "NNC" THEN {"point", "point", "cpoint", "ray", "line"} ELSE {"point", "point", "ray", "line"}
GenOf(kinds, a, n) == LET mk(k, d, t) == [k |-> k, v |-> IF k \in {"point", "cpoint"}
                                   THEN Mat(<<d>> \o [i \in 1..n |-> d * a[i] + RE(-1..1)])
                                   ELSE Mat(<<0>> \o (IF n > 0 /\ \A i \in 1..n : t[i] = 0 THEN [i \in 1..n |-> IF i = 1 THEN 1 ELSE 0] ELSE t))]
                     IN CHOOSE g \in {mk(k, d, t) : k \in {RE(kinds)}, d \in {IF Shape = "poly" THEN RE({1, 1, 2}) ELSE RE({1, 1, 2, 16})}, t \in {Vec(n)}} : TRUE
GenFor(s, n) == GenOf(GenKinds(topo[s]), anchor[IF ShareNow THEN 1 ELSE s], n)
PointFor(s, n) == [k |-> "point", v |-> Mat(<<1>> \o [i \in 1..n |-> anchor[IF ShareNow THEN 1 ELSE s][i] + RE(-1..1)])]
Emit(rec) == prog' = Append(prog, rec)
Keep == UNCHANGED <<dim, topo, anchor>>
CtorOps == {"new", "from_cs", "from_gs", "from_cgs"}
Pset == Shape \in {"psetC", "psetN"}         \* the same generator drives pools of pointset powersets (C09)
UnObs == {"constraints", "min_constraints", "generators", "min_generators", "congruences", "min_congruences",
          "space_dimension", "affine_dimension", "is_empty", "is_universe", "is_bounded", "is_discrete",
          "is_topologically_closed", "contains_integer_point", "OK", "hash_code"} \cup (IF Pset THEN {"size"} ELSE {})
VarObs == {"constrains"}
ExprObs == {"bounds_from_above", "bounds_from_below", "maximize", "minimize", "maximize_pt", "minimize_pt", "frequency"}
BinObs == {"contains", "strictly_contains", "is_disjoint_from", "equals", "not_equals"} \cup (IF Pset THEN {"geometrically_covers", "geometrically_equals"} ELSE {})
ConOps == {"add_constraint", "refine_with_constraint", "relation_with_constraint"}
ConsOps == {"add_constraints", "refine_with_constraints"} \cup (IF Pset THEN {"add_disjunct"} ELSE {})
GenOps == {"add_generator", "relation_with_generator"}
GensOps == {"add_generators"} \cup (IF Pset THEN {"add_disjunct_gs"} ELSE {})
CgOps == {"add_congruence", "refine_with_congruence", "relation_with_congruence"}
CgsOps == {"add_congruences", "refine_with_congruences"}
BinMut == {"intersection", "poly_hull", "poly_difference", "time_elapse", "positive_time_elapse", "simplify_using_context", "hull_if_exact"}
\* widenings and extrapolations (C08): argument slot, optional token counter (mod = 1: a pointer is passed, den = tokens), limiting constraints
LimOps == {"limited_H79", "limited_BHRZ03", "bounded_H79", "bounded_BHRZ03", "limited_CC76", "limited_BHMZ05"}
WidOps == IF Shape = "poly" THEN {"H79_widening", "BHRZ03_widening", "limited_H79", "limited_BHRZ03", "bounded_H79", "bounded_BHRZ03"}
          ELSE IF Shape = "box" THEN {"CC76_widening", "widening", "CC76_narrowing", "limited_CC76"}
          ELSE IF Shape = "bds" THEN {"CC76_widening", "BHMZ05_widening", "H79_widening", "widening", "CC76_narrowing", "limited_CC76", "limited_BHMZ05", "limited_H79"}
          ELSE IF Pset THEN {"BHZ03_widening", "BGP99_extrapolation"}
          ELSE {"CC76_widening", "BHMZ05_widening", "widening", "CC76_narrowing", "limited_CC76", "limited_BHMZ05"}
PoolOps == {"copy_from", "assign", "swap", "conv_topo", "rebuild", "dumpload", "destroy"}
UnMut == {"topological_closure"} \cup (IF Pset THEN {"omega_reduce", "pairwise_reduce", "collapse"} ELSE {})
ImgOps == {"affine_image", "affine_preimage", "gen_affine_image", "gen_affine_preimage", "bounded_affine_image", "bounded_affine_preimage"}
LhsOps == {"gen_affine_image_lhs", "gen_affine_preimage_lhs"}
DimUp == {"add_dims_embed", "add_dims_project", "expand", "concatenate"}
DimDown == {"remove_dims", "remove_higher", "fold"}
DimOther == {"unconstrain", "unconstrain_set", "map_dims"}
AllOps == CtorOps \cup UnObs \cup VarObs \cup ExprObs \cup BinObs \cup ConOps \cup ConsOps \cup GenOps \cup GensOps \cup CgOps \cup CgsOps
          \cup BinMut \cup WidOps \cup PoolOps \cup UnMut \cup ImgOps \cup LhsOps \cup DimUp \cup DimDown \cup DimOther
\* OpSet <- CopyRecipeOps: every recipe history is a copy recipe (C13: the copy, assignment and swap paths of a value in a prepared internal state)
CopyRecipeOps == AllOps \cup {"copy-recipe"}
\* (an affine image transforms both descriptions in place -- non-unit divisors, rows no longer normalized or sorted -- without minimizing anything)
DriverOps == {"min_constraints", "min_generators", "constraints", "generators", "add_generator", "add_constraint", "is_empty", "contains", "equals", "add_generators", "add_constraints", "affine_image"}
\* (dump / load is also a state driver: it rebuilds the element from text -- with divisor 16 above, from fractions below 1/10 as well)
ShapeDrivers == {"min_constraints", "constraints", "add_constraint", "refine_with_constraint", "is_empty", "contains", "equals", "refine_with_constraints", "is_universe", "dumpload"}
\* minimized_constraints() is the call that moves a weakly relational element into its reduced internal state: it is drawn half of the time
PsetDrivers == {"add_disjunct", "add_disjunct", "add_disjunct_gs", "omega_reduce", "pairwise_reduce", "size", "is_empty", "contains", "geometrically_covers", "copy_from", "add_constraint"}
\* products (Shape = "prod"): the drivers feed both components, proper congruences included, and read them back (reading reduces)
ProdDrivers == {"refine_with_congruence", "refine_with_congruence", "refine_with_congruences", "refine_with_constraint", "add_constraint", "is_empty", "contains",
                "constraints", "congruences", "equals", "affine_image"}
ShapeDriver(ok) == IF Shape = "prod" THEN RE(ProdDrivers) ELSE IF Pset THEN RE(PsetDrivers) ELSE IF RE(1..2) = 1 /\ "min_constraints" \in ok THEN "min_constraints" ELSE RE(ok)
OpOK(op) == IF op \in CtorOps THEN TRUE ELSE AliveS # {}
(* Recipe mode (state x operation coverage, in the style of one test per transition): slot 1 and slot 2 are built with the
   same dimension and topology, then nd in 0..3 state-driver calls move slot 1's lazy representation, then ONE target
   operation drawn from OpSet is applied to slot 1 (with slot 2 as argument if binary), then both minimized descriptions
   are observed.  Free mode: random walk over all operations. *)
\* two kinds of recipe: "op"  : ctor, ctor, nd drivers on slot 1, target operation on slot 1, two observers;
\*                        "copy": ctor, ctor, nd drivers on slot 1 (slot 1 may also serve as the const argument of a widening of
\*                                slot 2; in the forced copy-recipe plans one driver in three goes to slot 2 instead, so that the object assigned INTO has an internal state of its own), slot 2 := slot 1 by assignment / copy / swap, a mutator on the copy, two observers
\*                        "chain" (C08, selected by the pseudo-operation "chain" in OpSet): an ascending chain  x_0, x_{k+1} = W(x_k grown, x_k):
\*                                ctor on slot 1, then 2 + nd times [slot 2 := copy of slot 1; grow slot 1; widen slot 1 with slot 2]
\* powerset "copy" recipes have one more step: the copy first gets a further disjunct (drawn around the ORIGINAL's anchor, so that it often
\* contains, or is adjacent to, a disjunct the two objects share), and only then the mutator (mostly a reduction, which merges disjuncts
\* in place): an operation on the copy that writes through a shared disjunct shows up in the frame condition of the original
PsetShare == Pset /\ rk = "copy"
RecipeLen == IF rk = "op" THEN 5 + nd ELSE IF rk = "chain" THEN 1 + 3 * (2 + nd) ELSE IF PsetShare THEN 7 + nd ELSE 6 + nd
GrowOps == ({"add_generator", "add_generator", "add_generators", "gen_affine_image", "affine_image", "add_constraint", "unconstrain"}
            \cup (IF Pset THEN {"add_disjunct", "add_disjunct_gs"} ELSE {})) \cap OpSet
AfterCopy == Recipe /\ rk = "copy" /\ Len(prog) > 2 + nd
RecipeTargets == (AllOps \cap OpSet) \ (CtorOps \cup {"destroy", "dumpload", "copy_from", "rebuild", "conv_topo", "swap", "assign"})
RecipeOp == LET L == Len(prog) IN
            IF rk = "chain" THEN (IF L = 0 THEN RE({"from_cs", "from_gs", "from_gs"} \cap OpSet)
                                  ELSE IF (L - 1) % 3 = 0 THEN "copy_from"
                                  ELSE IF (L - 1) % 3 = 1 THEN RE(IF GrowOps = {} THEN {"refine_with_constraint"} ELSE GrowOps)
                                  ELSE RE(WidOps \cap OpSet))
            ELSE IF L = 0 THEN (IF Shape = "prod" THEN RE({"from_cs", "from_cgs", "from_cgs"}) ELSE RE({"from_cs", "from_gs", "from_cs"}))
            ELSE IF L = 1 THEN (IF Shape = "prod" THEN RE({"from_cs", "from_cgs", "new"}) ELSE RE({"from_cs", "from_gs", "new"}))
            ELSE IF L < 2 + nd THEN (IF rk = "copy" /\ RE(1..4) = 1 /\ Shape = "poly" THEN "H79_widening" ELSE IF Shape = "poly" THEN RE(DriverOps) ELSE ShapeDriver(ShapeDrivers))
            ELSE IF rk = "op" THEN (IF L = 2 + nd THEN RE(RecipeTargets) ELSE IF L = 3 + nd THEN "min_constraints" ELSE IF Shape = "poly" THEN "min_generators" ELSE "is_empty")
            ELSE IF L = 2 + nd THEN RE({"assign", "assign", "copy_from", "swap"})
            ELSE IF PsetShare /\ L = 3 + nd THEN RE({"add_disjunct", "add_disjunct", "add_disjunct_gs"})
            ELSE IF PsetShare /\ L = 4 + nd THEN (IF RE(1..3) <= 2 THEN RE({"pairwise_reduce", "pairwise_reduce", "omega_reduce", "collapse"})
                                                  ELSE RE(RecipeTargets \cap (ConOps \cup ConsOps \cup GenOps \cup GensOps \cup BinMut \cup WidOps \cup UnMut \cup ImgOps \cup DimUp \cup DimDown \cup DimOther)))
            ELSE IF PsetShare THEN (IF L = 5 + nd THEN "min_constraints" ELSE "is_empty")
            ELSE IF L = 3 + nd THEN RE(RecipeTargets \cap (ConOps \cup ConsOps \cup GenOps \cup GensOps \cup BinMut \cup WidOps \cup UnMut \cup ImgOps \cup DimUp \cup DimDown \cup DimOther))
            ELSE IF L = 4 + nd THEN "min_constraints" ELSE IF Shape = "poly" THEN "min_generators" ELSE "is_empty"
ChooseOp == /\ phase = "op" /\ Len(prog) < (IF Recipe THEN RecipeLen ELSE MaxLen)
            /\ LET ok == {o \in (AllOps \cap OpSet) : OpOK(o)} IN
               \* one call in three is a "state driver" (an observer or a small mutator that moves the lazy representation:
               \* minimisation, pending rows, sortedness), so that every operation is met in many internal states
               \E op \in {IF Recipe THEN RecipeOp
                          ELSE IF AliveS = {} \/ (Cardinality(AliveS) < Cardinality(Slots) /\ RE(1..3) = 1) THEN RE(CtorOps \cap OpSet)
                          ELSE IF RE(1..3) = 1 /\ (DriverOps \cap ok) # {} THEN RE((IF Shape = "poly" THEN DriverOps ELSE ShapeDrivers) \cap ok) ELSE RE(ok)} : cur' = op
            /\ phase' = "args" /\ UNCHANGED <<prog, dim, topo, anchor, focus, nd, rk>>
SetDim(s, n, t) == dim' = [dim EXCEPT ![s] = n] /\ topo' = [topo EXCEPT ![s] = t] /\ UNCHANGED anchor
ConOf(kinds, a, n) == CHOOSE c \in {[k |-> k, v |-> IF RE(1..5) <= 4 THEN Friendly(a, n, k) ELSE AnyCon(n)] : k \in {RE(kinds)}} : TRUE
\* ill-formed systems also contain trivial constraints (tautologies, contradictions), one time in four
TrivCon(n) == Mat(<<RE(-1..1)>> \o [i \in 1..n |-> 0])
RawCon(n) == CHOOSE c \in {[k |-> k, v |-> IF RE(1..3) = 1 THEN TrivCon(n) ELSE AnyCon(n)] : k \in {RE({"ge", "eq", "gt"})}} : TRUE
RawGen(n) == CHOOSE g \in {[k |-> k, v |-> Mat(<<d>> \o Vec(n))] : k \in {RE({"point", "cpoint", "ray", "line"})}, d \in {RE(0..2)}} : TRUE
\* make a generator acceptable to the Generator constructors (positive divisor / non-zero direction)
FixGen(g, n) == IF g.k \in {"point", "cpoint"} THEN [k |-> g.k, v |-> IF g.v[1] <= 0 THEN [g.v EXCEPT ![1] = 1] ELSE g.v]
                ELSE [k |-> g.k, v |-> IF n > 0 /\ \A i \in 2..(n+1) : g.v[i] = 0 THEN [[g.v EXCEPT ![2] = 1] EXCEPT ![1] = 0] ELSE [g.v EXCEPT ![1] = 0]]
RandSeq(cnt, F(_)) == Mat([i \in 1..cnt |-> F(i)])
Args ==
  /\ phase = "args" /\ phase' = "op" /\ cur' = "none"
  \* locality: two calls in three go to the slot used last, so that sequences of calls build up state on one object
  /\ UNCHANGED <<nd, rk>>
  /\ \E s0 \in {IF Recipe THEN (IF Len(prog) = 1 \/ AfterCopy \/ (rk = "copy" /\ cur \in {"H79_widening", "assign", "copy_from", "swap"}) \/ (rk = "copy" /\ "copy-recipe" \in OpSet /\ Len(prog) >= 2 /\ Len(prog) < 2 + nd /\ RE(1..3) = 1) THEN (IF rk = "chain" /\ Len(prog) = 1 THEN 1 ELSE 2) ELSE 1) ELSE IF AliveS = {} THEN focus ELSE IF Alive(focus) /\ RE(1..3) <= 2 THEN focus ELSE RE(AliveS)} : focus' = s0 /\
     \E ill \in {IF Recipe /\ Len(prog) < 2 + nd THEN FALSE ELSE Ill(Len(prog))} :
     \/ /\ cur \in CtorOps
        /\ \E s \in {IF Recipe \/ RE(1..2) = 1 THEN s0 ELSE RE(Slots)} :
           \E n \in {IF Recipe /\ Len(prog) = 1 THEN dim[1] ELSE IF Recipe THEN RE(1..MaxDim) ELSE RE(0..MaxDim)} :
           \E t \in {IF Shape = "psetC" THEN "C" ELSE IF Shape = "psetN" THEN "NNC" ELSE IF Recipe /\ Len(prog) = 1 THEN topo[1] ELSE RE({"C", "NNC"})} : \E cnt \in {RE(1..4)} :
             /\ \/ cur = "new" /\ Emit([D0 EXCEPT !.op = cur, !.dst = s, !.n = n, !.topo = t, !.k = RE({"universe", "universe", "empty"})])
                \/ cur = "from_cs" /\ n > 0 /\ Emit([D0 EXCEPT !.op = cur, !.dst = s, !.n = n, !.topo = t, !.var = RE(0..6),
                        !.cs = RandSeq(cnt, LAMBDA i : ConOf(IF ill THEN {"ge", "eq", "gt"} ELSE ConKinds(t), anchor[s], n))])
                \/ cur = "from_gs" /\ Emit([D0 EXCEPT !.op = cur, !.dst = s, !.n = n, !.topo = t, !.var = RE(0..6),
                        !.gs = (IF ill THEN <<>> ELSE <<[k |-> "point", v |-> Mat(<<1>> \o [i \in 1..n |-> anchor[s][i]])]>>) \o
                               RandSeq(cnt - 1, LAMBDA i : IF n = 0 THEN [k |-> "point", v |-> <<1>>] ELSE GenOf(IF ill THEN {"point", "cpoint", "ray", "line"} ELSE GenKinds(t), anchor[s], n))])
                \/ cur = "from_cgs" /\ n > 0 /\ Emit([D0 EXCEPT !.op = cur, !.dst = s, !.n = n, !.topo = t, !.mod = RE(1..3),
                        !.cs = RandSeq((cnt % 2) + 1, LAMBDA i : [k |-> IF ill \/ (Shape = "prod" /\ RE(1..3) <= 2) THEN "cg" ELSE "eq", v |-> Friendly(anchor[s], n, "eq")])])
             /\ IF ill /\ cur \in {"from_cgs", "from_cs", "from_gs"} THEN Keep ELSE SetDim(s, n, t)
     \/ /\ cur \in UnObs \cup UnMut
        /\ \E s \in {s0} : Emit([D0 EXCEPT !.op = cur, !.dst = s, !.n = dim[s], !.topo = topo[s]]) /\ Keep
     \/ /\ cur \in VarObs
        /\ \E s \in {s0} : Emit([D0 EXCEPT !.op = cur, !.dst = s, !.n = dim[s], !.topo = topo[s],
                                          !.var = IF ill \/ dim[s] = 0 THEN dim[s] ELSE RE(0..(dim[s]-1))]) /\ Keep
     \/ /\ cur \in ExprObs
        /\ \E s \in {s0} : \E n \in {IF ill THEN dim[s] + 1 ELSE dim[s]} :
             Emit([D0 EXCEPT !.op = cur, !.dst = s, !.n = dim[s], !.topo = topo[s], !.v = AnyCon(n)]) /\ Keep
     \/ /\ cur \in BinObs \cup BinMut
        /\ \E s \in {s0} : \E t \in {LET c == {t \in AliveS : dim[t] = dim[s] /\ (ill \/ cur \in {"contains", "is_disjoint_from", "time_elapse"} \/ topo[t] = topo[s])} IN IF Recipe /\ Alive(3 - s) THEN 3 - s ELSE IF ill \/ c = {} THEN RE(AliveS) ELSE RE(c)} :
             Emit([D0 EXCEPT !.op = cur, !.dst = s, !.src = t, !.n = dim[s], !.topo = topo[s], !.var = RE(0..1)]) /\ Keep
     \/ /\ cur \in WidOps
        /\ \E s \in {s0} : \E t \in {LET c == {t \in AliveS : dim[t] = dim[s] /\ (ill \/ topo[t] = topo[s])} IN IF Recipe /\ Alive(3 - s) THEN 3 - s ELSE IF ill \/ c = {} THEN RE(AliveS) ELSE RE(c)} :
           \E cnt \in {IF cur \in LimOps THEN RE(0..2) ELSE 0} :
             Emit([D0 EXCEPT !.op = cur, !.dst = s, !.src = t, !.n = dim[s], !.topo = topo[s], !.var = RE(0..3), !.mod = RE({0, 0, 1}), !.den = RE(0..2),
                              !.cs = RandSeq(cnt, LAMBDA i : ConFor(s, dim[s]))]) /\ Keep
     \/ /\ cur \in ConOps
        /\ \E s \in {s0} : \E n \in {IF ill /\ RE(1..2) = 1 THEN dim[s] + 1 ELSE dim[s]} :
           \E c \in {IF ill THEN RawCon(n) ELSE ConFor(s, n)} :
             Emit([D0 EXCEPT !.op = cur, !.dst = s, !.n = n, !.topo = topo[s], !.k = c.k, !.v = c.v, !.var = RE(0..1)]) /\ Keep
     \/ /\ cur \in ConsOps
        /\ \E s \in {s0} : \E n \in {IF ill /\ RE(1..3) = 1 THEN dim[s] + 1 ELSE dim[s]} : \E cnt \in {IF ill THEN RE(1..4) ELSE RE(0..3)} :
             Emit([D0 EXCEPT !.op = cur, !.dst = s, !.n = n, !.topo = topo[s], !.var = RE(0..1),
                              !.cs = RandSeq(cnt, LAMBDA i : IF ill THEN RawCon(n) ELSE ConFor(s, n))]) /\ Keep
     \/ /\ cur \in GenOps
        /\ \E s \in {s0} : \E n \in {IF ill /\ RE(1..2) = 1 THEN dim[s] + 1 ELSE dim[s]} :
           \E g \in {FixGen(IF ill THEN RawGen(n) ELSE GenFor(s, n), n)} :
             (n > 0 \/ g.k \in {"point", "cpoint"}) /\
             Emit([D0 EXCEPT !.op = cur, !.dst = s, !.n = n, !.topo = topo[s], !.k = g.k, !.v = g.v]) /\ Keep
     \/ /\ cur \in GensOps
        /\ \E s \in {s0} : \E n \in {IF ill /\ RE(1..2) = 1 THEN dim[s] + 1 ELSE dim[s]} : \E cnt \in {RE(0..2)} :
             Emit([D0 EXCEPT !.op = cur, !.dst = s, !.n = n, !.topo = topo[s], !.var = RE(0..1),
                              !.gs = (IF ill THEN <<>> ELSE <<PointFor(s, n)>>) \o
                                     RandSeq(cnt, LAMBDA i : IF n = 0 THEN [k |-> "point", v |-> <<1>>] ELSE GenFor(s, n))]) /\ Keep
     \/ /\ cur \in CgOps
        /\ \E s \in {s0} : \E n \in {IF ill THEN dim[s] + 1 ELSE dim[s]} :
             Emit([D0 EXCEPT !.op = cur, !.dst = s, !.n = n, !.topo = topo[s], !.mod = RE({0, 0, 1, 2, 3}),
                              !.v = IF RE(1..2) = 1 THEN Friendly(anchor[s], n, "eq") ELSE AnyCon(n)]) /\ Keep
     \/ /\ cur \in CgsOps
        /\ \E s \in {s0} : \E n \in {IF ill THEN dim[s] + 1 ELSE dim[s]} : \E cnt \in {RE(0..2)} :
             Emit([D0 EXCEPT !.op = cur, !.dst = s, !.n = n, !.topo = topo[s], !.mod = RE(1..3), !.var = RE(0..1),
                              !.cs = RandSeq(cnt, LAMBDA i : [k |-> RE({"eq", "cg"}), v |-> IF RE(1..2) = 1 THEN Friendly(anchor[s], n, "eq") ELSE AnyCon(n)])]) /\ Keep
     \/ /\ cur \in ImgOps \cup LhsOps
        /\ \E s \in {s0} : LET n == dim[s]
                                       relk == IF topo[s] = "NNC" \/ ill THEN {"le", "eq", "ge", "lt", "gt"} ELSE {"le", "eq", "ge"} IN
             Emit([D0 EXCEPT !.op = cur, !.dst = s, !.n = n, !.topo = topo[s], !.k = RE(relk),
                              !.var = IF (ill /\ RE(1..3) = 1) \/ n = 0 THEN n ELSE RE(0..(n-1)),
                              !.den = IF ill /\ RE(1..3) = 1 THEN 0 ELSE RE({-5, -4, -3, -2, -1, 1, 1, 2, 3, 4, 5}),
                              !.v = AnyCon(IF ill /\ RE(1..3) = 1 THEN n + 1 ELSE n), !.w = AnyCon(n)]) /\ Keep
     \/ /\ cur \in DimUp
        /\ \E s \in {s0} : \E t \in {IF Recipe /\ Alive(3 - s) THEN 3 - s ELSE RE(AliveS)} : \E add \in {IF cur = "concatenate" THEN dim[t] ELSE RE(0..2)} :
           \E ev \in {IF ill \/ dim[s] = 0 THEN dim[s] ELSE RE(0..(dim[s]-1))} :
             /\ dim[s] + add <= MaxDim /\ (cur # "concatenate" \/ topo[t] = topo[s])
             /\ Emit([D0 EXCEPT !.op = cur, !.dst = s, !.src = IF cur = "concatenate" THEN t ELSE 0, !.n = dim[s], !.topo = topo[s],
                                 !.var = IF cur = "expand" THEN ev ELSE add, !.den = add])
             /\ IF cur = "expand" /\ ev = dim[s] THEN Keep
                ELSE dim' = [dim EXCEPT ![s] = dim[s] + add] /\ UNCHANGED <<topo, anchor>>
     \/ /\ cur \in DimDown
        /\ \E s \in {s0} : LET n == dim[s] IN
             \/ cur = "remove_higher" /\ \E m \in {IF ill THEN n + 1 ELSE RE(0..n)} :
                  Emit([D0 EXCEPT !.op = cur, !.dst = s, !.n = n, !.topo = topo[s], !.var = m])
                  /\ IF ill THEN Keep ELSE dim' = [dim EXCEPT ![s] = m] /\ UNCHANGED <<topo, anchor>>
             \/ cur = "remove_dims" /\ \E R \in {IF n = 0 THEN {} ELSE RE(SUBSET (0..(n-1)))} :
                  Emit([D0 EXCEPT !.op = cur, !.dst = s, !.n = n, !.topo = topo[s], !.vs = SetToSeqL(IF ill THEN R \cup {n} ELSE R)])
                  /\ IF ill THEN Keep ELSE dim' = [dim EXCEPT ![s] = n - Cardinality(R)] /\ UNCHANGED <<topo, anchor>>
             \/ cur = "fold" /\ n > 0 /\ \E dst \in {RE(0..(n-1))} : \E R \in {RE(SUBSET ((0..(n-1)) \ {dst}))} :
                  Emit([D0 EXCEPT !.op = cur, !.dst = s, !.n = n, !.topo = topo[s], !.var = dst, !.vs = SetToSeqL(IF ill THEN R \cup {dst} ELSE R)])
                  /\ IF ill THEN Keep ELSE dim' = [dim EXCEPT ![s] = n - Cardinality(R)] /\ UNCHANGED <<topo, anchor>>
     \/ /\ cur \in DimOther
        /\ \E s \in {s0} : LET n == dim[s] IN
             \/ cur = "unconstrain" /\ Emit([D0 EXCEPT !.op = cur, !.dst = s, !.n = n, !.topo = topo[s], !.var = IF ill \/ n = 0 THEN n ELSE RE(0..(n-1))]) /\ Keep
             \/ cur = "unconstrain_set" /\ \E R \in {IF n = 0 THEN {} ELSE RE(SUBSET (0..(n-1)))} :
                  Emit([D0 EXCEPT !.op = cur, !.dst = s, !.n = n, !.topo = topo[s], !.vs = SetToSeqL(IF ill THEN R \cup {n} ELSE R)]) /\ Keep
             \/ cur = "map_dims" /\ n > 0 /\
                  \* a partial injective map: a random permutation of 0..n-1 with some entries undefined (-1), image compacted
                  \E perm \in {RE(Permutations(0..(n-1)))} : \E drop \in {RE(SUBSET (0..(n-1)))} :
                  LET kept == {i \in 0..(n-1) : i \notin drop}
                      rank(i) == Cardinality({j \in kept : perm[j] < perm[i]})
                      mp == [i \in 1..n |-> IF (i-1) \in kept THEN rank(i-1) ELSE -1] IN
                  Emit([D0 EXCEPT !.op = cur, !.dst = s, !.n = n, !.topo = topo[s], !.vs = Mat(mp)])
                  /\ dim' = [dim EXCEPT ![s] = Cardinality(kept)] /\ UNCHANGED <<topo, anchor>>
     \/ /\ cur \in PoolOps
        /\ \E s \in {IF Recipe THEN 2 ELSE RE(IF cur \in {"copy_from", "conv_topo", "rebuild", "dumpload"} THEN Slots ELSE AliveS)} : \E t \in {IF Recipe THEN 1 ELSE RE(AliveS)} :
             \/ cur = "copy_from" /\ Emit([D0 EXCEPT !.op = cur, !.dst = s, !.src = t, !.n = dim[t], !.topo = topo[t]])
                  /\ dim' = [dim EXCEPT ![s] = dim[t]] /\ topo' = [topo EXCEPT ![s] = topo[t]] /\ anchor' = [anchor EXCEPT ![s] = anchor[t]]
             \/ cur = "assign" /\ Alive(s) /\ topo[s] = topo[t] /\ Emit([D0 EXCEPT !.op = cur, !.dst = s, !.src = t, !.n = dim[t], !.topo = topo[t]])
                  /\ dim' = [dim EXCEPT ![s] = dim[t]] /\ UNCHANGED topo /\ anchor' = [anchor EXCEPT ![s] = anchor[t]]
             \/ cur = "swap" /\ Alive(s) /\ topo[s] = topo[t] /\ Emit([D0 EXCEPT !.op = cur, !.dst = s, !.src = t, !.n = dim[s], !.topo = topo[s], !.var = RE(0..1)])
                  /\ dim' = [dim EXCEPT ![s] = dim[t], ![t] = dim[s]] /\ UNCHANGED topo /\ anchor' = [anchor EXCEPT ![s] = anchor[t], ![t] = anchor[s]]
             \/ cur = "conv_topo" /\ s # t /\ Emit([D0 EXCEPT !.op = cur, !.dst = s, !.src = t, !.n = dim[t], !.topo = topo[t], !.var = RE(0..5), !.den = RE(1..3)])
                  /\ dim' = [dim EXCEPT ![s] = dim[t]] /\ topo' = [topo EXCEPT ![s] = IF topo[t] = "C" THEN "NNC" ELSE "C"] /\ anchor' = [anchor EXCEPT ![s] = anchor[t]]
             \/ cur = "rebuild" /\ Emit([D0 EXCEPT !.op = cur, !.dst = s, !.src = t, !.n = dim[t], !.topo = topo[t], !.var = RE(1..5)])
                  /\ dim' = [dim EXCEPT ![s] = dim[t]] /\ topo' = [topo EXCEPT ![s] = topo[t]] /\ anchor' = [anchor EXCEPT ![s] = anchor[t]]
             \/ cur = "dumpload" /\ Emit([D0 EXCEPT !.op = cur, !.dst = t, !.src = s, !.n = dim[t], !.topo = topo[t]])
                  /\ dim' = [dim EXCEPT ![s] = dim[t]] /\ topo' = [topo EXCEPT ![s] = topo[t]] /\ anchor' = [anchor EXCEPT ![s] = anchor[t]]
             \/ cur = "destroy" /\ RE(1..4) = 1 /\ Emit([D0 EXCEPT !.op = cur, !.dst = s]) /\ dim' = [dim EXCEPT ![s] = -1] /\ UNCHANGED <<topo, anchor>>
Next == Setup \/ ChooseOp \/ Args
Spec == Init /\ [][Next]_vars
EmitProg == ((IF Recipe THEN Len(prog) = RecipeLen ELSE Len(prog) \in {MaxLen \div 2, MaxLen}) /\ phase = "op") => PrintT(<<"PROG", ToJson(prog)>>)
=====================================================================
