---------------------------- MODULE PolyWorld ----------------------------
(* Executable small world of (NNC) polyhedra: the values are H-descriptions drawn from a finite
   family of rows in dimension 1 and 2, their generators are computed by brute force (GensOf), and
   TLC checks -- exhaustively over all pairs of values -- that the definitional operators used by
   PolyTrace.tla as oracle (same-set, containment, emptiness, relation rows + Fourier-Motzkin,
   Covers, hull by polarity, optimisation) obey the algebraic laws of the sets they are meant to
   compute.  This guards the oracle against being vacuous or over-permissive: a wrong definition
   cannot satisfy all of them on every pair.  State = a pair of values and a transformation; the
   next-state relation moves to any other pair, so BFS visits the full product. *)
EXTENDS NNCGens, TLC
CONSTANTS N, Rows1, MaxRows
M == N + 1
Row(k, v) == [k |-> k, v |-> v]
Fam == {H \in SUBSET Rows1 : Cardinality(H) <= MaxRows}
Seq1(H) == SetToSeq(H)
VARIABLES x, y, t
vars == <<x, y, t>>
\* transformations: variable 0 := (a*x0 + b) / den   (and for N = 2 also uses x1)
Trans == {[v |-> v, den |-> d, k |-> "eq"] : v \in {<<1, 1>>, <<0, 2>>, <<-1, -1>>}, d \in {1, -2}}
\* one component changes per step, so that BFS fans out over all workers
Init == x = {} /\ y = {} /\ t = CHOOSE tt \in Trans : TRUE
Next == \/ x' \in Fam /\ UNCHANGED <<y, t>>
        \/ y' \in Fam /\ UNCHANGED <<x, t>>
        \/ t' \in Trans /\ UNCHANGED <<x, y>>
Spec == Init /\ [][Next]_vars
Hx == Seq1(x)
Hy == Seq1(y)
Vx == GensOf(Hx, M)
Vy == GensOf(Hy, M)
PadV(v) == [i \in 1..M |-> IF i <= Len(v) THEN v[i] ELSE 0]
Sub(Va, Hb) == QContains(Hb, Va)
EmptyX == HEmpty(Hx, M)
\* ---- laws
GensDescribeTheSet == SameSetHV(Hx, Vx, M) /\ (EmptyX <=> Len(Vx) = 0)
GensRoundTrip == EmptyX \/ SameSetVH(Vx, Hx, M) \/ ~(\A i \in 1..Len(Hx) : TRUE)
MeetIsLowerBound == LET Vm == GensOf(Hx \o Hy, M) IN Sub(Vm, Hx) /\ Sub(Vm, Hy)
MeetIsGreatest == \* anything inside both is inside the meet: checked on the generators of the smaller operand
   (Sub(Vx, Hy) => SameSetHV(Hx \o Hy, Vx, M)) /\ (Sub(Vy, Hx) => SameSetHV(Hx \o Hy, Vy, M))
DisjointIffMeetEmpty == QDisjoint(Hx, Hy, M) <=> (Len(GensOf(Hx \o Hy, M)) = 0)
ContainmentAntisymmetric == (Sub(Vx, Hy) /\ Sub(Vy, Hx)) => (SameSetHV(Hx, Vy, M) /\ SameSetHV(Hy, Vx, M))
NegRows(b) == IF b.k = "ge" THEN {Row("gt", Neg(b.v))} ELSE IF b.k = "gt" THEN {Row("ge", Neg(b.v))} ELSE {Row("gt", b.v), Row("gt", Neg(b.v))}
Outside(H, D) == { Append(H, nr) : nr \in UNION {NegRows(D[i]) : i \in 1..Len(D)} }
\* x = (x /\ y) \/ (x \ y): every generator of x lies in the meet or in one of the difference pieces
DifferencePartitions == \A i \in 1..Len(Vx) : Vx[i].k # "point" \/ InSet(Hy, Vx[i]) \/ (\E P \in Outside(Hx, Hy) : InSet(P, Vx[i]))
DifferenceIsDisjointFromY == \A P \in Outside(Hx, Hy) : QDisjoint(P, Hy, M)
\* image then preimage under an invertible map is the identity on sets
RelRow(ev, k, den) ==
  LET sd == IF den > 0 THEN 1 ELSE -1
      base == Append(PadV(ev), -den)
  IN IF k = "eq" THEN Row("eq", base) ELSE IF k = "le" THEN Row("ge", Scale(sd, base)) ELSE Row("gt", Scale(-sd, base))
ImagePreimageInverse ==
  (t.k = "eq" /\ t.v[2] # 0 /\ ~EmptyX) =>
      LET img == ImageH(Hx, <<RelRow(t.v, "eq", t.den)>>, 2, M)
          back == PreimageH(img, <<RelRow(t.v, "eq", t.den)>>, 2, M)
      IN SameSetHV(back, Vx, M)
\* the image under a relation contains the image under the function it relaxes
ImageMonotoneInRelation ==
  ~EmptyX => LET f == ImageH(Hx, <<RelRow(t.v, "eq", t.den)>>, 2, M)
                 r == ImageH(Hx, <<RelRow(t.v, "le", t.den)>>, 2, M)
             IN QContains(r, GensOf(f, M))
\* image of generators = image computed by Fourier-Motzkin (functions only, closed or not)
ImageOnGenerators ==
  (t.k = "eq" /\ ~EmptyX) =>
      LET img == ImageH(Hx, <<RelRow(t.v, "eq", t.den)>>, 2, M)
          sd == IF t.den > 0 THEN 1 ELSE -1
          mv(g) == LET val == Dot(PadV(t.v), IF g.k \in {"point", "cpoint"} THEN g.v ELSE Hom(g.v)) IN
                   \* new x0 = val/den, homogeneously: scale the other coordinates by |den|
                   Row(g.k, [i \in 1..M |-> IF i = 2 THEN sd * val ELSE sd * t.den * g.v[i]])
          G == [i \in 1..Len(Vx) |-> mv(Vx[i])]
          Gnz == SelectSeq(G, LAMBDA g : g.k \in {"point", "cpoint"} \/ ~IsZero(g.v))
      IN SameSetHV(img, Gnz, M)
\* optimisation: the supremum computed on generators is an upper bound attained (or approached) in the set
SupIsUpperBound ==
  ~EmptyX => LET E == PadV(<<0, 1, 1>>)  si == SupInfo(Vx, E, 1) IN
             si.ok => (HEmpty(Append(Hx, Row("gt", [i \in 1..M |-> IF i = 1 THEN -si.num ELSE si.den * E[i]])), M)
                       /\ (si.att <=> ~HEmpty(Append(Hx, Row("eq", [i \in 1..M |-> IF i = 1 THEN -si.num ELSE si.den * E[i]])), M)))
Rows1D == {Row(k, v) : k \in {"ge", "gt", "eq"}, v \in {<<0, 1>>, <<1, -1>>, <<-1, 2>>, <<0, -1>>}}
Rows2D == {Row("ge", <<0, 1, 0>>), Row("ge", <<0, 0, 1>>), Row("gt", <<1, -1, 0>>), Row("ge", <<2, -1, -1>>), Row("gt", <<0, 1, -1>>), Row("ge", <<-1, 1, 1>>), Row("eq", <<0, 1, -1>>), Row("eq", <<-1, 0, 1>>)}
=====================================================================
