CONSTANTS N = 1
 MaxRows = 2
 Rows1 <- Rows1D
SPECIFICATION Spec
INVARIANT GensDescribeTheSet MeetIsLowerBound MeetIsGreatest DisjointIffMeetEmpty ContainmentAntisymmetric DifferencePartitions DifferenceIsDisjointFromY ImagePreimageInverse ImageMonotoneInRelation ImageOnGenerators SupIsUpperBound
CHECK_DEADLOCK FALSE
