CONSTANTS N = 2
 MaxRows = 2
 Rows1 <- Rows2D
SPECIFICATION Spec
INVARIANT GensDescribeTheSet MeetIsLowerBound MeetIsGreatest DisjointIffMeetEmpty ContainmentAntisymmetric DifferencePartitions DifferenceIsDisjointFromY ImagePreimageInverse ImageMonotoneInRelation ImageOnGenerators SupIsUpperBound
CHECK_DEADLOCK FALSE
