INIT PInit
NEXT PsetNext
CHECK_DEADLOCK FALSE
