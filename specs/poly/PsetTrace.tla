---------------------------- MODULE PsetTrace ----------------------------
(* Trace specification of the pool of pointset powersets of (closed or NNC) polyhedra (C09).
   State: val[s] = the sequence of disjuncts of slot s, each a verified (H, V) pair; the DENOTATION of a
   powerset is the union of its disjuncts and every judgement below is about unions:
     Covers(As, Bs)  (PolyTrace)  decides  union(As) subseteq union(Bs)  exactly, by splitting each A against the
     constraints of the B's into pieces and testing the pieces for emptiness with the double-description oracle.
   Reductions (omega, pairwise, simplification in a context) must not change the union (resp. the meet with the
   context) and must not increase the number of disjuncts; collapse yields the base-level upper bound; meet, join,
   added disjuncts, added constraints, affine transformers and dimension changes act on the union as the base
   operation (the exact-result operators of ShapeTrace / PolyTrace) acts on each disjunct; difference, geometric
   covering and geometric equality are exact; entailment-based containment is the definitional "every disjunct of
   y is contained in some disjunct of x" and implies geometric covering; copies are independent (frame). *)
EXTENDS ShapeTrace
PDead == [alive |-> FALSE, n |-> 0, topo |-> "C", D |-> <<>>]
PProj(p) == [alive |-> p.alive, n |-> p.n, topo |-> p.topo, D |-> [i \in 1..Len(p.D) |-> [H |-> p.D[i].H, V |-> p.D[i].V]]]
PInit == l = 1 /\ val = <<PDead, PDead, PDead>> /\ und = <<>> /\ bad = <<>>
UH(p) == [i \in 1..Len(p.D) |-> p.D[i].H]
AllV(p) == LET RECURSIVE F(_)
               F(i) == IF i = 0 THEN <<>> ELSE F(i - 1) \o p.D[i].V
           IN F(Len(p.D))
Rows(As) == LET RECURSIVE F(_)
                F(i) == IF i = 0 THEN 0 ELSE F(i - 1) + Len(As[i])
            IN F(Len(As))
\* cost guard: the piece-splitting of Covers multiplies; beyond these sizes the event is undecided
Cheap(As, Bs) == Len(As) <= 4 /\ Len(Bs) <= 4 /\ Rows(As) <= 12 /\ Rows(Bs) <= 12
PSmall(p) == ~p.alive \/ (Len(p.D) <= 4 /\ \A i \in 1..Len(p.D) : Small(p.D[i].H, p.n + 1) /\ Small(p.D[i].V, p.n + 1))
\* (a disjunct may be an empty polyhedron whose emptiness has not been detected yet: it contributes nothing to the union)
PWF(p) == ~p.alive \/ \A i \in 1..Len(p.D) : SameSetHV(p.D[i].H, p.D[i].V, p.n + 1)
SameU(As, Bs, m) == Covers(As, Bs, m) /\ Covers(Bs, As, m)
PSame(a, b) == (a.alive = b.alive) /\ (~a.alive \/ (a.n = b.n /\ (PProj(a) = PProj(b) \/ (Cheap(UH(a), UH(b)) /\ SameU(UH(a), UH(b), a.n + 1)))))
PSameOrBig(a, b) == PSame(a, b) \/ (a.alive /\ b.alive /\ a.n = b.n /\ ~Cheap(UH(a), UH(b)))
SubD(x, y) == QContains(y.H, x.V)                        \* disjunct x contained in disjunct y
\* x "contains" y, definition: each (non-empty) disjunct of y is contained in a disjunct of x
Entails(x, y) == \A j \in 1..Len(y.D) : QEmpty(y.D[j].V) \/ \E i \in 1..Len(x.D) : SubD(y.D[j], x.D[i])
\* the same without the exemption of empty disjuncts: an undetected-empty disjunct of y with no disjunct of x to hold it makes the library
\* answer false (it compares disjunct by disjunct without reducing); where the two readings differ the answer is not asserted
EntailsLit(x, y) == \A j \in 1..Len(y.D) : \E i \in 1..Len(x.D) : SubD(y.D[j], x.D[i])
AmbEmpty(x, y) == Entails(x, y) # EntailsLit(x, y)
\* each disjunct of y is STRICTLY contained in a disjunct of x
StrictlyEntails(x, y) == \A j \in 1..Len(y.D) : \E i \in 1..Len(x.D) : SubD(y.D[j], x.D[i]) /\ ~SubD(x.D[i], y.D[j])
UEmpty(p) == \A i \in 1..Len(p.D) : QEmpty(p.D[i].V)
BoundedDir(p, E, sgn) == \A i \in 1..Len(p.D) : QEmpty(p.D[i].V) \/ SupInfo(p.D[i].V, E, sgn).ok
NoRedundant(p) == \A i \in 1..Len(p.D), j \in 1..Len(p.D) : i # j => ~SubD(p.D[i], p.D[j])
MeetList(As, Bs) == [k \in 1..(Len(As) * Len(Bs)) |-> As[((k-1) \div Len(Bs)) + 1] \o Bs[((k-1) % Len(Bs)) + 1]]
RECURSIVE DiffPieces(_, _, _, _)
DiffPieces(P, Bs, j, m) == IF j > Len(Bs) THEN P ELSE DiffPieces(NonEmptyH(UNION {Outside(H, Bs[j]) : H \in P}, m), Bs, j + 1, m)
DiffList(As, Bs, m) == SetToSeq(UNION {DiffPieces(NonEmptyH({As[i]}, m), Bs, 1, m) : i \in 1..Len(As)})
NonEmptySeq(As, m) == SelectSeq(As, LAMBDA H : ~HEmpty(H, m))
\* H-description of an exact per-disjunct result (closed polyhedra: generator-defined results are converted by polarity)
AsH(E, topo) == IF E.t = "H" THEN ForTopo(topo, E.R) ELSE IF ~HasPt(E.R) THEN <<Row("eq", [t \in 1..(E.n + 1) |-> IF t = 1 THEN 1 ELSE 0])>> ELSE HOfClosed(E.R, E.n + 1)
PerDisj(e, d, m) == [i \in 1..Len(d.D) |-> ExactOf(e, [n |-> d.n, topo |-> d.topo, H |-> d.D[i].H, V |-> d.D[i].V], [n |-> d.n, topo |-> d.topo, H |-> d.D[i].H, V |-> d.D[i].V], m)]
UnaryOps == {"add_constraint", "refine_with_constraint", "add_constraints", "refine_with_constraints", "add_congruence", "refine_with_congruence",
             "affine_image", "affine_preimage", "gen_affine_image", "gen_affine_preimage", "bounded_affine_image", "bounded_affine_preimage",
             "gen_affine_image_lhs", "gen_affine_preimage_lhs", "unconstrain", "unconstrain_set", "add_dims_embed", "add_dims_project",
             "remove_dims", "remove_higher", "map_dims", "expand", "fold", "topological_closure"}
PObservers == {"size", "space_dimension", "affine_dimension", "is_empty", "is_universe", "is_bounded", "is_discrete", "is_topologically_closed",
               "contains_integer_point", "constrains", "OK", "hash_code", "contains", "strictly_contains", "is_disjoint_from", "geometrically_covers",
               "geometrically_equals", "equals", "not_equals", "relation_with_constraint", "relation_with_generator", "bounds_from_above",
               "bounds_from_below", "maximize", "minimize", "maximize_pt", "minimize_pt"}
PPre(e, d, s) ==
  LET op == e.op  n == d.n  c == d.topo = "C" IN
  IF op \in {"new", "from_gs"} THEN "any"
  ELSE IF op = "from_cs" THEN (IF c /\ HasStrict(e.cs) THEN "any" ELSE "ok")
  ELSE IF op \in {"add_disjunct", "add_constraints", "add_constraint"} THEN
       LET cs == IF op = "add_constraint" THEN <<Row(e.k, e.v)>> ELSE e.cs IN
       (IF e.argn # n /\ (op = "add_disjunct" \/ e.argn > n) THEN "inv" ELSE IF c /\ HasStrict(cs) THEN "any" ELSE "ok")
  ELSE IF op = "add_disjunct_gs" THEN "any"
  ELSE IF op \in {"refine_with_constraint", "refine_with_constraints", "relation_with_constraint", "relation_with_generator"} THEN (IF e.argn > n THEN "inv" ELSE "ok")
  ELSE IF op \in {"add_congruence", "refine_with_congruence"} THEN "any"
  ELSE IF op \in {"contains", "strictly_contains", "is_disjoint_from", "geometrically_covers", "geometrically_equals", "intersection", "poly_hull",
                  "poly_difference", "time_elapse", "simplify_using_context", "hull_if_exact", "BHZ03_widening", "BGP99_extrapolation"} THEN (IF s.n # n THEN "inv" ELSE "ok")
  ELSE IF op \in {"equals", "not_equals"} THEN "ok"
  ELSE IF op \in {"affine_image", "affine_preimage", "gen_affine_image", "gen_affine_preimage", "bounded_affine_image", "bounded_affine_preimage"} THEN
       (IF e.den = 0 \/ e.var >= n \/ ExprDim(e.v) > n THEN "inv"
        ELSE IF op \in {"bounded_affine_image", "bounded_affine_preimage"} /\ ExprDim(e.w) > n THEN "inv"
        ELSE IF op \in {"gen_affine_image", "gen_affine_preimage"} /\ c /\ StrictK(e.k) THEN "any" ELSE "ok")
  ELSE IF op \in {"gen_affine_image_lhs", "gen_affine_preimage_lhs"} THEN (IF ExprDim(e.v) > n \/ ExprDim(e.w) > n THEN "inv" ELSE IF c /\ StrictK(e.k) THEN "any" ELSE "ok")
  ELSE IF op \in {"bounds_from_above", "bounds_from_below", "maximize", "minimize", "maximize_pt", "minimize_pt"} THEN (IF ExprDim(e.v) > n THEN "inv" ELSE "ok")
  ELSE IF op \in {"constrains", "unconstrain"} THEN (IF e.var >= n THEN "inv" ELSE "ok")
  ELSE IF op \in {"unconstrain_set", "remove_dims"} THEN (IF \E i \in 1..Len(e.vs) : e.vs[i] >= n THEN "inv" ELSE "ok")
  ELSE IF op = "remove_higher" THEN (IF e.var > n THEN "inv" ELSE "ok")
  ELSE IF op = "expand" THEN (IF e.var >= n THEN "inv" ELSE "ok")
  ELSE IF op = "fold" THEN (IF e.var >= n \/ (\E i \in 1..Len(e.vs) : e.vs[i] >= n \/ e.vs[i] = e.var) THEN "inv" ELSE "ok")
  ELSE IF op = "map_dims" THEN (IF Len(e.vs) # n THEN "und" ELSE "ok")
  ELSE "ok"
\* optimum of a linear expression over a union: the best of the disjuncts
OptU(e, d0, m, sgn) ==
  LET d == [D |-> SelectSeq(d0.D, LAMBDA x : ~QEmpty(x.V))]
      E == Pad(e.v, m)
      infos == [i \in 1..Len(d.D) |-> SupInfo(d.D[i].V, E, sgn)]
      r == e.rr
      better(a, b) == sgn * (a.num * b.den - b.num * a.den) > 0
      best == CHOOSE i \in 1..Len(d.D) : \A j \in 1..Len(d.D) : ~better(infos[j], infos[i])
  IN IF Len(d.D) = 0 THEN V1(~r.ok, "C09:optimum-on-empty")
     ELSE IF \E i \in 1..Len(d.D) : ~infos[i].ok THEN V1(~r.ok, "C09:optimum-unbounded-not-reported")
     ELSE IF ~r.ok THEN "C09:optimum-not-found"
     ELSE IF r.den <= 0 \/ r.num * infos[best].den # infos[best].num * r.den THEN "C09:optimum-value"
     ELSE V1(r.ext = (\E i \in 1..Len(d.D) : infos[i].att /\ infos[i].num * infos[best].den = infos[best].num * infos[i].den), "C09:optimum-attained-flag")
PObs(e, d, s, m) ==
  LET op == e.op  AA == UH(d)  BB == UH(s) IN
  IF op = "size" THEN V1(e.ri = Len(e.post[e.dst].D), "C09:size")      \* the number of stored disjuncts, redundant ones included (documented)
  ELSE IF op = "space_dimension" THEN V1(e.ri = d.n, "C09:space_dimension")
  ELSE IF op = "affine_dimension" THEN V1(e.ri = AffDim(AllV(d), m), "C09:affine_dimension")
  ELSE IF op = "is_empty" THEN V1(e.rb = (\A i \in 1..Len(d.D) : QEmpty(d.D[i].V)), "C09:is_empty")
  \* "the top element of the powerset lattice": some disjunct is the universe (a union that merely covers the space is not the top element)
  ELSE IF op = "is_universe" THEN V1(e.rb = (\E i \in 1..Len(d.D) : ~QEmpty(d.D[i].V) /\ Len(d.D[i].H) = 0), "C09:is_universe")
  ELSE IF op = "is_bounded" THEN V1(e.rb = (\A i \in 1..Len(d.D) : QBounded(d.D[i].V)), "C09:is_bounded")
  ELSE IF op = "OK" THEN V1(e.rb, "C09:OK()")
  ELSE IF op = "contains" THEN (IF AmbEmpty(d, s) THEN "und" ELSE IF e.rb # Entails(d, s) THEN "C09:contains-is-not-the-entailment-of-disjuncts"
                                ELSE IF ~e.rb \/ ~Cheap(BB, AA) THEN "ok" ELSE V1(Covers(BB, AA, m), "C09:containment-without-geometric-covering"))
  ELSE IF op = "strictly_contains" THEN (IF UEmpty(s) \/ UEmpty(d) THEN "und" ELSE V1(e.rb = StrictlyEntails(d, s), "C09:strictly_contains"))
  ELSE IF op \in {"equals", "not_equals"} /\ d.n = s.n /\ (AmbEmpty(d, s) \/ AmbEmpty(s, d)) THEN "und"
  ELSE IF op = "equals" THEN V1(e.rb = (d.n = s.n /\ Entails(d, s) /\ Entails(s, d)), "C09:equals")
  ELSE IF op = "not_equals" THEN V1(e.rb = ~(d.n = s.n /\ Entails(d, s) /\ Entails(s, d)), "C09:not_equals")
  ELSE IF op = "is_disjoint_from" THEN V1(e.rb = (\A i \in 1..Len(AA), j \in 1..Len(BB) : HEmpty(AA[i] \o BB[j], m)), "C09:is_disjoint_from")
  ELSE IF op = "geometrically_covers" THEN (IF ~Cheap(BB, AA) THEN "und" ELSE V1(e.rb = Covers(BB, AA, m), "C09:geometrically_covers"))
  ELSE IF op = "geometrically_equals" THEN (IF ~Cheap(BB, AA) THEN "und" ELSE V1(e.rb = SameU(AA, BB, m), "C09:geometrically_equals"))
  \* (how an undetected-empty disjunct enters the combination of the per-disjunct relations is not specified)
  ELSE IF op = "relation_with_constraint" /\ (\E i \in 1..Len(d.D) : QEmpty(d.D[i].V)) THEN "und"
  ELSE IF op = "relation_with_constraint" THEN
       LET c == Row(e.k, Pad(e.v, m))  xs == [i \in 1..Len(d.D) |-> RelCon(d.D[i].H, d.D[i].V, c, m)]
           inc == \A i \in 1..Len(xs) : xs[i].inc  dis == \A i \in 1..Len(xs) : xs[i].dis  sat == \A i \in 1..Len(xs) : xs[i].sat IN
       V1(e.rc.inc = inc /\ e.rc.dis = dis /\ e.rc.sat = sat /\ e.rc.si = (~inc /\ ~dis), "C09:relation_with_constraint")
  ELSE IF op = "relation_with_generator" THEN V1(e.rb = (\E i \in 1..Len(d.D) : Subsumes(d.D[i].H, d.D[i].V, Row(e.k, Pad(e.v, m)))), "C09:relation_with_generator")
  ELSE IF op = "bounds_from_above" THEN V1(e.rb = BoundedDir(d, Pad(e.v, m), 1), "C09:bounds_from_above")
  ELSE IF op = "bounds_from_below" THEN V1(e.rb = BoundedDir(d, Pad(e.v, m), -1), "C09:bounds_from_below")
  ELSE IF op \in {"maximize", "maximize_pt"} THEN OptU(e, d, m, 1)
  ELSE IF op \in {"minimize", "minimize_pt"} THEN OptU(e, d, m, -1)
  ELSE "und"
\* ---- BHZ03 powerset certificate built on the H79 certificate (affine dimension, number of constraints of the minimal form)
HCert(H, V, m) == [ad |-> AffDim(V, m), nc |-> Len(H)]
Worse(a, b) == a.ad < b.ad \/ (a.ad = b.ad /\ a.nc > b.nc)               \* a is further from stabilisation than b
SameC(a, b) == a.ad = b.ad /\ a.nc = b.nc
NE(p) == SelectSeq(p.D, LAMBDA x : ~QEmpty(x.V))
NonTriv(H) == SelectSeq(H, LAMBDA h : \E i \in 2..Len(h.v) : h.v[i] # 0)        \* (the polar construction may return the positivity row)
\* certificate of the hull: its affine dimension, and (number of independent equalities) + (number of facets); the polar construction
\* returns a spanning set of the equalities, so they are counted through the dimension
\* (for a set that is not full-dimensional the polar construction can return several representatives of one facet, differing by multiples
\*  of the equalities: facets are therefore counted as distinct sets of saturating generators)
HullCert(p, m) == LET V == AllV(p)  ad == AffDim(V, m)
                      rows == SelectSeq(NonTriv(HOfClosed(V, m)), LAMBDA h : h.k # "eq")
                      hv(g) == IF g.k \in {"point", "cpoint"} THEN g.v ELSE [g.v EXCEPT ![1] = 0]
                      sat(h) == {i \in 1..Len(V) : Dot(h.v, hv(V[i])) = 0}
                      pts == {i \in 1..Len(V) : V[i].k \in {"point", "cpoint"}}
                      \* (a row saturated by rays only is the positivity row modulo the equalities: the face at infinity, not a facet)
                      facets == {S \in ({sat(rows[i]) : i \in 1..Len(rows)} \ {1..Len(V)}) : S \cap pts # {}}
                  IN [ad |-> ad, nc |-> ((m - 1) - ad) + Cardinality(facets)]
Certs(p, m) == LET Dn == NE(p) IN [i \in 1..Len(Dn) |-> HCert(Dn[i].H, Dn[i].V, m)]
\* multiset order: sort both by badness (worst first) and compare lexicographically; a proper prefix is smaller
SortWorst(cs) == SortSeq(cs, LAMBDA a, b : Worse(a, b))
RECURSIVE LexMs(_, _, _)
LexMs(a, b, i) == IF i > Len(a) THEN i <= Len(b)
                  ELSE IF i > Len(b) THEN FALSE
                  ELSE IF SameC(a[i], b[i]) THEN LexMs(a, b, i + 1) ELSE Worse(b[i], a[i])
PCertLess(new, old, m) ==
  LET hn == HullCert(new, m)  ho == HullCert(old, m) IN
  IF ~SameC(hn, ho) THEN Worse(ho, hn)
  ELSE LexMs(SortWorst(Certs(new, m)), SortWorst(Certs(old, m)), 1)
\* U(r) must be the union of the H-descriptions in L (empty pieces allowed in L)
IsUnion(r, L, m) == LET LL == NonEmptySeq(L, m) IN IF ~Cheap(UH(r), LL) THEN "und" ELSE IF SameU(UH(r), LL, m) THEN "ok" ELSE "bad"
W(v, why) == IF v = "bad" THEN why ELSE v
PMut(e, d, s, r, m) ==
  LET op == e.op  AA == UH(d)  BB == UH(s)  c == d.topo = "C" IN
  IF op = "destroy" THEN V1(~r.alive, "C09:destroy")
  ELSE IF op \in {"copy_from", "assign", "rebuild"} THEN V1(PSameOrBig(r, s), "C09:" \o op \o "-changed-the-union")
  ELSE IF op = "swap" THEN V1(PSameOrBig(r, s) /\ PSameOrBig(PProj(e.post[e.src]), d), "C09:swap")
  ELSE IF op = "dumpload" THEN \* ri: 1 = load succeeded, 2 = second dump identical (textual identity is C15's concern, not asserted here), 4 = OK()
       V1(e.ri \in {5, 7} /\ PSameOrBig(PProj(e.post[IF e.src > 0 THEN e.src ELSE e.dst]), d) /\ PSameOrBig(r, d), "C09:dump-load")
  ELSE IF op = "new" THEN V1(r.n = e.argn /\ (IF e.k = "empty" THEN Len(r.D) = 0 ELSE Len(r.D) = 1 /\ QUniverse(r.D[1].V, e.argn + 1)), "C09:constructor")
  ELSE IF op = "from_cs" THEN (IF r.n # e.argn THEN "C09:from-constraints" ELSE W(IsUnion(r, <<ForTopo(r.topo, PadRows(e.cs, e.argn + 1))>>, e.argn + 1), "C09:from-constraints"))
  ELSE IF op = "from_gs" THEN (IF Len(e.gs) = 0 THEN V1(Len(r.D) = 0, "C09:from-generators")
                               ELSE IF r.topo # "C" THEN "und" ELSE W(IsUnion(r, <<HOfClosed(PadRows(e.gs, e.argn + 1), e.argn + 1)>>, e.argn + 1), "C09:from-generators"))
  ELSE IF op = "omega_reduce" THEN (IF ~NoRedundant(r) \/ Len(r.D) > Len(d.D) THEN "C09:omega_reduce-leaves-a-redundant-disjunct-or-grows" ELSE W(IsUnion(r, AA, m), "C09:omega_reduce-changes-the-union"))
  ELSE IF op = "pairwise_reduce" THEN (IF Len(r.D) > Len(d.D) THEN "C09:pairwise_reduce-increases-the-number-of-disjuncts" ELSE W(IsUnion(r, AA, m), "C09:pairwise_reduce-changes-the-union"))
  ELSE IF op = "collapse" THEN (IF Len(d.D) = 0 THEN V1(Len(r.D) = 0, "C09:collapse")
                                ELSE V1(Len(r.D) = 1 /\ SameSetVH(AllV(d), r.D[1].H, m), "C09:collapse-is-not-the-upper-bound-of-the-disjuncts"))
  ELSE IF op = "add_disjunct" THEN W(IsUnion(r, Append(AA, ForTopo(d.topo, PadRows(e.cs, m))), m), "C09:add_disjunct")
  ELSE IF op = "add_disjunct_gs" THEN (IF Len(e.gs) = 0 THEN W(IsUnion(r, AA, m), "C09:add_disjunct") ELSE IF ~c THEN "und"
                                       ELSE W(IsUnion(r, Append(AA, HOfClosed(PadRows(e.gs, m), m)), m), "C09:add_disjunct"))
  ELSE IF op = "intersection" THEN (IF Len(AA) = 0 \/ Len(BB) = 0 THEN V1(Len(r.D) = 0, "C09:intersection") ELSE W(IsUnion(r, MeetList(AA, BB), m), "C09:intersection"))
  ELSE IF op = "poly_hull" THEN W(IsUnion(r, AA \o BB, m), "C09:upper_bound")
  ELSE IF op = "hull_if_exact" THEN (IF ~e.rb THEN "C09:upper_bound_assign_if_exact-answered-false" ELSE W(IsUnion(r, AA \o BB, m), "C09:upper_bound_if_exact"))
  ELSE IF op = "poly_difference" THEN
       (IF ~Cheap(AA, BB) THEN "und"
        ELSE LET P == DiffList(AA, BB, m) IN W(IsUnion(r, IF c THEN [i \in 1..Len(P) |-> Closed(P[i])] ELSE P, m), "C09:difference"))
  ELSE IF op = "concatenate" THEN
       LET sh(H) == [i \in 1..Len(H) |-> Row(H[i].k, [j \in 1..(m + s.n) |-> IF j = 1 THEN H[i].v[1] ELSE IF j <= m THEN 0 ELSE H[i].v[j - m + 1]])]
           L == [k \in 1..(Len(AA) * Len(BB)) |-> ExtBy(AA[((k-1) \div Len(BB)) + 1], s.n) \o sh(BB[((k-1) % Len(BB)) + 1])] IN
       IF r.n # d.n + s.n THEN "C09:concatenate" ELSE IF Len(AA) = 0 \/ Len(BB) = 0 THEN V1(Len(r.D) = 0, "C09:concatenate") ELSE W(IsUnion(r, L, m + s.n), "C09:concatenate")
  ELSE IF op = "time_elapse" THEN
       \* (pairs with an (undetected-)empty disjunct contribute nothing)
       (LET dN == NE(d)  sN == NE(s) IN
        IF Len(dN) = 0 \/ Len(sN) = 0 THEN V1(UEmpty(r), "C09:time_elapse") ELSE IF ~c THEN "und"
        ELSE LET L == [k \in 1..(Len(dN) * Len(sN)) |-> HOfClosed(TimeElapseV(dN[((k-1) \div Len(sN)) + 1], sN[((k-1) % Len(sN)) + 1]), m)] IN W(IsUnion(r, L, m), "C09:time_elapse"))
  ELSE IF op = "simplify_using_context" THEN
       (IF Len(r.D) > Len(d.D) THEN "C09:simplify_using_context-increases-the-number-of-disjuncts"
        ELSE IF Len(BB) = 0 THEN "ok"
        ELSE LET want == IF Len(AA) = 0 THEN <<>> ELSE NonEmptySeq(MeetList(AA, BB), m)
                 got == IF Len(r.D) = 0 THEN <<>> ELSE NonEmptySeq(MeetList(UH(r), BB), m) IN
             IF ~Cheap(want, got) THEN "und" ELSE V1(SameU(want, got, m), "C09:simplify_using_context-changes-the-meet-with-the-context"))
  ELSE IF op \in {"BHZ03_widening", "BGP99_extrapolation"} THEN
       (IF ~Cheap(AA, UH(r)) \/ ~Cheap(BB, UH(r)) THEN "und"
        ELSE IF ~(r.n = d.n /\ Covers(AA, UH(r), m) /\ Covers(BB, UH(r), m)) THEN "C09:powerset-widening-not-an-upper-bound"
        ELSE IF op # "BHZ03_widening" \/ ~c \/ e.var % 2 = 1 \/ UEmpty(s) \/ UEmpty(r) THEN "ok"
        \* C08: the certificate-based lifting (H79 certificate): a non-stationary step must decrease the pair
        \* (certificate of the hull, multiset of the certificates of the disjuncts)
        ELSE IF SameU(UH(r), BB, m) THEN "ok"
        \* (the certificate is defined on omega-reduced powersets: an argument or a result logged with a redundant disjunct is not judged)
        ELSE IF ~NoRedundant([D |-> NE(s)]) \/ ~NoRedundant([D |-> NE(r)]) THEN "und"
        ELSE V1(PCertLess(r, s, m), "C08:BHZ03-certificate-does-not-decrease-on-a-non-stationary-step"))
  ELSE IF op \in UnaryOps THEN
       (IF HasProperCg(e) THEN "und"
        ELSE IF Len(d.D) = 0 THEN V1(Len(r.D) = 0, "C09:" \o op \o "-on-the-empty-powerset")
        ELSE LET Es == PerDisj(e, d, m) IN
             IF \E i \in 1..Len(Es) : Es[i].t = "none" THEN "und"
             ELSE IF \E i \in 1..Len(Es) : Es[i].t = "V" /\ ~c THEN "und"
             ELSE IF r.n # Es[1].n THEN "C09:" \o op \o "-dimension"
             ELSE W(IsUnion(r, [i \in 1..Len(Es) |-> AsH(Es[i], d.topo)], Es[1].n + 1), "C09:" \o op \o "-is-not-the-base-operation-on-each-disjunct"))
  ELSE "und"
PsetCheck(e) ==
  LET d == val[e.dst]  s == IF e.src > 0 THEN val[e.src] ELSE d  r == PProj(e.post[e.dst])  m == d.n + 1
      touched == IF e.op = "swap" THEN {e.dst, e.src} ELSE IF e.op = "dumpload" THEN {IF e.src > 0 THEN e.src ELSE e.dst} ELSE {e.dst}
      frameOK == \A i \in 1..3 : (i \notin touched) => PSameOrBig(PProj(e.post[i]), val[i])
      allSame == \A i \in 1..3 : PSameOrBig(PProj(e.post[i]), val[i])
      pre == PPre(e, d, s)
      ctor == e.op \in {"new", "from_cs", "from_gs", "destroy", "copy_from", "rebuild"}
  IN IF \E i \in 1..3 : e.post[i].alive /\ ~e.post[i].ok THEN "C09:OK()"
     ELSE IF e.big \/ ~(\A i \in 1..3 : PSmall(e.post[i])) THEN "und"
     ELSE IF ~(\A i \in 1..3 : PProj(e.post[i]) = val[i] \/ PWF(e.post[i])) THEN "C09:the-descriptions-of-a-disjunct-disagree"
     ELSE IF ~frameOK THEN "C09:another-powerset-changed"
     ELSE IF e.exc \in {"dead", "skipped"} THEN V1(allSame, "C09:changed-on-skip")
     ELSE IF e.exc = "unknown-op" THEN "und"
     ELSE IF ~ctor /\ ~d.alive THEN "und"
     ELSE IF pre = "und" THEN "und"
     ELSE IF e.exc # "" THEN (IF pre = "ok" THEN "C09:unexpected-exception" ELSE IF e.op \in {"add_constraints", "refine_with_constraints"} THEN "und" ELSE V1(allSame, "C09:exception-changed-value"))
     ELSE IF pre = "inv" THEN "C14:rejected-call-not-rejected"
     ELSE IF e.op \in PObservers THEN (IF ~allSame THEN "C09:observer-changed-the-union" ELSE PObs(e, d, s, m))
     ELSE PMut(e, d, s, r, m)
PsetNext ==
  /\ l <= Len(Tr) + 1
  /\ IF l = Len(Tr) + 1
     THEN /\ JsonSerialize(IOEnv.VOUT, [n |-> Len(Tr), bad |-> bad, und |-> und])
          /\ UNCHANGED <<val, und, bad>>
     ELSE LET e == Tr[l] IN
          IF e.e = "Reset" THEN val' = <<PDead, PDead, PDead>> /\ UNCHANGED <<und, bad>>
          ELSE IF e.e \in {"Crash", "Hang"} THEN val' = <<PDead, PDead, PDead>> /\ und' = und /\ bad' = Append(bad, [l |-> l, op |-> e.e, why |-> "C09:" \o e.e])
          ELSE LET c == PsetCheck(e) IN
               /\ val' = [i \in 1..3 |-> PProj(e.post[i])]
               /\ und' = IF c = "und" THEN Append(und, l) ELSE und
               /\ bad' = IF c \in {"ok", "und"} THEN bad ELSE Append(bad, [l |-> l, op |-> e.op, why |-> c])
  /\ l' = l + 1
=====================================================================
