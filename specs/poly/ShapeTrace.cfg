INIT SInit
NEXT ShapeNext
CHECK_DEADLOCK FALSE
