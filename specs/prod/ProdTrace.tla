---------------------------- MODULE ProdTrace ----------------------------
(* Trace specification of the pool of partially reduced products (C10).
   A product denotes the INTERSECTION of its two components.  The components may be polyhedra, grids, boxes, BD shapes or
   octagons, so the denotation is not a polyhedron in general: it is evaluated POINTWISE.  U(n) is a fixed lattice of rational
   sample points; a point belongs to a logged product iff it satisfies every constraint and every congruence logged for both
   components (the components are read from a copy that has been reduced, so a reduction that loses a point shows up as a
   missing sample).  Every event is judged on samples:
     - untouched products, and the receiver of an observer, keep exactly the same samples (explicit or implicit reductions
       never lose -- or gain -- a point);
     - every transformer contains the exact image: for each sample of the argument(s) the image point(s) prescribed by the
       definition of the operation belong to the result;
     - definite answers are true of the intersections: a claimed emptiness, inclusion, disjointness, equality, universe,
       inclusion in / disjointness from a constraint or congruence, an upper bound of an expression, is refuted by a sample.
   A rejection therefore always carries a concrete witness point. *)
EXTENDS GridSem, Json, IOUtils
Tr == ndJsonDeserialize(IOEnv.TRACE)
VARIABLES l, val, und, bad
Dead == [alive |-> FALSE, n |-> 0, c1 |-> <<>>, g1 |-> <<>>, c2 |-> <<>>, g2 |-> <<>>]
Proj(p) == [alive |-> p.alive, n |-> p.n, c1 |-> p.c1, g1 |-> p.g1, c2 |-> p.c2, g2 |-> p.g2]
Init == l = 1 /\ val = <<Dead, Dead, Dead>> /\ und = <<>> /\ bad = <<>>
Pad(v, m) == [i \in 1..m |-> IF i <= Len(v) THEN v[i] ELSE 0]
\* sample points: homogeneous <<divisor, numerators>>
U(n) == IF n = 0 THEN {<<1>>}
        ELSE IF n = 1 THEN {<<d, a>> : d \in {1, 2, 3}, a \in -12..12}
        ELSE IF n = 2 THEN {<<d, a, b>> : d \in {1, 2}, a \in -6..6, b \in -6..6}
        ELSE IF n = 3 THEN {<<d, a, b, c>> : d \in {1, 2}, a \in -3..3, b \in -3..3, c \in -3..3}
        ELSE {}
Us(n) == IF n = 0 THEN {<<1>>}                                     \* a smaller lattice for the binary products of samples
         ELSE IF n = 1 THEN {<<d, a>> : d \in {1, 2}, a \in -4..4}
         ELSE IF n = 2 THEN {<<1, a, b>> : a \in -3..3, b \in -3..3}
         ELSE {}
Wc == -12..12                                                       \* numerators of the old value of a replaced coordinate
Ws == -6..6                                                         \* numerators tried for a coordinate that may take any value
SatC(c, p) == LET x == Dot(Pad(c.v, Len(p)), p) IN IF c.k = "eq" THEN x = 0 ELSE IF c.k = "gt" THEN x > 0 ELSE x >= 0
SatG(g, p) == LET x == Dot(Pad(g.v, Len(p)), p) IN IF g.mod = 0 THEN x = 0 ELSE x % (g.mod * p[1]) = 0
In(x, p) == /\ x.alive /\ Len(p) = x.n + 1
            /\ \A i \in 1..Len(x.c1) : SatC(x.c1[i], p)
            /\ \A i \in 1..Len(x.c2) : SatC(x.c2[i], p)
            /\ \A i \in 1..Len(x.g1) : SatG(x.g1[i], p)
            /\ \A i \in 1..Len(x.g2) : SatG(x.g2[i], p)
SameS(a, b) == (a.alive = b.alive) /\ (~a.alive \/ (a.n = b.n /\ (Proj(a) = Proj(b) \/ \A p \in U(a.n) : In(a, p) = In(b, p))))
MaxAbsRows(rows) == LET RECURSIVE F(_, _)
                        F(i, j) == IF i > Len(rows) THEN 0 ELSE IF j > Len(rows[i].v) THEN F(i+1, 1)
                                   ELSE LET a == Abs(rows[i].v[j]) b == F(i, j+1) IN IF a > b THEN a ELSE b
                    IN F(1, 1)
SmallP(p) == ~p.alive \/ (p.n <= 3 /\ MaxAbsRows(p.c1) <= 20000 /\ MaxAbsRows(p.c2) <= 20000 /\ MaxAbsRows(p.g1) <= 20000 /\ MaxAbsRows(p.g2) <= 20000
                          /\ (\A i \in 1..Len(p.g1) : p.g1[i].mod <= 20000) /\ (\A j \in 1..Len(p.g2) : p.g2[j].mod <= 20000))
\* ---- image points
Norm(q) == IF q[1] < 0 THEN [i \in 1..Len(q) |-> -q[i]] ELSE q
Img(p, ev, den, kc) == Norm([i \in 1..Len(p) |-> IF i = 1 THEN den * p[1] ELSE IF i = kc THEN Dot(Pad(ev, Len(p)), p) ELSE den * p[i]])
Repl(p, kc, w) == [p EXCEPT ![kc] = w]
RelOK(k, lhs, rhs) == IF k = "eq" THEN lhs = rhs ELSE IF k = "le" THEN lhs <= rhs ELSE IF k = "ge" THEN lhs >= rhs ELSE IF k = "lt" THEN lhs < rhs ELSE lhs > rhs
\* new numerator w (over the divisor of p) REL expr(p)/den
RelW(k, w, p, ev, den) == IF den > 0 THEN RelOK(k, w * den, Dot(Pad(ev, Len(p)), p)) ELSE RelOK(k, Dot(Pad(ev, Len(p)), p), w * den)
Cgs(e, m) == [i \in 1..Len(e.cs) |-> [mod |-> IF e.cs[i].k = "eq" THEN 0 ELSE e.mod, v |-> Pad(e.cs[i].v, m)]]
Witness(S) == IF S = {} THEN <<>> ELSE CHOOSE x \in S : TRUE
\* result: "ok" or <<why, witness>>
OKV == <<"ok", <<>>>>
UNDV == <<"und", <<>>>>
Lost(why, S) == IF S = {} THEN OKV ELSE <<why, Witness(S)>>
Mut(e, d, s, r) ==
  LET op == e.op  n == d.n  m == d.n + 1  kc == e.var + 2
      D == {p \in U(n) : In(d, p)}
      Sm == {p \in U(n) : In(s, p)}
  IN
  IF op = "new" THEN (IF e.k = "empty" THEN OKV ELSE Lost("C10:universe-constructor-misses-a-point", {p \in U(e.argn) : ~In(r, p)}))
  ELSE IF op = "from_cs" THEN Lost("C10:from-constraints-loses-a-point", {p \in U(e.argn) : (\A i \in 1..Len(e.cs) : SatC(e.cs[i], p)) /\ ~In(r, p)})
  ELSE IF op = "from_cgs" THEN Lost("C10:from-congruences-loses-a-point", {p \in U(e.argn) : (\A i \in 1..Len(e.cs) : SatG(Cgs(e, e.argn + 1)[i], p)) /\ ~In(r, p)})
  ELSE IF op \in {"copy_from", "assign"} THEN (IF SameS(r, s) THEN OKV ELSE <<"C10:" \o op \o "-changed-the-intersection", <<>>>>)
  ELSE IF op = "swap" THEN (IF SameS(r, s) /\ SameS(Proj(e.post[e.src]), d) THEN OKV ELSE <<"C10:swap", <<>>>>)
  ELSE IF op = "dumpload" THEN (IF e.ri \in {5, 7} /\ SameS(Proj(e.post[IF e.src > 0 THEN e.src ELSE e.dst]), d) /\ SameS(r, d) THEN OKV ELSE <<"C10:dump-load", <<>>>>)
  ELSE IF op = "destroy" THEN (IF ~r.alive THEN OKV ELSE <<"C10:destroy", <<>>>>)
  ELSE IF op \in {"add_constraint", "refine_with_constraint"} THEN Lost("C10:" \o op \o "-loses-a-point", {p \in D : SatC([k |-> e.k, v |-> e.v], p) /\ ~In(r, p)})
  ELSE IF op \in {"add_constraints", "refine_with_constraints"} THEN Lost("C10:" \o op \o "-loses-a-point", {p \in D : (\A i \in 1..Len(e.cs) : SatC(e.cs[i], p)) /\ ~In(r, p)})
  ELSE IF op \in {"add_congruence", "refine_with_congruence"} THEN Lost("C10:" \o op \o "-loses-a-point", {p \in D : SatG([mod |-> e.mod, v |-> e.v], p) /\ ~In(r, p)})
  ELSE IF op \in {"add_congruences", "refine_with_congruences"} THEN Lost("C10:" \o op \o "-loses-a-point", {p \in D : (\A i \in 1..Len(e.cs) : SatG(Cgs(e, m)[i], p)) /\ ~In(r, p)})
  ELSE IF op = "intersection" THEN Lost("C10:intersection-loses-a-point", {p \in D : In(s, p) /\ ~In(r, p)})
  ELSE IF op \in {"poly_hull", "widening"} THEN Lost("C10:" \o op \o "-loses-a-point", {p \in D \cup Sm : ~In(r, p)})
  ELSE IF op = "hull_if_exact" THEN (IF e.rb THEN Lost("C10:upper_bound_if_exact-loses-a-point", {p \in D \cup Sm : ~In(r, p)}) ELSE IF SameS(r, d) THEN OKV ELSE <<"C10:upper_bound_if_exact-changed-on-false", <<>>>>)
  ELSE IF op = "poly_difference" THEN Lost("C10:difference-loses-a-point", {p \in D : ~In(s, p) /\ ~In(r, p)})
  ELSE IF op = "topological_closure" THEN Lost("C10:topological_closure-loses-a-point", {p \in D : ~In(r, p)})
  ELSE IF op = "time_elapse" THEN
       Lost("C10:time_elapse-loses-a-point", {q \in {Norm([i \in 1..m |-> IF i = 1 THEN p[1] * y[1] ELSE y[1] * p[i] + t * p[1] * y[i]]) : p \in {p \in Us(n) : In(d, p)}, y \in {y \in Us(n) : In(s, y)}, t \in {0, 1, 2}} : ~In(r, q)})
  ELSE IF op = "affine_image" THEN Lost("C10:affine_image-loses-a-point", {q \in {Img(p, e.v, e.den, kc) : p \in D} : ~In(r, q)})
  ELSE IF op = "affine_preimage" THEN Lost("C10:affine_preimage-loses-a-point", {q \in U(n) : In(d, Img(q, e.v, e.den, kc)) /\ ~In(r, q)})
  ELSE IF op = "gen_affine_image" THEN Lost("C10:generalized_affine_image-loses-a-point", {q \in U(n) : (\E w0 \in Wc : LET p == Repl(q, kc, w0) IN In(d, p) /\ RelW(e.k, q[kc], p, e.v, e.den)) /\ ~In(r, q)})
  ELSE IF op = "gen_affine_preimage" THEN Lost("C10:generalized_affine_preimage-loses-a-point", {q \in U(n) : (\E w \in Ws : In(d, Repl(q, kc, w)) /\ RelW(e.k, w, q, e.v, e.den)) /\ ~In(r, q)})
  ELSE IF op = "bounded_affine_image" THEN Lost("C10:bounded_affine_image-loses-a-point", {q \in U(n) : (\E w0 \in Wc : LET p == Repl(q, kc, w0) IN In(d, p) /\ RelW("ge", q[kc], p, e.v, e.den) /\ RelW("le", q[kc], p, e.w, e.den)) /\ ~In(r, q)})
  ELSE IF op = "bounded_affine_preimage" THEN Lost("C10:bounded_affine_preimage-loses-a-point", {q \in U(n) : (\E w \in Ws : In(d, Repl(q, kc, w)) /\ RelW("ge", w, q, e.v, e.den) /\ RelW("le", w, q, e.w, e.den)) /\ ~In(r, q)})
  ELSE IF op = "unconstrain" THEN Lost("C10:unconstrain-loses-a-point", {q \in U(n) : (\E w \in Ws : In(d, Repl(q, kc, w))) /\ ~In(r, q)})
  ELSE IF op = "unconstrain_set" THEN Lost("C10:unconstrain-loses-a-point", {q \in U(n) : (\E i \in 1..Len(e.vs) : \E w \in Ws : In(d, Repl(q, e.vs[i] + 2, w))) /\ ~In(r, q)})
  ELSE IF op = "add_dims_embed" THEN (IF r.n # n + e.var THEN <<"C10:add_space_dimensions-dimension", <<>>>>
                                      ELSE Lost("C10:add_space_dimensions_and_embed-loses-a-point", {q \in U(n + e.var) : In(d, SubSeq(q, 1, m)) /\ ~In(r, q)}))
  ELSE IF op = "add_dims_project" THEN (IF r.n # n + e.var THEN <<"C10:add_space_dimensions-dimension", <<>>>>
                                        ELSE Lost("C10:add_space_dimensions_and_project-loses-a-point", {q \in U(n + e.var) : In(d, SubSeq(q, 1, m)) /\ (\A i \in (m+1)..Len(q) : q[i] = 0) /\ ~In(r, q)}))
  ELSE IF op = "remove_higher" THEN (IF r.n # e.var THEN <<"C10:remove_higher_space_dimensions-dimension", <<>>>>
                                     ELSE Lost("C10:remove_higher_space_dimensions-loses-a-point", {q \in {SubSeq(p, 1, e.var + 1) : p \in D} : ~In(r, q)}))
  ELSE IF op = "remove_dims" THEN
       LET keep == SetToSortSeq({j \in 1..m : \A i \in 1..Len(e.vs) : j # e.vs[i] + 2}, <) IN
       IF r.n # n - Len(e.vs) THEN <<"C10:remove_space_dimensions-dimension", <<>>>>
       ELSE Lost("C10:remove_space_dimensions-loses-a-point", {q \in {[t \in 1..Len(keep) |-> p[keep[t]]] : p \in D} : ~In(r, q)})
  ELSE IF op = "map_dims" THEN
       LET nn == Cardinality({i \in 1..Len(e.vs) : e.vs[i] >= 0})
           src(j) == CHOOSE i \in 1..Len(e.vs) : e.vs[i] = j - 2 IN
       IF r.n # nn THEN <<"C10:map_space_dimensions-dimension", <<>>>>
       ELSE Lost("C10:map_space_dimensions-loses-a-point", {q \in {[j \in 1..(nn + 1) |-> IF j = 1 THEN p[1] ELSE p[src(j) + 1]] : p \in D} : ~In(r, q)})
  ELSE IF op = "expand" THEN
       (IF r.n # n + e.den THEN <<"C10:expand_space_dimension-dimension", <<>>>>
        ELSE Lost("C10:expand_space_dimension-loses-a-point", {q \in {p \o [i \in 1..e.den |-> p[kc]] : p \in D} : ~In(r, q)}))
  ELSE IF op = "fold" THEN
       LET rm == {e.vs[i] + 2 : i \in 1..Len(e.vs)}  dest == e.var + 2
           keep == SetToSortSeq({j \in 1..m : j \notin rm}, <) IN
       IF r.n # n - Len(e.vs) THEN <<"C10:fold_space_dimensions-dimension", <<>>>>
       ELSE Lost("C10:fold_space_dimensions-loses-a-point", {q \in {[t \in 1..Len(keep) |-> IF keep[t] = dest THEN p[c] ELSE p[keep[t]]] : p \in D, c \in rm \cup {dest}} : ~In(r, q)})
  ELSE IF op = "concatenate" THEN
       (IF r.n # n + s.n THEN <<"C10:concatenate-dimension", <<>>>> ELSE IF n + s.n > 3 THEN UNDV
        ELSE Lost("C10:concatenate-loses-a-point", {q \in {<<p[1] * y[1]>> \o [i \in 1..n |-> y[1] * p[i + 1]] \o [i \in 1..s.n |-> p[1] * y[i + 1]] : p \in {p \in Us(n) : In(d, p)}, y \in {y \in Us(s.n) : In(s, y)}} : ~In(r, q)}))
  ELSE IF op = "drop_non_integer" THEN
       LET vars == IF Len(e.vs) = 0 THEN 0..(n - 1) ELSE {e.vs[i] : i \in 1..Len(e.vs)} IN
       LET lost == {p \in D : (\A v \in vars : p[v + 2] % p[1] = 0) /\ ~In(r, p)}  gained == {p \in U(n) : In(r, p) /\ ~In(d, p)} IN
       IF lost # {} THEN <<"C17:drop_some_non_integer_points-loses-an-integer-point", Witness(lost)>> ELSE Lost("C17:drop_some_non_integer_points-is-not-a-subset", gained)
  ELSE UNDV
Obs(e, d, s) ==
  LET op == e.op  n == d.n  m == d.n + 1
      D == {p \in U(n) : In(d, p)}
  IN
  IF op = "is_empty" THEN (IF e.rb THEN Lost("C10:reported-emptiness-refuted-by-a-point", D) ELSE OKV)
  ELSE IF op = "is_universe" THEN (IF e.rb THEN Lost("C10:reported-universe-refuted-by-a-point", U(n) \ D) ELSE OKV)
  ELSE IF op \in {"contains", "strictly_contains"} THEN (IF e.rb THEN Lost("C10:reported-containment-refuted-by-a-point", {p \in U(n) : In(s, p) /\ ~In(d, p)}) ELSE OKV)
  ELSE IF op = "is_disjoint_from" THEN (IF e.rb THEN Lost("C10:reported-disjointness-refuted-by-a-point", {p \in D : In(s, p)}) ELSE OKV)
  ELSE IF op = "equals" THEN (IF e.rb THEN Lost("C10:reported-equality-refuted-by-a-point", {p \in U(n) : In(s, p) # In(d, p)}) ELSE OKV)
  ELSE IF op = "not_equals" THEN (IF ~e.rb THEN Lost("C10:reported-equality-refuted-by-a-point", {p \in U(n) : In(s, p) # In(d, p)}) ELSE OKV)
  ELSE IF op = "relation_with_constraint" THEN
       LET c == [k |-> e.k, v |-> e.v] IN
       IF e.rc.inc /\ \E p \in D : ~SatC(c, p) THEN <<"C10:reported-inclusion-in-a-constraint-refuted-by-a-point", Witness({p \in D : ~SatC(c, p)})>>
       ELSE IF e.rc.dis /\ \E p \in D : SatC(c, p) THEN <<"C10:reported-disjointness-from-a-constraint-refuted-by-a-point", Witness({p \in D : SatC(c, p)})>>
       ELSE IF e.rc.sat /\ \E p \in D : Dot(Pad(e.v, m), p) # 0 THEN <<"C10:reported-saturation-refuted-by-a-point", Witness({p \in D : Dot(Pad(e.v, m), p) # 0})>>
       ELSE OKV
  ELSE IF op = "relation_with_congruence" THEN
       LET g == [mod |-> e.mod, v |-> e.v] IN
       IF e.rc.inc /\ \E p \in D : ~SatG(g, p) THEN <<"C10:reported-inclusion-in-a-congruence-refuted-by-a-point", Witness({p \in D : ~SatG(g, p)})>>
       ELSE IF e.rc.dis /\ \E p \in D : SatG(g, p) THEN <<"C10:reported-disjointness-from-a-congruence-refuted-by-a-point", Witness({p \in D : SatG(g, p)})>>
       ELSE OKV
  ELSE IF op = "relation_with_generator" THEN
       (IF e.k = "point" /\ Len(e.v) > 0 /\ e.v[1] > 0 /\ ~e.rb /\ In(d, Pad(e.v, m)) THEN <<"C10:a-point-of-the-intersection-is-not-subsumed", Pad(e.v, m)>> ELSE OKV)
  ELSE IF op \in {"maximize", "maximize_pt"} THEN
       (IF e.rr.ok THEN Lost("C10:reported-maximum-exceeded-by-a-point", {p \in D : Dot(Pad(e.v, m), p) * e.rr.den > e.rr.num * p[1]}) ELSE OKV)
  ELSE IF op \in {"minimize", "minimize_pt"} THEN
       (IF e.rr.ok THEN Lost("C10:reported-minimum-undercut-by-a-point", {p \in D : Dot(Pad(e.v, m), p) * e.rr.den < e.rr.num * p[1]}) ELSE OKV)
  ELSE IF op = "constrains" THEN
       (IF ~e.rb /\ D # {} THEN Lost("C10:unconstrained-variable-is-constrained", {q \in U(n) : ~In(d, q) /\ \E w \in Ws : In(d, Repl(q, e.var + 2, w))}) ELSE OKV)
  ELSE IF op = "space_dimension" THEN (IF e.ri = n THEN OKV ELSE <<"C10:space_dimension", <<>>>>)
  ELSE IF op \in {"constraints", "min_constraints"} THEN Lost("C10:returned-constraints-violated-by-a-point", {p \in D : \E i \in 1..Len(e.obs) : ~SatC(e.obs[i], p)})
  ELSE IF op \in {"congruences", "min_congruences"} THEN Lost("C10:returned-congruences-violated-by-a-point", {p \in D : \E i \in 1..Len(e.obs) : ~SatG(e.obs[i], p)})
  ELSE IF op = "OK" THEN (IF e.rb THEN OKV ELSE <<"C10:OK()", <<>>>>)
  ELSE UNDV
ObsOps == {"reduce", "space_dimension", "affine_dimension", "is_empty", "is_universe", "is_bounded", "is_discrete", "is_topologically_closed", "constrains", "OK",
           "contains", "strictly_contains", "is_disjoint_from", "equals", "not_equals", "constraints", "min_constraints", "congruences", "min_congruences",
           "relation_with_constraint", "relation_with_congruence", "relation_with_generator", "bounds_from_above", "bounds_from_below",
           "maximize", "minimize", "maximize_pt", "minimize_pt", "hash_code"}
BinOps == {"contains", "strictly_contains", "is_disjoint_from", "intersection", "poly_hull", "poly_difference", "time_elapse", "hull_if_exact", "widening"}
Check(e) ==
  LET d == val[e.dst]  s == IF e.src > 0 THEN val[e.src] ELSE d  r == Proj(e.post[e.dst])
      touched == IF e.op = "swap" THEN {e.dst, e.src} ELSE IF e.op = "dumpload" THEN {IF e.src > 0 THEN e.src ELSE e.dst} ELSE {e.dst}
      \* (a call rejected with an exception may have reached one component before the other refused: the receiver is not compared)
      frame == {i \in 1..3 : (i \notin touched \/ (e.op \in ObsOps /\ e.exc = "")) /\ ~SameS(Proj(e.post[i]), val[i])}
      ctor == e.op \in {"new", "from_cs", "from_cgs", "destroy", "copy_from"}
  \* OK() of a product is logged but not asserted: it also requires the reduction to be idempotent and is false after a call that was
  \* rejected by the second component once the first had accepted it -- neither is part of C10 (see DESIGN.md, observations)
  IN IF e.big \/ ~(\A i \in 1..3 : SmallP(e.post[i])) THEN UNDV
     ELSE IF e.exc = "unknown-op" THEN UNDV
     \* a call that threw may have processed part of a system: only the other slots are compared
     ELSE IF e.exc \notin {"", "dead", "skipped"} /\ e.op \in {"add_constraints", "add_congruences", "refine_with_constraints", "refine_with_congruences"} THEN UNDV
     ELSE IF frame # {} THEN <<"C10:a-product-that-was-not-modified-lost-or-gained-a-point", <<CHOOSE i \in frame : TRUE>>>>
     ELSE IF e.exc # "" THEN OKV
     ELSE IF ~ctor /\ ~d.alive THEN UNDV
     ELSE IF e.op \in BinOps /\ s.n # d.n THEN UNDV
     ELSE IF e.op \in ObsOps THEN Obs(e, d, s)
     ELSE Mut(e, d, s, r)
Next == /\ l <= Len(Tr) + 1
        /\ IF l = Len(Tr) + 1
           THEN JsonSerialize(IOEnv.VOUT, [n |-> Len(Tr), bad |-> bad, und |-> und]) /\ UNCHANGED <<val, und, bad>>
           ELSE LET e == Tr[l] IN
                IF e.e = "Reset" THEN val' = <<Dead, Dead, Dead>> /\ UNCHANGED <<und, bad>>
                ELSE IF e.e \in {"Crash", "Hang"} THEN val' = <<Dead, Dead, Dead>> /\ und' = und /\ bad' = Append(bad, [l |-> l, op |-> e.e, why |-> "C10:" \o e.e, pt |-> <<>>])
                ELSE \E c \in {Check(e)} :
                     /\ val' = [i \in 1..3 |-> Proj(e.post[i])]
                     /\ und' = (IF c[1] = "und" THEN Append(und, l) ELSE und)
                     /\ bad' = (IF c[1] \in {"ok", "und"} THEN bad ELSE Append(bad, [l |-> l, op |-> e.op, why |-> c[1], pt |-> c[2]]))
        /\ l' = l + 1
=====================================================================
