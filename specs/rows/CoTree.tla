---------------------------- MODULE CoTree ----------------------------
(* C16: the cache-oblivious tree underlying Sparse_Row is an ordered map key -> data.
   State: r = <<present, val>>, two sequences of length K; key i-1 is stored iff present[i] = 1.
   Stored keys may hold a zero datum (the tree, unlike Linear_Expression, keeps them).
   The log format is the one of Rows.tla so that the same converter is used. *)
EXTENDS Integers, Sequences, TLC, Json, FiniteSets
CONSTANTS MaxLen, K, Pick(_)
Val == -2..2
VARIABLES r, log
vars == <<r, log>>
Init == r = << [i \in 1..K |-> 0], [i \in 1..K |-> 0] >> /\ log = <<>>
P == r[1]
V == r[2]
Keys == {i \in 1..K : P[i] = 1}
Mat(s) == SubSeq(s, 1, Len(s))      \* materialise lazily represented functions (see Rows.tla)
Step(op, a, b, c, d, nr0, obs) ==
   LET nr == <<Mat(nr0[1]), Mat(nr0[2])>> IN
   /\ r' = nr
   /\ log' = Append(log, [op |-> op, k |-> 1, a |-> a, b |-> b, c |-> c, d |-> d, post |-> nr, obs |-> obs])
Succ(S, i) == IF \E j \in S : j > i THEN CHOOSE j \in S : j > i /\ \A q \in S : q > i => q >= j ELSE K + 1
Put(i, v) == << [P EXCEPT ![i] = 1], [V EXCEPT ![i] = v] >>
Del(i) == << [P EXCEPT ![i] = 0], [V EXCEPT ![i] = 0] >>
Ops == {"insert", "insert_data", "insert_hint", "insert_hint_data", "erase", "erase_iter", "erase_shift_left",
        "increase_keys_from", "bisect", "bisect_near", "bisect_in", "copy", "swap", "clear", "fast_shift", "size", "fill", "thin", "set_via_iter"}
Next ==
  /\ Len(log) < MaxLen
  /\ \E op \in Pick(Ops) :
     \/ op = "insert" /\ \E i \in Pick(1..K) : Step(op, i-1, 0, 0, 0, IF P[i] = 1 THEN r ELSE Put(i, 0), V[i])
     \/ op = "insert_data" /\ \E i \in Pick(1..K) : \E v \in Pick(Val) : Step(op, i-1, v, 0, 0, Put(i, v), v)
     \/ op = "insert_hint" /\ \E i \in Pick(1..K) : \E h \in Pick(1..(K+1)) : Step(op, i-1, h-1, 0, 0, IF P[i] = 1 THEN r ELSE Put(i, 0), V[i])
     \/ op = "insert_hint_data" /\ \E i \in Pick(1..K) : \E v \in Pick(Val) : \E h \in Pick(1..(K+1)) : Step(op, i-1, v, h-1, 0, Put(i, v), v)
     \/ op = "erase" /\ \E i \in Pick(1..K) : Step(op, i-1, 0, 0, 0, IF P[i] = 1 THEN Del(i) ELSE r, Succ(Keys, i) - 1)
     \/ op = "erase_iter" /\ Keys # {} /\ \E i \in Pick(Keys) : Step(op, i-1, 0, 0, 0, Del(i), Succ(Keys, i) - 1)
     \/ op = "erase_shift_left" /\ \E i \in Pick(1..K) :
           Step(op, i-1, 0, 0, 0, << [t \in 1..K |-> IF t < i THEN P[t] ELSE IF t < K THEN P[t+1] ELSE 0],
                                     [t \in 1..K |-> IF t < i THEN V[t] ELSE IF t < K THEN V[t+1] ELSE 0] >>, 0)
     \/ op = "increase_keys_from" /\ \E i \in Pick(1..K) : \E n \in Pick(1..3) :
           (\A j \in Keys : j >= i => j + n <= K) /\
           Step(op, i-1, n, 0, 0, << [t \in 1..K |-> IF t < i THEN P[t] ELSE IF t < i + n THEN 0 ELSE P[t-n]],
                                     [t \in 1..K |-> IF t < i THEN V[t] ELSE IF t < i + n THEN 0 ELSE V[t-n]] >>, 0)
     \/ op = "bisect" /\ \E i \in Pick(1..K) : Step(op, i-1, 0, 0, 0, r, 0)
     \/ op = "bisect_near" /\ \E i \in Pick(1..K) : \E h \in Pick(1..(K+1)) : Step(op, i-1, h-1, 0, 0, r, 0)
     \/ op = "bisect_in" /\ Keys # {} /\ \E f \in Pick(Keys) : \E l \in Pick({q \in Keys : q >= f}) : \E i \in Pick(1..K) : Step(op, i-1, f-1, l-1, 0, r, 0)
     \/ op = "copy" /\ Step(op, 0, 0, 0, 0, r, 0)
     \/ op = "swap" /\ Step(op, 0, 0, 0, 0, r, 0)
     \/ op = "clear" /\ Step(op, 0, 0, 0, 0, << [i \in 1..K |-> 0], [i \in 1..K |-> 0] >>, 0)
     \/ op = "fast_shift" /\ Keys # {} /\ \E j \in Pick(Keys) : \E i \in Pick(1..j) : (\A q \in i..(j-1) : P[q] = 0) /\
           Step(op, i-1, j-1, 0, 0, << [t \in 1..K |-> IF t = i THEN 1 ELSE IF t = j THEN 0 ELSE P[t]],
                                       [t \in 1..K |-> IF t = i THEN V[j] ELSE IF t = j THEN 0 ELSE V[t]] >>, 0)
     \/ op = "size" /\ Step(op, 0, 0, 0, 0, r, Cardinality(Keys))
     \/ op = "fill" /\ \E st \in Pick(1..3) : \E v \in Pick({1, 2}) : \E a \in Pick(1..K) :     \* many insertions from key a on: density goes up
           Step(op, st, v, a-1, 0, << [t \in 1..K |-> IF t >= a /\ (t-a) % st = 0 THEN 1 ELSE P[t]],
                                      [t \in 1..K |-> IF t >= a /\ (t-a) % st = 0 THEN v ELSE V[t]] >>, 0)
     \/ op = "thin" /\ \E st \in Pick(2..3) :     \* many erasures: density goes down
           Step(op, st, 0, 0, 0, << [t \in 1..K |-> IF (t-1) % st # 0 THEN 0 ELSE P[t]],
                                    [t \in 1..K |-> IF (t-1) % st # 0 THEN 0 ELSE V[t]] >>, 0)
     \/ op = "set_via_iter" /\ Keys # {} /\ \E i \in Pick(Keys) : \E v \in Pick(Val) : Step(op, i-1, v, 0, 0, Put(i, v), 0)
Spec == Init /\ [][Next]_vars
TypeOK == \A i \in 1..K : P[i] \in {0, 1} /\ (P[i] = 0 => V[i] = 0)
EmitLog == Len(log) \in {MaxLen \div 2, MaxLen} => PrintT(<<"BEH", ToJson(log)>>)
EmitAll == Len(log) > 0 => PrintT(<<"BEH", ToJson(log)>>)
PickRandom(S) == {RandomElement(S)}
PickAll(S) == S
=====================================================================
