CONSTANTS MaxLen = 2
 K = 4
 Pick <- PickAll
SPECIFICATION Spec
INVARIANT TypeOK
CONSTRAINT EmitAll
CHECK_DEADLOCK FALSE
