CONSTANTS MaxLen = 40
 K = 120
 Pick <- PickRandom
SPECIFICATION Spec
CONSTRAINT EmitLog
CHECK_DEADLOCK FALSE
