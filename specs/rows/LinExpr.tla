---------------------------- MODULE LinExpr ----------------------------
(* C16, first sentence: a linear expression is a total function {0..n} -> Int (index 0 the
   inhomogeneous term, index i the coefficient of variable i-1), whatever the representation
   (dense / sparse) of each operand.  Three slots; the replayer runs every behaviour under
   several assignments of representations to slots (all dense, all sparse, mixed) and each run
   must agree with the post-state and the observer answers computed here. *)
EXTENDS Integers, Sequences, TLC, Json, FiniteSets
CONSTANTS MaxLen, MaxDim, Pick(_), Seeds
Val == -3..3
NZ == {-3, -2, -1, 1, 2, 3}
Abs(x) == IF x < 0 THEN -x ELSE x
RECURSIVE Gcd(_, _)
Gcd(a, b) == IF b = 0 THEN Abs(a) ELSE Gcd(Abs(b), Abs(a) % Abs(b))
GcdRange(s, a, b) == LET RECURSIVE F(_)            \* gcd of s[a..b-1] (1-based, b exclusive)
                         F(i) == IF i < a THEN 0 ELSE Gcd(s[i], F(i-1))
                     IN F(b - 1)
Sgn(x) == IF x > 0 THEN 1 ELSE IF x < 0 THEN -1 ELSE 0
VARIABLES e, log
vars == <<e, log>>
\* the first log entry records the seed state so that the replayer starts from it
Init == e \in Seeds /\ log = <<[op |-> "init", k |-> 1, j |-> 0, a |-> 0, b |-> 0, c |-> 0, d |-> 0, vs |-> <<>>, post |-> e, obs |-> 0]>>
Big(s) == \E i \in 1..Len(s) : Abs(s[i]) > 100000
At(s, i) == IF i <= Len(s) THEN s[i] ELSE 0
Ext(s, n) == [i \in 1..n |-> At(s, i)]               \* resize to length n (zero extension / truncation)
Max(a, b) == IF a > b THEN a ELSE b
Set3(k, s) == [e EXCEPT ![k] = s]
Mat(s) == SubSeq(s, 1, Len(s))      \* materialise lazily represented functions (see Rows.tla)
Step(op, k, j, a, b, c, d, vs, ne0, obs) ==
   LET ne == <<Mat(ne0[1]), Mat(ne0[2]), Mat(ne0[3])>> IN
   /\ \A t \in 1..3 : ~Big(ne[t])
   /\ e' = ne
   /\ log' = Append(log, [op |-> op, k |-> k, j |-> j, a |-> a, b |-> b, c |-> c, d |-> d, vs |-> vs, post |-> ne, obs |-> obs])
B(x) == IF x THEN 1 ELSE 0
SumTo(f(_), a, b) == LET RECURSIVE F(_)
                         F(i) == IF i < a THEN 0 ELSE f(i) + F(i-1)
                     IN F(b - 1)
FirstNZ(s, a, b) == LET RECURSIVE F(_)
                        F(t) == IF t >= b THEN b ELSE IF s[t] # 0 THEN t ELSE F(t+1)
                    IN F(a)
LastNZ(s, a, b) == LET RECURSIVE F(_)              \* last non-zero in [a,b), or b if none
                       F(t) == IF t < a THEN b ELSE IF s[t] # 0 THEN t ELSE F(t-1)
                   IN F(b - 1)
\* lexicographic comparison as documented for compare(): homogeneous part first (zero-extended), then index 0
Cmp(x, y) == LET n == Max(Len(x), Len(y))
                 RECURSIVE F(_)
                 F(i) == IF i > n THEN Sgn(x[1] - y[1])
                         ELSE IF At(x, i) # At(y, i) THEN 2 * Sgn(At(x, i) - At(y, i)) ELSE F(i+1)
             IN F(2)
LinComb(x, y, c1, c2, a, b) == [t \in 1..Len(x) |-> IF t >= a /\ t < b THEN c1 * x[t] + c2 * At(y, t) ELSE x[t]]
SubsetsUpTo2(S) == {T \in SUBSET S : Cardinality(T) \in 1..2}
SetSeq(S) == LET RECURSIVE F(_)
                 F(T) == IF T = {} THEN <<>> ELSE LET m == CHOOSE x \in T : \A y \in T : x <= y IN <<m>> \o F(T \ {m})
             IN F(S)
\* all injective sequences (cycles) of length 2..3 over S
Cycles(S) == {c \in {<<a, b>> : a \in S, b \in S} : c[1] # c[2]} \cup {c \in {<<a, b, d>> : a \in S, b \in S, d \in S} : c[1] # c[2] /\ c[1] # c[3] /\ c[2] # c[3]}
RemoveIdx(s, R) == \* remove the (1-based) positions in R
   LET keep == SetSeq({i \in 1..Len(s) : i \notin R}) IN [t \in 1..Len(keep) |-> s[keep[t]]]
MutOps == {"set_coef", "set_inhom", "set_dim", "add", "sub", "mul", "neg", "addvar", "subvar", "addconst", "subconst",
           "add_mul_var", "sub_mul_var", "add_mul_expr", "sub_mul_expr", "swap_dims", "remove_dims", "shift_dims", "permute",
           "lincomb_var", "lincomb", "lincomb_lax", "lincomb_range", "lincomb_lax_range", "mul_range", "exact_div_range",
           "negate_range", "normalize", "sign_normalize", "assign", "swap", "copy_dim", "set_repr", "dumpload",
           "bin_plus", "bin_minus", "bin_scale", "set_raw"}
ObsOps == {"is_zero", "all_hom_zero", "is_equal_to", "compare", "all_zeroes", "all_zeroes_set", "num_zeroes", "gcd",
           "last_nonzero", "last_nonzero_range", "first_nonzero_range", "have_common_var", "scalar_product",
           "scalar_product_range", "scalar_product_sign", "is_equal_range", "is_equal_scaled", "all_zeroes_except", "lower_bound"}
Next ==
  /\ Len(log) < MaxLen
  /\ \E op \in Pick(MutOps \cup ObsOps), k \in Pick(1..3), j \in Pick(1..3) :
     LET x == e[k] y == e[j] n == Len(x) nd == n - 1 IN     \* nd = space dimension
     \/ op = "set_coef" /\ \E v \in Pick(1..MaxDim) : \E c \in Pick(Val) :     \* set_coefficient(Variable(v-1), c); v may exceed the dimension: grows
           v <= nd /\ Step(op, k, 0, v-1, c, 0, 0, <<>>, Set3(k, [x EXCEPT ![v+1] = c]), 0)
     \/ op = "set_raw" /\ \E i \in Pick(1..n) : \E c \in Pick(Val) :           \* private set(i, c) on a raw index
           Step(op, k, 0, i-1, c, 0, 0, <<>>, Set3(k, [x EXCEPT ![i] = c]), 0)
     \/ op = "set_inhom" /\ \E c \in Pick(Val) : Step(op, k, 0, c, 0, 0, 0, <<>>, Set3(k, [x EXCEPT ![1] = c]), 0)
     \/ op = "set_dim" /\ \E m \in Pick(0..MaxDim) : Step(op, k, 0, m, 0, 0, 0, <<>>, Set3(k, Ext(x, m+1)), 0)
     \/ op \in {"add", "sub"} /\ LET m == Max(n, Len(y)) sg == IF op = "add" THEN 1 ELSE -1 IN
           Step(op, k, j, 0, 0, 0, 0, <<>>, Set3(k, [t \in 1..m |-> At(x, t) + sg * At(y, t)]), 0)
     \/ op = "mul" /\ \E c \in Pick(Val) : Step(op, k, 0, c, 0, 0, 0, <<>>, Set3(k, [t \in 1..n |-> c * x[t]]), 0)
     \/ op = "neg" /\ Step(op, k, 0, 0, 0, 0, 0, <<>>, Set3(k, [t \in 1..n |-> -x[t]]), 0)
     \/ op \in {"addvar", "subvar"} /\ \E v \in Pick(1..MaxDim) : LET m == Max(n, v+1) sg == IF op = "addvar" THEN 1 ELSE -1 IN
           Step(op, k, 0, v-1, 0, 0, 0, <<>>, Set3(k, [t \in 1..m |-> At(x, t) + (IF t = v+1 THEN sg ELSE 0)]), 0)
     \/ op \in {"addconst", "subconst"} /\ \E c \in Pick(Val) :
           Step(op, k, 0, c, 0, 0, 0, <<>>, Set3(k, [x EXCEPT ![1] = x[1] + (IF op = "addconst" THEN c ELSE -c)]), 0)
     \/ op \in {"add_mul_var", "sub_mul_var"} /\ \E v \in Pick(1..MaxDim) : \E c \in Pick(Val) :
           LET m == Max(n, v+1) sg == IF op = "add_mul_var" THEN 1 ELSE -1 IN
           Step(op, k, 0, c, v-1, 0, 0, <<>>, Set3(k, [t \in 1..m |-> At(x, t) + (IF t = v+1 THEN sg * c ELSE 0)]), 0)
     \/ op \in {"add_mul_expr", "sub_mul_expr"} /\ \E c \in Pick(Val) :
           \* a zero factor is a no-op in the code (the dimension does not grow); modelled as the code does it
           LET m == IF c = 0 THEN n ELSE Max(n, Len(y)) sg == IF op = "add_mul_expr" THEN 1 ELSE -1 IN
           Step(op, k, j, c, 0, 0, 0, <<>>, Set3(k, [t \in 1..m |-> At(x, t) + sg * c * At(y, t)]), 0)
     \/ op = "swap_dims" /\ nd >= 1 /\ \E v \in Pick(1..nd) : \E w \in Pick(1..nd) :
           Step(op, k, 0, v-1, w-1, 0, 0, <<>>, Set3(k, [x EXCEPT ![v+1] = x[w+1], ![w+1] = x[v+1]]), 0)
     \/ op = "remove_dims" /\ nd >= 1 /\ \E R \in Pick(SubsetsUpTo2(1..nd)) :
           Step(op, k, 0, 0, 0, 0, 0, [t \in 1..Cardinality(R) |-> SetSeq(R)[t] - 1], Set3(k, RemoveIdx(x, {v + 1 : v \in R})), 0)
     \/ op = "shift_dims" /\ \E v \in Pick(1..(nd+1)) : \E z \in Pick(1..2) : nd + z <= MaxDim /\   \* shift_space_dimensions(Variable(v-1), z)
           Step(op, k, 0, v-1, z, 0, 0, <<>>, Set3(k, [t \in 1..(n+z) |-> IF t < v+1 THEN x[t] ELSE IF t < v+1+z THEN 0 ELSE x[t-z]]), 0)
     \/ op = "permute" /\ nd >= 2 /\ \E cyc \in Pick(Cycles(1..nd)) :
           \* the coefficient of cyc[i] moves to cyc[i+1] (cyclically)
           LET L == Len(cyc)
               src(v) == IF \E i \in 1..L : cyc[i] = v
                         THEN LET i == CHOOSE i \in 1..L : cyc[i] = v IN cyc[IF i = 1 THEN L ELSE i-1]
                         ELSE v IN
           Step(op, k, 0, 0, 0, 0, 0, [t \in 1..L |-> cyc[t] - 1], Set3(k, [t \in 1..n |-> IF t = 1 THEN x[1] ELSE x[src(t-1)+1]]), 0)
     \/ op = "lincomb_var" /\ Len(y) = n /\ k # j /\ nd >= 1 /\ \E v \in Pick(1..nd) : x[v+1] # 0 /\ y[v+1] # 0 /\
           LET g == Gcd(x[v+1], y[v+1])  cx == y[v+1] \div g  cy == -(x[v+1] \div g) IN
           Step(op, k, j, v-1, 0, 0, 0, <<>>, Set3(k, [t \in 1..n |-> cx * x[t] + cy * y[t]]), 0)
     \/ op = "lincomb" /\ k # j /\ \E c1 \in Pick(NZ) : \E c2 \in Pick(NZ) : LET m == Max(n, Len(y)) IN
           Step(op, k, j, c1, c2, 0, 0, <<>>, Set3(k, [t \in 1..m |-> c1 * At(x, t) + c2 * At(y, t)]), 0)
     \/ op = "lincomb_lax" /\ k # j /\ \E c1 \in Pick(Val) : \E c2 \in Pick(Val) : LET m == Max(n, Len(y)) IN
           Step(op, k, j, c1, c2, 0, 0, <<>>, Set3(k, [t \in 1..m |-> c1 * At(x, t) + c2 * At(y, t)]), 0)
     \/ op \in {"lincomb_range", "lincomb_lax_range"} /\ k # j /\ \E c1 \in Pick(IF op = "lincomb_range" THEN NZ ELSE Val) : \E c2 \in Pick(IF op = "lincomb_range" THEN NZ ELSE Val) :
           LET lim == IF n < Len(y) THEN n ELSE Len(y) IN \E a \in Pick(1..lim) : \E b \in Pick(a..(lim+1)) :
           Step(op, k, j, c1, c2, a-1, b-1, <<>>, Set3(k, LinComb(x, y, c1, c2, a, b)), 0)
     \/ op = "mul_range" /\ \E c \in Pick(Val) : \E a \in Pick(1..n) : \E b \in Pick(a..(n+1)) :
           Step(op, k, 0, c, a-1, b-1, 0, <<>>, Set3(k, [t \in 1..n |-> IF t >= a /\ t < b THEN c * x[t] ELSE x[t]]), 0)
     \/ op = "exact_div_range" /\ \E a \in Pick(1..n) : \E b \in Pick(a..(n+1)) : \E sg \in Pick({-1, 1}) :
           LET g == GcdRange(x, a, b) c == IF g = 0 THEN sg ELSE sg * g IN
           Step(op, k, 0, c, a-1, b-1, 0, <<>>, Set3(k, [t \in 1..n |-> IF t >= a /\ t < b THEN x[t] \div c ELSE x[t]]), 0)
     \/ op = "negate_range" /\ \E a \in Pick(1..n) : \E b \in Pick(a..(n+1)) :
           Step(op, k, 0, a-1, b-1, 0, 0, <<>>, Set3(k, [t \in 1..n |-> IF t >= a /\ t < b THEN -x[t] ELSE x[t]]), 0)
     \/ op = "normalize" /\ LET g == GcdRange(x, 1, n+1) IN
           Step(op, k, 0, 0, 0, 0, 0, <<>>, Set3(k, IF g = 0 THEN x ELSE [t \in 1..n |-> x[t] \div g]), 0)
     \/ op = "sign_normalize" /\ LET f == FirstNZ(x, 2, n+1) IN
           Step(op, k, 0, 0, 0, 0, 0, <<>>, Set3(k, IF f <= n /\ x[f] < 0 THEN [t \in 1..n |-> -x[t]] ELSE x), 0)
     \/ op = "assign" /\ Step(op, k, j, 0, 0, 0, 0, <<>>, Set3(k, y), 0)
     \/ op = "swap" /\ Step(op, k, j, 0, 0, 0, 0, <<>>, [e EXCEPT ![k] = y, ![j] = x], 0)
     \/ op = "copy_dim" /\ \E m \in Pick(0..MaxDim) : Step(op, k, j, m, 0, 0, 0, <<>>, Set3(k, Ext(y, m+1)), 0)
     \/ op = "set_repr" /\ Step(op, k, 0, 0, 0, 0, 0, <<>>, e, 0)
     \/ op = "dumpload" /\ Step(op, k, 0, 0, 0, 0, 0, <<>>, e, 0)
     \/ op \in {"bin_plus", "bin_minus"} /\ \E i \in Pick(1..3) : LET u == e[i] m == Max(Len(u), Len(y)) sg == IF op = "bin_plus" THEN 1 ELSE -1 IN
           Step(op, k, j, i, 0, 0, 0, <<>>, Set3(k, [t \in 1..m |-> At(u, t) + sg * At(y, t)]), 0)
     \/ op = "bin_scale" /\ \E c \in Pick(Val) : Step(op, k, j, c, 0, 0, 0, <<>>, Set3(k, [t \in 1..Len(y) |-> c * y[t]]), 0)
     \* ---------------- observers
     \/ op = "is_zero" /\ Step(op, k, 0, 0, 0, 0, 0, <<>>, e, B(\A t \in 1..n : x[t] = 0))
     \/ op = "all_hom_zero" /\ Step(op, k, 0, 0, 0, 0, 0, <<>>, e, B(\A t \in 2..n : x[t] = 0))
     \/ op = "is_equal_to" /\ Len(y) = n /\ Step(op, k, j, 0, 0, 0, 0, <<>>, e, B(x = y))
     \/ op = "compare" /\ Step(op, k, j, 0, 0, 0, 0, <<>>, e, Cmp(x, y))
     \/ op \in {"all_zeroes", "num_zeroes", "gcd", "last_nonzero_range", "first_nonzero_range"} /\ \E a \in Pick(1..n) : \E b \in Pick(a..(n+1)) :
           Step(op, k, 0, a-1, b-1, 0, 0, <<>>, e,
                IF op = "all_zeroes" THEN B(\A t \in a..(b-1) : x[t] = 0)
                ELSE IF op = "num_zeroes" THEN Cardinality({t \in a..(b-1) : x[t] = 0})
                ELSE IF op = "gcd" THEN GcdRange(x, a, b)
                ELSE IF op = "last_nonzero_range" THEN LastNZ(x, a, b) - 1
                ELSE FirstNZ(x, a, b) - 1)
     \/ op = "last_nonzero" /\ Step(op, k, 0, 0, 0, 0, 0, <<>>, e, LET l == LastNZ(x, 1, n+1) IN IF l = n+1 THEN 0 ELSE l - 1)
     \/ op = "all_zeroes_set" /\ nd >= 1 /\ \E R \in Pick(SubsetsUpTo2(1..nd)) :
           Step(op, k, 0, 0, 0, 0, 0, [t \in 1..Cardinality(R) |-> SetSeq(R)[t] - 1], e, B(\A v \in R : x[v+1] = 0))
     \/ op = "all_zeroes_except" /\ nd >= 1 /\ \E R \in Pick(SubsetsUpTo2(1..nd)) : \E a \in Pick(1..n) : \E b \in Pick(a..(n+1)) :
           \* all coefficients in [a,b) except those of variables in R are zero (index 0 is never "a variable")
           Step(op, k, 0, a-1, b-1, 0, 0, [t \in 1..Cardinality(R) |-> SetSeq(R)[t] - 1], e,
                B(\A t \in a..(b-1) : (t = 1 \/ (t-1) \notin R) => x[t] = 0))
     \/ op = "have_common_var" /\ Len(y) = n /\ nd >= 1 /\ \E a \in Pick(1..nd) : \E b \in Pick(a..(nd+1)) :   \* variables a-1 .. b-2
           Step(op, k, j, a-1, b-1, 0, 0, <<>>, e, B(\E v \in a..(b-1) : x[v+1] # 0 /\ y[v+1] # 0))
     \/ op \in {"scalar_product", "scalar_product_sign"} /\ Len(y) = n /\
           LET sp == SumTo(LAMBDA t : x[t] * y[t], 1, n+1) IN
           Step(op, k, j, 0, 0, 0, 0, <<>>, e, IF op = "scalar_product" THEN sp ELSE Sgn(sp))
     \/ op = "scalar_product_range" /\ \E a \in Pick(1..n) : \E b \in Pick(a..(n+1)) : b - 1 <= Len(y) /\
           Step(op, k, j, a-1, b-1, 0, 0, <<>>, e, SumTo(LAMBDA t : x[t] * y[t], a, b))
     \/ op = "is_equal_range" /\ \E a \in Pick(1..n) : \E b \in Pick(a..(n+1)) : b - 1 <= Len(y) /\
           Step(op, k, j, a-1, b-1, 0, 0, <<>>, e, B(\A t \in a..(b-1) : x[t] = y[t]))
     \/ op = "is_equal_scaled" /\ \E c1 \in Pick(Val) : \E c2 \in Pick(Val) : \E a \in Pick(1..n) : \E b \in Pick(a..(n+1)) : b - 1 <= Len(y) /\
           Step(op, k, j, c1, c2, a-1, b-1, <<>>, e, B(\A t \in a..(b-1) : x[t] * c1 = y[t] * c2))
     \/ op = "lower_bound" /\ nd >= 1 /\ \E v \in Pick(1..nd) :   \* first variable >= v-1 with non-zero coefficient, or nd (= end)
           Step(op, k, 0, v-1, 0, 0, 0, <<>>, e, FirstNZ(x, v+1, n+1) - 2)
Spec == Init /\ [][Next]_vars
TypeOK == \A k \in 1..3 : Len(e[k]) \in 1..(MaxDim+1)
\* laws of the specification itself (checked exhaustively on the small configuration)
CompareAntisymmetric == \A a \in 1..3, b \in 1..3 : Cmp(e[a], e[b]) = -Cmp(e[b], e[a])
CompareZeroIffEqualModPadding == \A a \in 1..3, b \in 1..3 :
    (Cmp(e[a], e[b]) = 0) <=> (\A t \in 1..Max(Len(e[a]), Len(e[b])) : At(e[a], t) = At(e[b], t))
NormalizePrimitive == (Len(log) > 0 /\ log[Len(log)].op = "normalize") =>
    LET s == e[log[Len(log)].k] IN GcdRange(s, 1, Len(s)+1) \in {0, 1}
EmitLog == Len(log) \in {MaxLen \div 2, MaxLen} => PrintT(<<"BEH", ToJson(log)>>)
EmitAll == Len(log) > 1 => PrintT(<<"BEH", ToJson(log)>>)
PickRandom(S) == {RandomElement(S)}
PickAll(S) == S
SeedZero == { << <<0>>, <<0>>, <<0>> >> }
\* seed states of the exhaustive one-step exploration: every operation with every argument from each
SeedsBfs == { << <<0>>, <<1, 2>>, <<0, 0, -1>> >>,
              << <<2, 0, 4, -2>>, <<-1, 3, 0, 6>>, <<0, 0, 0, 0>> >>,
              << <<0, -3, 0>>, <<0, 2, 0>>, <<5>> >>,
              << <<1, 0, 0, 2>>, <<0, 0, 3, 0>>, <<-2, 2>> >> }
=====================================================================
