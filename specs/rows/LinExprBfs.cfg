CONSTANTS MaxLen = 2
 MaxDim = 3
 Pick <- PickAll
 Seeds <- SeedsBfs
SPECIFICATION Spec
INVARIANT TypeOK CompareAntisymmetric CompareZeroIffEqualModPadding NormalizePrimitive
CONSTRAINT EmitAll
CHECK_DEADLOCK FALSE
