CONSTANTS MaxLen = 17
 MaxDim = 9
 Pick <- PickRandom
 Seeds <- SeedZero
SPECIFICATION Spec
CONSTRAINT EmitLog
CHECK_DEADLOCK FALSE
