---------------------------- MODULE Rows ----------------------------
(* C16, second sentence: a row (Sparse_Row over CO_Tree, Dense_Row) is a total function
   0..size-1 -> Int; unstored entries read as zero.  The state is a pair of rows so that the
   binary operations (linear_combine, assignment, swap, conversions between representations)
   are covered.  The module is executable: TLC computes the post-state of every action, the
   history variable `log` carries operation, arguments, expected post-state and the expected
   answers of the observers, and the C++ replayer (harness/rows.cc) steps the same history
   through Sparse_Row and Dense_Row and compares after each action.
   Pick(S) is {RandomElement(S)} for -simulate and S itself for exhaustive BFS. *)
EXTENDS Integers, Sequences, TLC, Json, FiniteSets
CONSTANTS MaxLen, MaxSize, InitSize, Pick(_)
Val == -2..2
Abs(x) == IF x < 0 THEN -x ELSE x
RECURSIVE Gcd(_, _)
Gcd(a, b) == IF b = 0 THEN Abs(a) ELSE Gcd(Abs(b), Abs(a) % Abs(b))
GcdSeq(s) == LET RECURSIVE F(_)
                 F(i) == IF i = 0 THEN 0 ELSE Gcd(s[i], F(i-1))
             IN F(Len(s))
VARIABLES r, log
vars == <<r, log>>
Zero(n) == [i \in 1..n |-> 0]
Init == r = << Zero(InitSize), Zero(InitSize) >> /\ log = <<>>
Big(s) == \E i \in 1..Len(s) : Abs(s[i]) > 100000
\* first index >= i (1-based) holding a non-zero, or Len(s)+1
FirstNZ(s, i) == LET RECURSIVE F(_)
                     F(t) == IF t > Len(s) THEN Len(s) + 1 ELSE IF s[t] # 0 THEN t ELSE F(t+1)
                 IN F(i)
NNZ(s) == Cardinality({t \in 1..Len(s) : s[t] # 0})
(* Step records the action.  a..f are the integer arguments as the replayer needs them
   (0-based indices), post the expected rows, obs the expected observer answer (or 0). *)
\* Mat forces TLC to materialise a lazily represented function as an explicit tuple (otherwise
\* -simulate, which never fingerprints states, evaluates ever deeper chains of closures)
Mat(s) == SubSeq(s, 1, Len(s))
Step(op, k, a, b, c, d, nr0, obs) ==
   LET nr == <<Mat(nr0[1]), Mat(nr0[2])>> IN
   /\ ~Big(nr[1]) /\ ~Big(nr[2])
   /\ r' = nr
   /\ log' = Append(log, [op |-> op, k |-> k, a |-> a, b |-> b, c |-> c, d |-> d, post |-> nr, obs |-> obs])
Set2(k, s) == IF k = 1 THEN <<s, r[2]>> ELSE <<r[1], s>>
Ops == {"insert", "insert_hint", "insert_zero", "reset", "reset_range", "reset_after", "swap",
        "lincomb", "lincomb_range", "normalize", "delete_shift", "add_zeroes_shift", "assign_other",
        "m_swap", "resize", "clear", "convert", "copy_cap", "dumpload", "find", "lower_bound", "find_hint", "lb_hint", "get", "fill"}
Coefs == {-2, -1, 1, 2, 3}
Next ==
  /\ Len(log) < MaxLen
  /\ \E op \in Pick(Ops), k \in Pick(1..2) : LET s == r[k] o == r[3-k] n == Len(s) IN
     \/ op = "insert" /\ n > 0 /\ \E i \in Pick(1..n) : \E v \in Pick(Val) :
           Step("insert", k, i-1, v, 0, 0, Set2(k, [s EXCEPT ![i] = v]), 0)
     \/ op = "insert_hint" /\ n > 0 /\ \E i \in Pick(1..n) : \E v \in Pick(Val) : \E h \in Pick(1..(n+1)) :
           Step("insert_hint", k, i-1, v, h-1, 0, Set2(k, [s EXCEPT ![i] = v]), 0)
     \/ op = "insert_zero" /\ n > 0 /\ \E i \in Pick(1..n) : \E h \in Pick(1..(n+1)) :
           \* insert(i) / insert(itr,i): makes the entry stored, value unchanged; answers its value
           Step("insert_zero", k, i-1, h-1, 0, 0, r, s[i])
     \/ op = "reset" /\ n > 0 /\ \E i \in Pick(1..n) : Step("reset", k, i-1, 0, 0, 0, Set2(k, [s EXCEPT ![i] = 0]), 0)
     \/ op = "reset_range" /\ n > 0 /\ \E a \in Pick(1..n) : \E b \in Pick(a..(n+1)) :
           Step("reset_range", k, a-1, b-1, 0, 0, Set2(k, [t \in 1..n |-> IF t >= a /\ t < b THEN 0 ELSE s[t]]), 0)
     \/ op = "reset_after" /\ n > 0 /\ \E i \in Pick(1..n) :
           Step("reset_after", k, i-1, 0, 0, 0, Set2(k, [t \in 1..n |-> IF t >= i THEN 0 ELSE s[t]]), 0)
     \/ op = "swap" /\ n > 0 /\ \E i \in Pick(1..n) : \E j \in Pick(1..n) :
           Step("swap", k, i-1, j-1, 0, 0, Set2(k, [s EXCEPT ![i] = s[j], ![j] = s[i]]), 0)
     \/ op = "lincomb" /\ Len(o) = n /\ \E c1 \in Pick(Coefs) : \E c2 \in Pick(Coefs) :
           Step("lincomb", k, c1, c2, 0, 0, Set2(k, [t \in 1..n |-> c1 * s[t] + c2 * o[t]]), 0)
     \/ op = "lincomb_range" /\ Len(o) = n /\ n > 0 /\ \E c1 \in Pick(Coefs) : \E c2 \in Pick(Coefs) : \E a \in Pick(1..n) : \E b \in Pick(a..(n+1)) :
           Step("lincomb_range", k, c1, c2, a-1, b-1, Set2(k, [t \in 1..n |-> IF t >= a /\ t < b THEN c1 * s[t] + c2 * o[t] ELSE s[t]]), 0)
     \/ op = "normalize" /\ LET g == GcdSeq(s) IN
           Step("normalize", k, 0, 0, 0, 0, Set2(k, IF g = 0 THEN s ELSE [t \in 1..n |-> s[t] \div g]), 0)
     \/ op = "delete_shift" /\ n > 1 /\ \E i \in Pick(1..n) :
           Step("delete_shift", k, i-1, 0, 0, 0, Set2(k, [t \in 1..(n-1) |-> IF t < i THEN s[t] ELSE s[t+1]]), 0)
     \/ op = "add_zeroes_shift" /\ n + 3 <= MaxSize /\ \E i \in Pick(1..(n+1)) : \E z \in Pick(1..3) :
           Step("add_zeroes_shift", k, z, i-1, 0, 0, Set2(k, [t \in 1..(n+z) |-> IF t < i THEN s[t] ELSE IF t < i + z THEN 0 ELSE s[t-z]]), 0)
     \/ op = "assign_other" /\ Step("assign_other", k, 0, 0, 0, 0, Set2(k, o), 0)
     \/ op = "m_swap" /\ Step("m_swap", k, 0, 0, 0, 0, <<r[2], r[1]>>, 0)
     \/ op = "resize" /\ \E z \in Pick(1..2) : \E m \in Pick(IF z = 1 THEN {Len(o)} ELSE 0..MaxSize) :   \* half of the time: same size as the other row
           Step("resize", k, m, 0, 0, 0, Set2(k, [t \in 1..m |-> IF t <= n THEN s[t] ELSE 0]), 0)
     \/ op = "clear" /\ Step("clear", k, 0, 0, 0, 0, Set2(k, Zero(n)), 0)     \* resets every element, keeps the size
     \/ op = "convert" /\ n > 0 /\ Step("convert", k, 0, 0, 0, 0, r, 0)       \* through the other representation and back
     \/ op = "copy_cap" /\ \E m \in Pick(0..n) : \E cap \in Pick(0..8) :   \* Row(y, sz, capacity) copy constructor
           Step("copy_cap", k, m, m + cap + 1, 0, 0, Set2(k, [t \in 1..m |-> s[t]]), 0)
     \/ op = "dumpload" /\ Step("dumpload", k, 0, 0, 0, 0, r, 0)
     \/ op = "find" /\ n > 0 /\ \E i \in Pick(1..n) : Step("find", k, i-1, 0, 0, 0, r, s[i])
     \/ op = "find_hint" /\ n > 0 /\ \E i \in Pick(1..n) : \E h \in Pick(1..(n+1)) : Step("find_hint", k, i-1, h-1, 0, 0, r, s[i])
     \/ op = "lower_bound" /\ n > 0 /\ \E i \in Pick(1..n) : Step("lower_bound", k, i-1, 0, 0, 0, r, FirstNZ(s, i) - 1)
     \/ op = "lb_hint" /\ n > 0 /\ \E i \in Pick(1..n) : \E h \in Pick(1..(n+1)) : Step("lb_hint", k, i-1, h-1, 0, 0, r, FirstNZ(s, i) - 1)
     \/ op = "get" /\ Step("get", k, 0, 0, 0, 0, r, NNZ(s))        \* whole-row read; obs = number of non-zeros
     \/ op = "fill" /\ n > 0 /\ \E st \in Pick(1..3) : \E v \in Pick({-1, 1, 2}) :   \* many insertions: crosses density thresholds
           Step("fill", k, st, v, 0, 0, Set2(k, [t \in 1..n |-> IF (t-1) % st = 0 THEN v ELSE s[t]]), 0)
Spec == Init /\ [][Next]_vars
(* properties of the specification itself, checked by TLC on the exhaustive configuration *)
TypeOK == /\ Len(r[1]) <= MaxSize + 3 /\ Len(r[2]) <= MaxSize + 3
          /\ \A k \in 1..2 : \A i \in 1..Len(r[k]) : r[k][i] \in Int
NormalizeCanonical ==   \* after normalize the row is primitive (or zero) and normalize is idempotent
   (Len(log) > 0 /\ log[Len(log)].op = "normalize") =>
       LET s == r[log[Len(log)].k] IN GcdSeq(s) \in {0, 1}
LogMatches == Len(log) > 0 => log[Len(log)].post = r
\* -simulate: print every behaviour that reaches MaxLen
EmitLog == Len(log) \in {MaxLen \div 2, MaxLen} => PrintT(<<"BEH", ToJson(log)>>)
\* BFS: print every behaviour (each state's log is one behaviour prefix; prefixes are replayed too)
EmitAll == Len(log) > 0 => PrintT(<<"BEH", ToJson(log)>>)
PickRandom(S) == {RandomElement(S)}
PickAll(S) == S
=====================================================================
