CONSTANTS MaxLen = 2
 MaxSize = 3
 InitSize = 2
 Pick <- PickAll
SPECIFICATION Spec
INVARIANT TypeOK NormalizeCanonical LogMatches
CONSTRAINT EmitAll
CHECK_DEADLOCK FALSE
