CONSTANTS MaxLen = 14
 MaxSize = 90
 InitSize = 5
 Pick <- PickRandom
SPECIFICATION Spec
CONSTRAINT EmitLog
CHECK_DEADLOCK FALSE
