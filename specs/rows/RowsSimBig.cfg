CONSTANTS MaxLen = 24
 MaxSize = 140
 InitSize = 70
 Pick <- PickRandom
SPECIFICATION Spec
CONSTRAINT EmitLog
CHECK_DEADLOCK FALSE
