CONSTANTS Mode = "enum1"
 Steps = 0
SPECIFICATION Spec
CONSTRAINT EmitProg
CHECK_DEADLOCK FALSE
