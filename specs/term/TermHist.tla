---------------------------- MODULE TermHist ----------------------------
(* C18: generator of loop relations over n program variables.  A relation is a list of constraints over
   <<1, x'_1..x'_n, x_1..x_n>> (inhomogeneous term first): guards mention only the unprimed variables,
   updates relate one primed variable to an affine expression of the unprimed ones.
   Mode "enum1": Init enumerates EVERY single-variable loop  `while (g1 [and g2]) x' REL c*x + d`  with the
   coefficient ranges below (model checking visits each exactly once).
   Mode "rand": every step draws a fresh one- or two-variable loop, with equalities, strict guards (NNC),
   several updates per variable (non-deterministic updates), unconstrained variables and contradictory guards. *)
EXTENDS Integers, Sequences, TLC, Json, FiniteSets
CONSTANTS Mode, Steps
RE(S) == RandomElement(S)
Mat(s) == SubSeq(s, 1, Len(s))
C(k, v) == [k |-> k, v |-> v]
\* ---- exhaustive single-variable family -------------------------------------------------
G1 == {C("ge", <<b, 0, a>>) : a \in {-1, 1}, b \in -1..2}
Upd1 == {C(IF r = "eq" THEN "eq" ELSE "ge", IF r = "le" THEN <<d, -1, c>> ELSE IF r = "ge" THEN <<-d, 1, -c>> ELSE <<d, -1, c>>) : r \in {"eq", "le", "ge"}, c \in -2..2, d \in -2..2}
Family1 == {[n |-> 1, dom |-> "C", cs |-> <<g, u>>] : g \in G1, u \in Upd1}
      \cup {[n |-> 1, dom |-> "C", cs |-> <<g, h, u>>] : g \in {x \in G1 : x.v[3] = 1}, h \in {x \in G1 : x.v[3] = -1}, u \in Upd1}
\* ---- random one- and two-variable loops -------------------------------------------------
Guard(n, strict) == C(IF strict /\ RE(1..3) = 1 THEN "gt" ELSE RE({"ge", "ge", "ge", "eq"}),
                      Mat(<<RE(-3..3)>> \o [i \in 1..n |-> 0] \o [i \in 1..n |-> RE(-2..2)]))
Update(n, i, strict) ==
  LET r == RE({"eq", "eq", "le", "ge"})  s == IF r = "ge" THEN -1 ELSE 1 IN
  C(IF r = "eq" THEN "eq" ELSE IF strict /\ RE(1..4) = 1 THEN "gt" ELSE "ge",
    Mat(<<s * RE(-3..3)>> \o [j \in 1..n |-> IF j = i THEN -s ELSE 0] \o [j \in 1..n |-> s * RE(-2..2)]))
ShapeCon(n) ==   \* a bounded-difference / octagonal constraint over any two of the 2n variables
  LET i == RE(1..(2*n))  j == RE(1..(2*n))  a == RE({-1, 1})  b == RE({-1, 0, 1}) IN
  C(RE({"ge", "ge", "eq"}), Mat(<<RE(-3..3)>> \o [k \in 1..(2*n) |-> IF k = i THEN a ELSE IF k = j THEN b ELSE 0]))
Draw(x) ==
  LET n == RE({1, 2, 2})
      dom == RE({"C", "C", "C", "NNC", "NNC", "BDS", "OCT"})
      ng == RE(0..3)
      ups == RE(SUBSET (1..n))
      nu == RE(0..1)
  IN [n |-> n, dom |-> dom,
      cs |-> IF dom \in {"BDS", "OCT"} /\ RE(1..2) = 1 THEN Mat([k \in 1..RE(1..5) |-> ShapeCon(n)])
             ELSE Mat([k \in 1..ng |-> Guard(n, dom = "NNC")]) \o Mat([k \in 1..n |-> Update(n, k, dom = "NNC")])
                  \o Mat([k \in 1..nu |-> Update(n, RE(1..n), dom = "NNC")])]
VARIABLES rel, step
Dummy == [n |-> 0, dom |-> "C", cs |-> <<>>]
Init == IF Mode = "enum1" THEN rel \in Family1 /\ step = 0 ELSE rel = Dummy /\ step = 0
Next == /\ Mode = "rand" /\ step < Steps
        /\ step' = step + 1
        /\ \E d \in {Draw(step)} : rel' = d
Spec == Init /\ [][Next]_<<rel, step>>
EmitProg == rel.n > 0 => PrintT(<<"PROG", ToJson(<<rel>>)>>)
=====================================================================
