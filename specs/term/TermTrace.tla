---------------------------- MODULE TermTrace ----------------------------
(* C18: every logged answer of the termination interface is judged against the DEFINITION of an affine ranking
   function, evaluated on the generators of the relation actually analysed (whose agreement with the relation's
   constraints is itself verified here with the double-description oracle of PolySem):
     f = mu_0 + sum mu_i x_i  is a ranking function for R  iff  on every point p of R  f(x) - f(x') > 0,
     on every ray  f(x) >= 0 and f(x) - f(x') >= 0, and on every line both vanish
   (a closed polyhedron then has a positive minimum decrease and f is bounded from below on the guard).
   Functions are <<divisor, mu_1..mu_n, mu_0>>; the conditions are invariant under positive scaling, so the
   divisor is irrelevant.  A `false' verdict on a closed relation is refuted by brute force: if some function
   with coefficients in -3..3 is a ranking function, the verdict is wrong. *)
EXTENDS NNCGens, Json, IOUtils
Tr == ndJsonDeserialize(IOEnv.TRACE)
RECURSIVE Sum(_, _, _, _, _)
Sum(mu, g, n, primed, i) == IF i = 0 THEN 0 ELSE mu[i+1] * g.v[1 + (IF primed THEN i ELSE n + i)] + Sum(mu, g, n, primed, i-1)
F(mu, g, n, primed) == mu[n+2] * g.v[1] + Sum(mu, g, n, primed, n)
Ranking(mu, V, n) ==
   \A j \in 1..Len(V) :
        LET fx == F(mu, V[j], n, FALSE)  fxp == F(mu, V[j], n, TRUE)
        IN IF V[j].k = "line" THEN fx = 0 /\ fx - fxp = 0
           ELSE IF V[j].k = "ray" THEN fx >= 0 /\ fx - fxp >= 0
           ELSE fx - fxp > 0
\* the two halves used by the quasi-ranking spaces of the MS method: decrease by >= 1, and f >= 0 on the guard
Decreasing1(mu, V, n) ==
   \A j \in 1..Len(V) :
        LET d == F(mu, V[j], n, FALSE) - F(mu, V[j], n, TRUE)
        IN IF V[j].k = "line" THEN d = 0 ELSE IF V[j].k = "ray" THEN d >= 0 ELSE d >= mu[1] * V[j].v[1]
NonNeg(mu, V, n) ==
   \A j \in 1..Len(V) :
        LET fx == F(mu, V[j], n, FALSE)
        IN IF V[j].k = "line" THEN fx = 0 ELSE fx >= 0
Small == -3..3
Cands(n) == IF n = 1 THEN {<<1, a, 0>> : a \in Small} ELSE {<<1, a, b, 0>> : a \in Small, b \in Small}
Exists(V, n) == \E mu \in Cands(n) : Ranking(mu, V, n)
\* members of a returned space to test: every point p, and p moved along every ray / line of the space
Members(S) ==
  LET P == {i \in 1..Len(S) : S[i].k = "point"}
      R == {i \in 1..Len(S) : S[i].k \in {"ray", "line"}}
      Shift(p, r, s) == [i \in 1..Len(p.v) |-> IF i = 1 THEN p.v[1] ELSE p.v[i] + s * p.v[1] * r.v[i]]
  IN {S[i].v : i \in P} \cup {Shift(S[i], S[j], 1) : i \in P, j \in R} \cup {Shift(S[i], S[j], -1) : i \in P, j \in {k \in R : S[k].k = "line"}}
FormDiffs(f, H, V, n, m, closed, tag) ==
  LET emp == ~HasPt(V)
      T(c, s) == IF c THEN {tag \o s} ELSE {}
  IN IF f.exc # "" THEN (IF f.exc = "big" THEN {} ELSE {tag \o "unexpected-exception"})
     ELSE
       T(~SameSetHV(H, V, m), "relation-generators-disagree-with-its-constraints")
  \cup T(f.ms # f.ms1 \/ f.pr # f.pr1, "test-and-one-function-verdicts-differ")
  \cup T(f.sms_empty # ~f.ms \/ f.spr_empty # ~f.pr, "space-emptiness-and-test-verdict-differ")
  \cup T(f.ms1 /\ ~Ranking(f.mu, V, n), "MS-returned-function-is-not-a-ranking-function")
  \cup T(f.pr1 /\ ~Ranking(f.mupr, V, n), "PR-returned-function-is-not-a-ranking-function")
  \cup T(\E mu \in Members(f.sms) : ~Ranking(mu, V, n), "MS-space-contains-a-non-ranking-function")
  \cup T(\E mu \in Members(f.spr) : ~Ranking(mu, V, n), "PR-space-contains-a-non-ranking-function")
  \cup T(~emp /\ \E mu \in Members(f.qd) : ~Decreasing1(mu, V, n), "quasi-decreasing-space-contains-a-non-decreasing-function")
  \cup T(~emp /\ \E mu \in Members(f.qb) : ~NonNeg(mu, V, n), "quasi-bounded-space-contains-an-unbounded-function")
  \cup T(f.sms_dim # n + 1 \/ f.spr_dim # n + 1, "space-has-wrong-dimension")
  \cup T(closed /\ f.ms # f.pr, "MS-and-PR-verdicts-differ-on-a-closed-relation")
  \cup T(closed /\ ~f.ms /\ Exists(V, n), "MS-false-but-a-ranking-function-exists")
  \cup T(closed /\ ~f.pr /\ Exists(V, n), "PR-false-but-a-ranking-function-exists")
Diffs(e) ==
  IF e.e \in {"Crash", "Hang"} THEN {"C18:" \o e.e}
  ELSE IF e.e # "Rel" \/ e.big THEN {}
  ELSE LET closed == e.dom # "NNC" IN
       FormDiffs(e.one, e.H1, e.V1, e.n, e.m, closed, "C18:one:")
  \cup FormDiffs(e.two, e.H2, e.V2, e.n, e.m, closed, "C18:two:")
  \cup (IF e.odd_thrown /\ e.mismatch_thrown THEN {} ELSE {"C14:ill-formed-relation-accepted"})
VARIABLES l, bad, ncase
Init == l = 1 /\ bad = <<>> /\ ncase = 0
Next == /\ l <= Len(Tr) + 1
        /\ IF l = Len(Tr) + 1
           THEN JsonSerialize(IOEnv.VOUT, [n |-> Len(Tr), bad |-> bad, und |-> <<>>, cases |-> ncase]) /\ UNCHANGED <<bad, ncase>>
           ELSE \E ds \in {Diffs(Tr[l])} :
                LET s == SetToSeq(ds) IN
                /\ bad' = bad \o [i \in 1..Len(s) |-> [l |-> l, op |-> "Rel", why |-> s[i]]]
                /\ ncase' = ncase + (IF Tr[l].e = "Rel" THEN 26 ELSE 0)
        /\ l' = l + 1
=====================================================================
