---------------------------- MODULE WatchTrace ----------------------------
(* C19, property-level specification (WatchdogAbs of DESIGN.md) used to validate executions of the
   real Watchdog / Weightwatch classes recorded on a virtual clock.  The state is what the property
   talks about: for every watchdog its life-cycle phase, the interval in which it was created,
   its delay, and whether/when its action ran.  Each recorded event is one action; its guards ARE
   the property:
     fire(w)  only if w is not dead (never after the destructor returned), has not fired yet
              (at most once), at least `delay` ticks after its creation started (never early),
              and not while an alive watchdog with an unambiguously earlier deadline is still
              pending (deadline order; ties within one tick are not ordered);
     idle(t)  (time passes outside any call) only while no alive, unfired watchdog is overdue by
              more than Slack ticks (promptness as safety).
   The weight-based watcher is the same with accumulated weight as time; there check() is the only
   linearisation point: exactly the alive watchers whose threshold has been reached fire during it,
   in threshold order, and nothing fires outside a check.
   Only the property is asserted -- no bookkeeping detail (timer values, list order) -- so a
   refactoring that keeps the property cannot be rejected (R2).  `sic` records whether the timer
   signal was ever delivered inside a call; it is reported with a rejection, never used to accept. *)
EXTENDS Integers, Sequences, FiniteSets, TLC, Json, IOUtils
Tr == ndJsonDeserialize(IOEnv.TRACE)
Ws == 1..4
Slack == 2
New == [st |-> "new", cstart |-> 0, cret |-> 0, d |-> 0, fired |-> 0]
VARIABLES l, wd, ww, sic, inchk, bad, lag, cs
\* lag = ticks that passed INSIDE calls so far (between the timer being read and re-armed the code cannot see them: promptness
\* is asserted up to that amount); cs = start time of the call in progress
Init == l = 1 /\ wd = [w \in Ws |-> New] /\ ww = [w \in Ws |-> New] /\ sic = FALSE /\ inchk = FALSE /\ bad = <<>> /\ lag = 0 /\ cs = 0
Rej(e, why) == Append(bad, [l |-> l, op |-> e.e, why |-> why, sic |-> sic])
Pending(x) == x.st = "alive" /\ x.fired = 0
FireWd(e) ==
  LET x == wd[e.w] IN
  IF x.st \in {"new", "dead"} THEN "C19:fired-after-death-or-before-creation"
  ELSE IF x.fired > 0 THEN "C19:fired-twice"
  ELSE IF e.t < x.cstart + x.d THEN "C19:fired-early"
  ELSE IF \E v \in Ws \ {e.w} : Pending(wd[v]) /\ wd[v].cret + wd[v].d + 1 < x.cstart + x.d THEN "C19:fired-out-of-order"
  ELSE "ok"
IdleWd(e) == IF \E v \in Ws : Pending(wd[v]) /\ e.t > wd[v].cret + wd[v].d + Slack + lag THEN "C19:not-prompt" ELSE "ok"
FireWw(e) ==
  LET x == ww[e.w] IN
  IF ~inchk THEN "C19:weight-watcher-fired-outside-check"
  ELSE IF x.st # "alive" THEN "C19:weight-watcher-fired-after-death"
  ELSE IF x.fired > 0 THEN "C19:weight-watcher-fired-twice"
  ELSE IF e.t < x.cstart + x.d THEN "C19:weight-watcher-fired-below-threshold"
  ELSE IF \E v \in Ws \ {e.w} : Pending(ww[v]) /\ ww[v].cstart + ww[v].d < x.cstart + x.d THEN "C19:weight-watcher-fired-out-of-order"
  ELSE "ok"
Step(e) ==
  IF e.e = "Reset" THEN /\ wd' = [w \in Ws |-> New] /\ ww' = [w \in Ws |-> New] /\ sic' = FALSE /\ inchk' = FALSE /\ UNCHANGED bad
  ELSE IF e.e \in {"Crash", "Hang"} THEN /\ bad' = Rej(e, "C19:" \o e.e) /\ UNCHANGED <<wd, ww, sic, inchk>>
  ELSE IF e.e = "deliver" THEN /\ sic' = (sic \/ e.incall) /\ UNCHANGED <<wd, ww, inchk, bad>>
  ELSE IF e.e \in {"yield", "settimer", "End"} THEN UNCHANGED <<wd, ww, sic, inchk, bad>>
  ELSE IF e.e = "idle" THEN \E c \in {IdleWd(e)} : /\ bad' = (IF c = "ok" THEN bad ELSE Rej(e, c)) /\ UNCHANGED <<wd, ww, sic, inchk>>
  ELSE IF e.e = "fire" /\ e.kind = "wd" THEN
       \E c \in {FireWd(e)} : /\ bad' = (IF c = "ok" THEN bad ELSE Rej(e, c))
                              /\ wd' = [wd EXCEPT ![e.w].fired = @ + 1] /\ UNCHANGED <<ww, sic, inchk>>
  ELSE IF e.e = "fire" THEN
       \E c \in {FireWw(e)} : /\ bad' = (IF c = "ok" THEN bad ELSE Rej(e, c))
                              /\ ww' = [ww EXCEPT ![e.w].fired = @ + 1] /\ UNCHANGED <<wd, sic, inchk>>
  ELSE IF e.e = "call" /\ e.kind = "wd" THEN
       /\ wd' = IF e.op = "create" /\ wd[e.w].st \in {"new", "dead"} THEN [wd EXCEPT ![e.w] = [st |-> "creating", cstart |-> e.t, cret |-> e.t, d |-> e.d, fired |-> 0]]
                ELSE IF e.op = "destroy" /\ wd[e.w].st = "alive" THEN [wd EXCEPT ![e.w].st = "dying"] ELSE wd
       /\ UNCHANGED <<ww, sic, inchk, bad>>
  ELSE IF e.e = "ret" /\ e.kind = "wd" THEN
       /\ wd' = IF e.op = "create" /\ wd[e.w].st = "creating" THEN [wd EXCEPT ![e.w].st = "alive", ![e.w].cret = e.t]
                ELSE IF e.op = "destroy" /\ wd[e.w].st = "dying" THEN [wd EXCEPT ![e.w].st = "dead"] ELSE wd
       /\ bad' = (IF e.exc \notin {"", "skipped"} THEN Rej(e, "C19:unexpected-exception") ELSE bad)
       /\ UNCHANGED <<ww, sic, inchk>>
  ELSE IF e.e = "call" THEN   \* weight watcher
       /\ ww' = IF e.op = "create" /\ ww[e.w].st \in {"new", "dead"} THEN [ww EXCEPT ![e.w] = [st |-> "creating", cstart |-> e.t, cret |-> e.t, d |-> e.d, fired |-> 0]] ELSE ww
       /\ inchk' = (e.op = "check")
       /\ UNCHANGED <<wd, sic, bad>>
  ELSE IF e.e = "ret" THEN
       \* the code fires a watcher once the weight has strictly exceeded its threshold; at equality either outcome is accepted
       LET missed == e.op = "check" /\ \E v \in Ws : Pending(ww[v]) /\ ww[v].cstart + ww[v].d < e.t IN
       /\ ww' = IF e.op = "create" /\ ww[e.w].st = "creating" THEN
                    (IF e.exc = "" THEN [ww EXCEPT ![e.w].st = "alive"] ELSE [ww EXCEPT ![e.w] = New])
                ELSE IF e.op = "destroy" /\ ww[e.w].st = "alive" THEN [ww EXCEPT ![e.w].st = "dead"] ELSE ww
       /\ inchk' = FALSE
       /\ bad' = (IF missed THEN Rej(e, "C19:weight-watcher-not-fired-at-check")
                 ELSE IF e.exc \notin {"", "skipped"} THEN Rej(e, "C19:unexpected-exception") ELSE bad)
       /\ UNCHANGED <<wd, sic>>
  ELSE UNCHANGED <<wd, ww, sic, inchk, bad>>
Lag(e) == IF e.e = "Reset" THEN lag' = 0 /\ cs' = 0
          ELSE IF e.e = "call" /\ e.kind = "wd" THEN cs' = e.t /\ lag' = lag
          ELSE IF e.e = "ret" /\ e.kind = "wd" THEN lag' = lag + (e.t - cs) /\ cs' = cs
          ELSE UNCHANGED <<lag, cs>>
Next == /\ l <= Len(Tr) + 1
        /\ IF l = Len(Tr) + 1 THEN JsonSerialize(IOEnv.VOUT, [n |-> Len(Tr), bad |-> bad, und |-> <<>>]) /\ UNCHANGED <<wd, ww, sic, inchk, bad, lag, cs>>
           ELSE Step(Tr[l]) /\ Lag(Tr[l])
        /\ l' = l + 1
=====================================================================
