------------------------------ MODULE WatchdogImpl ------------------------------
EXTENDS Integers, Sequences, FiniteSets, TLC
CONSTANTS W, Delays, MaxNow, BuggyEq
(* Time is in ticks (centiseconds). secs(t) = t \div 100 only matters for BuggyEq;
   we model BuggyEq as: deadlines compare equal iff same "second bucket" (t \div SecLen). *)
SecLen == 100
TEq(a, b) == IF BuggyEq THEN (a \div SecLen) = (b \div SecLen) ELSE a = b
Monus(a, b) == IF a >= b THEN a - b ELSE 0

(* --algorithm Wd
variables
  now = 0,              \* true (CPU) time
  timer = 0,            \* remaining time of the one-shot itimer; 0 = disarmed
  sigpending = FALSE,
  pending = <<>>,       \* sorted seq of [id, dl]
  time_so_far = 0,
  last_req = 0,
  running = FALSE,      \* alarm_clock_running
  incrit = FALSE,
  st = [zz \in W |-> "new"],     \* new / alive / dead
  expired = [zz \in W |-> FALSE],
  created = [zz \in W |-> 0],
  delay = [zz \in W |-> 0],
  firedAt = [zz \in W |-> -1],
  fireOrder = <<>>,
  nfires = [zz \in W |-> 0],
  deadAt = [zz \in W |-> -1];

define
  InsertPos(dl) == LET S == {i \in 1..Len(pending) : ~(pending[i].dl < dl)}
                   IN IF S = {} THEN Len(pending) + 1 ELSE CHOOSE i \in S : \A j \in S : i <= j
  InsertAt(s, i, e) == SubSeq(s, 1, i-1) \o <<e>> \o SubSeq(s, i, Len(s))
  RemoveId(s, zz) == SelectSeq(s, LAMBDA e : e.id # zz)
  IdxOf(zz) == CHOOSE i \in 1..Len(pending) : pending[i].id = zz
  RECURSIVE NFire(_, _, _)
  NFire(p, k, tsf) == IF k < Len(p) /\ p[k+1].dl <= tsf THEN NFire(p, k+1, tsf) ELSE k
end define;

macro set_timer(t) begin
  \* t > 0 assumed (else PPL throws internal error)
  last_req := t; timer := t;
end macro;

\* number of leading pending elements fired by one handler run (do-while)
process main = "main"
variables w = CHOOSE x \in W : TRUE, d = 0, tts = 0, cur = 0, pos = 0, nextdl = 0, firstdl = 0;
begin
M0: while TRUE do
     either
      \* ---- create ----
      with ww \in {x \in W : st[x] = "new"}, dd \in Delays do w := ww; d := dd; end with;
C1:   incrit := TRUE; delay[w] := d; st[w] := "alive";
C2:   if ~running then
        pending := InsertAt(pending, InsertPos(d), [id |-> w, dl |-> d]);
C3:     time_so_far := 0;
C4:     last_req := d; timer := d; created[w] := now;
C5:     running := TRUE;
      else
C6:     tts := timer; created[w] := now;    \* get_timer
C7:     cur := time_so_far + Monus(last_req, tts);
C8:     pending := InsertAt(pending, InsertPos(d + cur), [id |-> w, dl |-> d + cur]);
C9:     if d < tts then
          time_so_far := cur;
C10:      last_req := d; timer := d;
        end if;
      end if;
C11:  incrit := FALSE;
     or
      \* ---- destroy ----
      with ww \in {x \in W : st[x] = "alive"} do w := ww; end with;
D0:   if ~expired[w] then
D1:     incrit := TRUE;
D2:     if pending # <<>> /\ pending[1].id = w then
          if Len(pending) > 1 then
            firstdl := pending[1].dl; nextdl := pending[2].dl;
            if ~TEq(firstdl, nextdl) then
D3:           tts := timer;
D4:           time_so_far := time_so_far + Monus(last_req, tts);
D5:           last_req := tts + (nextdl - firstdl); timer := tts + (nextdl - firstdl);
            end if;
          else
D6:         timer := 0;    \* stop_timer
D7:         running := FALSE;
          end if;
        end if;
D8:     pending := RemoveId(pending, w);
D9:     incrit := FALSE;
      end if;
D10:  st[w] := "dead"; deadAt[w] := now;
     end either;
    end while;
end process;

process clock = "clock"
begin
K0: while TRUE do
      await now < MaxNow /\ ~sigpending;
      now := now + 1;
      if timer > 0 then
        timer := timer - 1;
        if timer = 0 then sigpending := TRUE; end if;
      end if;
    end while;
end process;

process sig = "sig"
begin
S0: while TRUE do
      await sigpending;
      sigpending := FALSE;
      if incrit then
        last_req := 1; timer := 1;
      else
        with tsf = time_so_far + last_req do
          time_so_far := tsf;
          if pending # <<>> then
            with k = NFire(pending, 1, tsf), ids = {pending[i].id : i \in 1..k} do
              firedAt := [x \in W |-> IF x \in ids THEN now ELSE firedAt[x]];
              nfires := [x \in W |-> IF x \in ids THEN nfires[x] + 1 ELSE nfires[x]];
              expired := [x \in W |-> IF x \in ids THEN TRUE ELSE expired[x]];
              fireOrder := fireOrder \o [i \in 1..k |-> pending[i].id];
              if k = Len(pending) then running := FALSE;
              else last_req := pending[k+1].dl - tsf; timer := pending[k+1].dl - tsf;
              end if;
              pending := SubSeq(pending, k+1, Len(pending));
            end with;
          else
            running := FALSE;
          end if;
        end with;
      end if;
    end while;
end process;
end algorithm; *)
\* BEGIN TRANSLATION (chksum(pcal) = "ebeb4ed6" /\ chksum(tla) = "63fc757a")
VARIABLES pc, now, timer, sigpending, pending, time_so_far, last_req, running, 
          incrit, st, expired, created, delay, firedAt, fireOrder, nfires, 
          deadAt

(* define statement *)
InsertPos(dl) == LET S == {i \in 1..Len(pending) : ~(pending[i].dl < dl)}
                 IN IF S = {} THEN Len(pending) + 1 ELSE CHOOSE i \in S : \A j \in S : i <= j
InsertAt(s, i, e) == SubSeq(s, 1, i-1) \o <<e>> \o SubSeq(s, i, Len(s))
RemoveId(s, zz) == SelectSeq(s, LAMBDA e : e.id # zz)
IdxOf(zz) == CHOOSE i \in 1..Len(pending) : pending[i].id = zz
RECURSIVE NFire(_, _, _)
NFire(p, k, tsf) == IF k < Len(p) /\ p[k+1].dl <= tsf THEN NFire(p, k+1, tsf) ELSE k

VARIABLES w, d, tts, cur, pos, nextdl, firstdl

vars == << pc, now, timer, sigpending, pending, time_so_far, last_req, 
           running, incrit, st, expired, created, delay, firedAt, fireOrder, 
           nfires, deadAt, w, d, tts, cur, pos, nextdl, firstdl >>

ProcSet == {"main"} \cup {"clock"} \cup {"sig"}

Init == (* Global variables *)
        /\ now = 0
        /\ timer = 0
        /\ sigpending = FALSE
        /\ pending = <<>>
        /\ time_so_far = 0
        /\ last_req = 0
        /\ running = FALSE
        /\ incrit = FALSE
        /\ st = [zz \in W |-> "new"]
        /\ expired = [zz \in W |-> FALSE]
        /\ created = [zz \in W |-> 0]
        /\ delay = [zz \in W |-> 0]
        /\ firedAt = [zz \in W |-> -1]
        /\ fireOrder = <<>>
        /\ nfires = [zz \in W |-> 0]
        /\ deadAt = [zz \in W |-> -1]
        (* Process main *)
        /\ w = CHOOSE x \in W : TRUE
        /\ d = 0
        /\ tts = 0
        /\ cur = 0
        /\ pos = 0
        /\ nextdl = 0
        /\ firstdl = 0
        /\ pc = [self \in ProcSet |-> CASE self = "main" -> "M0"
                                        [] self = "clock" -> "K0"
                                        [] self = "sig" -> "S0"]

M0 == /\ pc["main"] = "M0"
      /\ \/ /\ \E ww \in {x \in W : st[x] = "new"}:
                 \E dd \in Delays:
                   /\ w' = ww
                   /\ d' = dd
            /\ pc' = [pc EXCEPT !["main"] = "C1"]
         \/ /\ \E ww \in {x \in W : st[x] = "alive"}:
                 w' = ww
            /\ pc' = [pc EXCEPT !["main"] = "D0"]
            /\ d' = d
      /\ UNCHANGED << now, timer, sigpending, pending, time_so_far, last_req, 
                      running, incrit, st, expired, created, delay, firedAt, 
                      fireOrder, nfires, deadAt, tts, cur, pos, nextdl, 
                      firstdl >>

C1 == /\ pc["main"] = "C1"
      /\ incrit' = TRUE
      /\ delay' = [delay EXCEPT ![w] = d]
      /\ st' = [st EXCEPT ![w] = "alive"]
      /\ pc' = [pc EXCEPT !["main"] = "C2"]
      /\ UNCHANGED << now, timer, sigpending, pending, time_so_far, last_req, 
                      running, expired, created, firedAt, fireOrder, nfires, 
                      deadAt, w, d, tts, cur, pos, nextdl, firstdl >>

C2 == /\ pc["main"] = "C2"
      /\ IF ~running
            THEN /\ pending' = InsertAt(pending, InsertPos(d), [id |-> w, dl |-> d])
                 /\ pc' = [pc EXCEPT !["main"] = "C3"]
            ELSE /\ pc' = [pc EXCEPT !["main"] = "C6"]
                 /\ UNCHANGED pending
      /\ UNCHANGED << now, timer, sigpending, time_so_far, last_req, running, 
                      incrit, st, expired, created, delay, firedAt, fireOrder, 
                      nfires, deadAt, w, d, tts, cur, pos, nextdl, firstdl >>

C3 == /\ pc["main"] = "C3"
      /\ time_so_far' = 0
      /\ pc' = [pc EXCEPT !["main"] = "C4"]
      /\ UNCHANGED << now, timer, sigpending, pending, last_req, running, 
                      incrit, st, expired, created, delay, firedAt, fireOrder, 
                      nfires, deadAt, w, d, tts, cur, pos, nextdl, firstdl >>

C4 == /\ pc["main"] = "C4"
      /\ last_req' = d
      /\ timer' = d
      /\ created' = [created EXCEPT ![w] = now]
      /\ pc' = [pc EXCEPT !["main"] = "C5"]
      /\ UNCHANGED << now, sigpending, pending, time_so_far, running, incrit, 
                      st, expired, delay, firedAt, fireOrder, nfires, deadAt, 
                      w, d, tts, cur, pos, nextdl, firstdl >>

C5 == /\ pc["main"] = "C5"
      /\ running' = TRUE
      /\ pc' = [pc EXCEPT !["main"] = "C11"]
      /\ UNCHANGED << now, timer, sigpending, pending, time_so_far, last_req, 
                      incrit, st, expired, created, delay, firedAt, fireOrder, 
                      nfires, deadAt, w, d, tts, cur, pos, nextdl, firstdl >>

C6 == /\ pc["main"] = "C6"
      /\ tts' = timer
      /\ created' = [created EXCEPT ![w] = now]
      /\ pc' = [pc EXCEPT !["main"] = "C7"]
      /\ UNCHANGED << now, timer, sigpending, pending, time_so_far, last_req, 
                      running, incrit, st, expired, delay, firedAt, fireOrder, 
                      nfires, deadAt, w, d, cur, pos, nextdl, firstdl >>

C7 == /\ pc["main"] = "C7"
      /\ cur' = time_so_far + Monus(last_req, tts)
      /\ pc' = [pc EXCEPT !["main"] = "C8"]
      /\ UNCHANGED << now, timer, sigpending, pending, time_so_far, last_req, 
                      running, incrit, st, expired, created, delay, firedAt, 
                      fireOrder, nfires, deadAt, w, d, tts, pos, nextdl, 
                      firstdl >>

C8 == /\ pc["main"] = "C8"
      /\ pending' = InsertAt(pending, InsertPos(d + cur), [id |-> w, dl |-> d + cur])
      /\ pc' = [pc EXCEPT !["main"] = "C9"]
      /\ UNCHANGED << now, timer, sigpending, time_so_far, last_req, running, 
                      incrit, st, expired, created, delay, firedAt, fireOrder, 
                      nfires, deadAt, w, d, tts, cur, pos, nextdl, firstdl >>

C9 == /\ pc["main"] = "C9"
      /\ IF d < tts
            THEN /\ time_so_far' = cur
                 /\ pc' = [pc EXCEPT !["main"] = "C10"]
            ELSE /\ pc' = [pc EXCEPT !["main"] = "C11"]
                 /\ UNCHANGED time_so_far
      /\ UNCHANGED << now, timer, sigpending, pending, last_req, running, 
                      incrit, st, expired, created, delay, firedAt, fireOrder, 
                      nfires, deadAt, w, d, tts, cur, pos, nextdl, firstdl >>

C10 == /\ pc["main"] = "C10"
       /\ last_req' = d
       /\ timer' = d
       /\ pc' = [pc EXCEPT !["main"] = "C11"]
       /\ UNCHANGED << now, sigpending, pending, time_so_far, running, incrit, 
                       st, expired, created, delay, firedAt, fireOrder, nfires, 
                       deadAt, w, d, tts, cur, pos, nextdl, firstdl >>

C11 == /\ pc["main"] = "C11"
       /\ incrit' = FALSE
       /\ pc' = [pc EXCEPT !["main"] = "M0"]
       /\ UNCHANGED << now, timer, sigpending, pending, time_so_far, last_req, 
                       running, st, expired, created, delay, firedAt, 
                       fireOrder, nfires, deadAt, w, d, tts, cur, pos, nextdl, 
                       firstdl >>

D0 == /\ pc["main"] = "D0"
      /\ IF ~expired[w]
            THEN /\ pc' = [pc EXCEPT !["main"] = "D1"]
            ELSE /\ pc' = [pc EXCEPT !["main"] = "D10"]
      /\ UNCHANGED << now, timer, sigpending, pending, time_so_far, last_req, 
                      running, incrit, st, expired, created, delay, firedAt, 
                      fireOrder, nfires, deadAt, w, d, tts, cur, pos, nextdl, 
                      firstdl >>

D1 == /\ pc["main"] = "D1"
      /\ incrit' = TRUE
      /\ pc' = [pc EXCEPT !["main"] = "D2"]
      /\ UNCHANGED << now, timer, sigpending, pending, time_so_far, last_req, 
                      running, st, expired, created, delay, firedAt, fireOrder, 
                      nfires, deadAt, w, d, tts, cur, pos, nextdl, firstdl >>

D2 == /\ pc["main"] = "D2"
      /\ IF pending # <<>> /\ pending[1].id = w
            THEN /\ IF Len(pending) > 1
                       THEN /\ firstdl' = pending[1].dl
                            /\ nextdl' = pending[2].dl
                            /\ IF ~TEq(firstdl', nextdl')
                                  THEN /\ pc' = [pc EXCEPT !["main"] = "D3"]
                                  ELSE /\ pc' = [pc EXCEPT !["main"] = "D8"]
                       ELSE /\ pc' = [pc EXCEPT !["main"] = "D6"]
                            /\ UNCHANGED << nextdl, firstdl >>
            ELSE /\ pc' = [pc EXCEPT !["main"] = "D8"]
                 /\ UNCHANGED << nextdl, firstdl >>
      /\ UNCHANGED << now, timer, sigpending, pending, time_so_far, last_req, 
                      running, incrit, st, expired, created, delay, firedAt, 
                      fireOrder, nfires, deadAt, w, d, tts, cur, pos >>

D6 == /\ pc["main"] = "D6"
      /\ timer' = 0
      /\ pc' = [pc EXCEPT !["main"] = "D7"]
      /\ UNCHANGED << now, sigpending, pending, time_so_far, last_req, running, 
                      incrit, st, expired, created, delay, firedAt, fireOrder, 
                      nfires, deadAt, w, d, tts, cur, pos, nextdl, firstdl >>

D7 == /\ pc["main"] = "D7"
      /\ running' = FALSE
      /\ pc' = [pc EXCEPT !["main"] = "D8"]
      /\ UNCHANGED << now, timer, sigpending, pending, time_so_far, last_req, 
                      incrit, st, expired, created, delay, firedAt, fireOrder, 
                      nfires, deadAt, w, d, tts, cur, pos, nextdl, firstdl >>

D3 == /\ pc["main"] = "D3"
      /\ tts' = timer
      /\ pc' = [pc EXCEPT !["main"] = "D4"]
      /\ UNCHANGED << now, timer, sigpending, pending, time_so_far, last_req, 
                      running, incrit, st, expired, created, delay, firedAt, 
                      fireOrder, nfires, deadAt, w, d, cur, pos, nextdl, 
                      firstdl >>

D4 == /\ pc["main"] = "D4"
      /\ time_so_far' = time_so_far + Monus(last_req, tts)
      /\ pc' = [pc EXCEPT !["main"] = "D5"]
      /\ UNCHANGED << now, timer, sigpending, pending, last_req, running, 
                      incrit, st, expired, created, delay, firedAt, fireOrder, 
                      nfires, deadAt, w, d, tts, cur, pos, nextdl, firstdl >>

D5 == /\ pc["main"] = "D5"
      /\ last_req' = tts + (nextdl - firstdl)
      /\ timer' = tts + (nextdl - firstdl)
      /\ pc' = [pc EXCEPT !["main"] = "D8"]
      /\ UNCHANGED << now, sigpending, pending, time_so_far, running, incrit, 
                      st, expired, created, delay, firedAt, fireOrder, nfires, 
                      deadAt, w, d, tts, cur, pos, nextdl, firstdl >>

D8 == /\ pc["main"] = "D8"
      /\ pending' = RemoveId(pending, w)
      /\ pc' = [pc EXCEPT !["main"] = "D9"]
      /\ UNCHANGED << now, timer, sigpending, time_so_far, last_req, running, 
                      incrit, st, expired, created, delay, firedAt, fireOrder, 
                      nfires, deadAt, w, d, tts, cur, pos, nextdl, firstdl >>

D9 == /\ pc["main"] = "D9"
      /\ incrit' = FALSE
      /\ pc' = [pc EXCEPT !["main"] = "D10"]
      /\ UNCHANGED << now, timer, sigpending, pending, time_so_far, last_req, 
                      running, st, expired, created, delay, firedAt, fireOrder, 
                      nfires, deadAt, w, d, tts, cur, pos, nextdl, firstdl >>

D10 == /\ pc["main"] = "D10"
       /\ st' = [st EXCEPT ![w] = "dead"]
       /\ deadAt' = [deadAt EXCEPT ![w] = now]
       /\ pc' = [pc EXCEPT !["main"] = "M0"]
       /\ UNCHANGED << now, timer, sigpending, pending, time_so_far, last_req, 
                       running, incrit, expired, created, delay, firedAt, 
                       fireOrder, nfires, w, d, tts, cur, pos, nextdl, firstdl >>

main == M0 \/ C1 \/ C2 \/ C3 \/ C4 \/ C5 \/ C6 \/ C7 \/ C8 \/ C9 \/ C10
           \/ C11 \/ D0 \/ D1 \/ D2 \/ D6 \/ D7 \/ D3 \/ D4 \/ D5 \/ D8
           \/ D9 \/ D10

K0 == /\ pc["clock"] = "K0"
      /\ now < MaxNow /\ ~sigpending
      /\ now' = now + 1
      /\ IF timer > 0
            THEN /\ timer' = timer - 1
                 /\ IF timer' = 0
                       THEN /\ sigpending' = TRUE
                       ELSE /\ TRUE
                            /\ UNCHANGED sigpending
            ELSE /\ TRUE
                 /\ UNCHANGED << timer, sigpending >>
      /\ pc' = [pc EXCEPT !["clock"] = "K0"]
      /\ UNCHANGED << pending, time_so_far, last_req, running, incrit, st, 
                      expired, created, delay, firedAt, fireOrder, nfires, 
                      deadAt, w, d, tts, cur, pos, nextdl, firstdl >>

clock == K0

S0 == /\ pc["sig"] = "S0"
      /\ sigpending
      /\ sigpending' = FALSE
      /\ IF incrit
            THEN /\ last_req' = 1
                 /\ timer' = 1
                 /\ UNCHANGED << pending, time_so_far, running, expired, 
                                 firedAt, fireOrder, nfires >>
            ELSE /\ LET tsf == time_so_far + last_req IN
                      /\ time_so_far' = tsf
                      /\ IF pending # <<>>
                            THEN /\ LET k == NFire(pending, 1, tsf) IN
                                      LET ids == {pending[i].id : i \in 1..k} IN
                                        /\ firedAt' = [x \in W |-> IF x \in ids THEN now ELSE firedAt[x]]
                                        /\ nfires' = [x \in W |-> IF x \in ids THEN nfires[x] + 1 ELSE nfires[x]]
                                        /\ expired' = [x \in W |-> IF x \in ids THEN TRUE ELSE expired[x]]
                                        /\ fireOrder' = fireOrder \o [i \in 1..k |-> pending[i].id]
                                        /\ IF k = Len(pending)
                                              THEN /\ running' = FALSE
                                                   /\ UNCHANGED << timer, 
                                                                   last_req >>
                                              ELSE /\ last_req' = pending[k+1].dl - tsf
                                                   /\ timer' = pending[k+1].dl - tsf
                                                   /\ UNCHANGED running
                                        /\ pending' = SubSeq(pending, k+1, Len(pending))
                            ELSE /\ running' = FALSE
                                 /\ UNCHANGED << timer, pending, last_req, 
                                                 expired, firedAt, fireOrder, 
                                                 nfires >>
      /\ pc' = [pc EXCEPT !["sig"] = "S0"]
      /\ UNCHANGED << now, incrit, st, created, delay, deadAt, w, d, tts, cur, 
                      pos, nextdl, firstdl >>

sig == S0

Next == main \/ clock \/ sig

Spec == Init /\ [][Next]_vars

\* END TRANSLATION 
 
 

DL(x) == created[x] + delay[x]
NeverEarly == \A x \in W : firedAt[x] >= 0 => firedAt[x] >= DL(x)
AtMostOnce == \A x \in W : nfires[x] <= 1
NotAfterDeath == \A x \in W : (firedAt[x] >= 0 /\ deadAt[x] >= 0) => firedAt[x] <= deadAt[x]
InOrder == \A i \in 1..Len(fireOrder), j \in 1..Len(fireOrder) : i < j => DL(fireOrder[i]) <= DL(fireOrder[j])
\* promptness as safety: an alive, unexpired watchdog past its deadline by more than Slack, outside critical section, with no signal pending
Slack == 2
Prompt == \A x \in W : (st[x] = "alive" /\ ~expired[x] /\ ~incrit /\ ~sigpending /\ pc["main"] = "M0") => now <= DL(x) + Slack
Armed == (pending # <<>> /\ ~incrit /\ pc["main"] = "M0") => (timer > 0 \/ sigpending)
\* state constraint excluding the known design race: the timer signal becoming due while the main program is inside
\* the bookkeeping code (between the labels of a constructor / destructor)
NoSignalInsideCall == ~(sigpending /\ pc["main"] # "M0")
=============================================================================
