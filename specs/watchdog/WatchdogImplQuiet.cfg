CONSTANTS W = {1,2}
 Delays = {1,2,3}
 MaxNow = 6
 BuggyEq = FALSE
SPECIFICATION Spec
CONSTRAINT NoSignalInsideCall
INVARIANT NeverEarly
INVARIANT AtMostOnce
INVARIANT NotAfterDeath
INVARIANT Armed
INVARIANT InOrder
INVARIANT Prompt
CHECK_DEADLOCK FALSE
