CONSTANTS W = {1,2}
 Delays = {1,2,3}
 MaxNow = 6
 BuggyEq = FALSE
SPECIFICATION Spec
INVARIANT NeverEarly
CHECK_DEADLOCK FALSE
