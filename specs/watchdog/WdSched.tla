---------------------------- MODULE WdSched ----------------------------
(* Schedule generator for C19 (driver half of WatchTrace): a history is a sequence of API calls on up to
   NW time watchdogs -- create(w, delay) / destroy(w) / idle(k) -- and, for every call, how many virtual
   clock ticks pass at each successive yield point inside the call (the statement boundaries of the
   bookkeeping code) and after it returns; or a sequence of weight-watcher calls create / destroy / add /
   check.  -simulate draws random histories; with Pick <- PickAll, BFS enumerates every history of MaxCalls
   calls whose tick vectors have at most one non-zero entry (every single placement of a delay). *)
EXTENDS Integers, Sequences, TLC, Json, FiniteSets
CONSTANTS MaxCalls, NW, MaxDelay, NYield, Pick(_), Mode
VARIABLES prog, alive, kind
vars == <<prog, alive, kind>>
Init == prog = <<>> /\ alive = {} /\ kind \in (IF Mode = "both" THEN {"wd", "ww"} ELSE IF Mode = "quiet" THEN {"wd"} ELSE {Mode})
Zeros == [i \in 1..NYield |-> 0]
Mat(s) == SubSeq(s, 1, Len(s))
\* tick vectors: all zero, or exactly one / two positions delayed
OneHot == {Mat([Zeros EXCEPT ![p] = k]) : p \in 1..NYield, k \in 1..3}
TwoHot == {Mat([[Zeros EXCEPT ![p] = k] EXCEPT ![q] = 1]) : p \in 1..NYield, q \in 1..NYield, k \in 1..2}
TickVecs == {Mat(Zeros)} \cup OneHot
Emit(r) == prog' = Append(prog, r)
NextWd ==
  \/ \E w \in Pick((1..NW) \ alive) : \E d \in Pick(1..MaxDelay) : \E tv \in Pick(IF Mode = "both" THEN TickVecs \cup TwoHot ELSE IF Mode = "quiet" THEN {Mat(Zeros)} ELSE TickVecs) : \E idle \in Pick(0..3) :
       Emit([kind |-> "wd", op |-> "create", w |-> w, d |-> d, idle |-> idle, ticks |-> tv]) /\ alive' = alive \cup {w}
  \/ \E w \in Pick(alive) : \E tv \in Pick(IF Mode = "both" THEN TickVecs \cup TwoHot ELSE IF Mode = "quiet" THEN {Mat(Zeros)} ELSE TickVecs) : \E idle \in Pick(0..3) :
       Emit([kind |-> "wd", op |-> "destroy", w |-> w, d |-> 0, idle |-> idle, ticks |-> tv]) /\ alive' = alive \ {w}
  \/ \E k \in Pick(1..4) : Emit([kind |-> "wd", op |-> "idle", w |-> 0, d |-> k, idle |-> 0, ticks |-> <<>>]) /\ UNCHANGED alive
NextWw ==
  \/ \E w \in Pick((1..NW) \ alive) : \E d \in Pick(0..MaxDelay) :
       Emit([kind |-> "ww", op |-> "create", w |-> w, d |-> d, idle |-> 0, ticks |-> <<>>]) /\ alive' = alive \cup (IF d > 0 THEN {w} ELSE {})
  \/ \E w \in Pick(alive) : Emit([kind |-> "ww", op |-> "destroy", w |-> w, d |-> 0, idle |-> 0, ticks |-> <<>>]) /\ alive' = alive \ {w}
  \/ \E k \in Pick(1..3) : Emit([kind |-> "ww", op |-> "add", w |-> 0, d |-> k, idle |-> 0, ticks |-> <<>>]) /\ UNCHANGED alive
  \/ Emit([kind |-> "ww", op |-> "check", w |-> 0, d |-> 0, idle |-> 0, ticks |-> <<>>]) /\ UNCHANGED alive
Next == Len(prog) < MaxCalls /\ (IF kind = "wd" THEN NextWd ELSE NextWw) /\ UNCHANGED kind
Spec == Init /\ [][Next]_vars
EmitProg == Len(prog) = MaxCalls => PrintT(<<"PROG", ToJson(prog)>>)
PickRandom(S) == IF S = {} THEN {} ELSE {RandomElement(S)}
PickAll(S) == S
=====================================================================
