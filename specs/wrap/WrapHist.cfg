CONSTANTS Steps = 60
SPECIFICATION Spec
CONSTRAINT EmitProg
CHECK_DEADLOCK FALSE
