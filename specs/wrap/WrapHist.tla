---------------------------- MODULE WrapHist ----------------------------
(* C17: generator of cases for the integer-aware operators.  Every step draws an element of one of eight domains, built from a few
   constraints / congruences whose constants sit around the quadrant boundaries of the chosen bounded integer type (so that the
   element straddles zero, one or several wrap quadrants, is bounded or unbounded), a set of variables to wrap, the type (width 8
   or 16, signed or unsigned, the three overflow behaviours), an optional guard over the wrapped variables, a complexity threshold
   and the individual / collective flag. *)
EXTENDS Integers, Sequences, TLC, Json, FiniteSets, SequencesExt
CONSTANTS Steps
RE(S) == RandomElement(S)
Mat(s) == SubSeq(s, 1, Len(s))
K8 == {-300, -257, -256, -255, -130, -129, -128, -127, -2, -1, 0, 1, 2, 126, 127, 128, 129, 254, 255, 256, 257, 300, 383, 384, 511, 512, 513}
K16 == {-65537, -65536, -65535, -32769, -32768, -32767, -1, 0, 1, 32767, 32768, 32769, 65535, 65536, 65537, 98304}
KOf(w) == IF w = 8 THEN K8 ELSE K16
Unit(n, i, a) == [k \in 1..n |-> IF k = i THEN a ELSE 0]
\* NOTE: TLC re-evaluates a LET-bound expression at every use, so every random draw is bound exactly once as an operator argument
\* through  CHOOSE r \in {mk(draws...)} : TRUE
MkCon(n, t, i, j, c, sg, k, small) ==
  LET v == IF t <= 5 \/ n = 1 \/ i = j THEN Unit(n, i, sg)                                   \* +-x_i + c >= 0
           ELSE IF t <= 7 THEN [q \in 1..n |-> IF q = i THEN 1 ELSE IF q = j THEN -1 ELSE 0]   \* x_i - x_j + c
           ELSE [q \in 1..n |-> IF q = i THEN 1 ELSE IF q = j THEN 1 ELSE 0]                   \* x_i + x_j + c
  IN [k |-> k, v |-> Mat(<<IF small # 0 THEN small ELSE c>> \o v)]
Con(n, w) == CHOOSE r \in {MkCon(n, t, i, j, c, sg, k, small) : t \in {RE(1..9)}, i \in {RE(1..n)}, j \in {RE(1..n)}, c \in {RE(KOf(w)) + RE({0, 0, 0, 1, -1})},
                                                               sg \in {RE({-1, 1})}, k \in {RE({"ge", "ge", "ge", "ge", "eq"})}, small \in {RE({0, 0, 0, 0, 0, 0, -3, 2, 5})}} : TRUE
\* constraints with small constants and non-unit coefficients, strict ones included: the cases that exercise the rounding of
\* drop_some_non_integer_points (a x + b y + c > 0 with gcd(a, b) > 1) rather than the quadrant logic of wrap_assign
MkSmall(n, i, j, a, b, c, k) == [k |-> k, v |-> Mat(<<c>> \o [q \in 1..n |-> IF q = i THEN a ELSE IF q = j THEN b ELSE 0])]
SmallCon(n) == CHOOSE r \in {MkSmall(n, i, j, a, b, c, k) : i \in {RE(1..n)}, j \in {RE(1..n)}, a \in {RE({1, 2, 2, 3, -1, -2, -2, -3})}, b \in {RE({0, 0, 2, -2, 3, 1})},
                                                          c \in {RE(-7..7)}, k \in {RE({"ge", "gt", "gt", "gt", "eq"})}} : TRUE
Cg(n, w) == CHOOSE r \in {[mod |-> md, v |-> Mat(<<b>> \o Unit(n, i, a))] : md \in {RE({0, 1, 2, 3, 4, 64, 256})}, b \in {RE(-5..5)}, i \in {RE(1..n)}, a \in {RE({1, 1, 2})}} : TRUE
Guard(n, vars, w) == CHOOSE r \in {[k |-> k, v |-> Mat(<<c>> \o Unit(n, i + 1, sg))] : k \in {RE({"ge", "ge", "gt", "eq"})}, c \in {RE(KOf(w)) * RE({1, -1})}, i \in {RE(vars)}, sg \in {RE({-1, 1})}} : TRUE
MkCase(n, dom, w, vars, hg, ncs, ncg, ng, sm) ==
     [dom |-> dom, n |-> n, w |-> w, rep |-> RE({0, 1}), ovf |-> RE({0, 0, 1, 2}),
      cs |-> Mat([k \in 1..ncs |-> IF sm = 1 THEN SmallCon(n) ELSE Con(n, w)]),
      cgs |-> Mat([k \in 1..ncg |-> Cg(n, w)]),
      vars |-> SetToSortSeq(vars, <), hg |-> hg, guard |-> IF hg = 1 THEN Mat([k \in 1..ng |-> Guard(n, vars, w)]) ELSE <<>>,
      thr |-> RE({0, 1, 4, 16, 32}), indiv |-> RE({0, 1}), cx |-> RE({0, 1})]
Draw(x) == CHOOSE r \in {MkCase(n, dom, w, vars, hg, ncs, IF dom = "Grid" THEN ncg ELSE ncg \div 2, ng, sm) :
                          n \in {RE({1, 2, 2})}, dom \in {RE({"C", "C", "NNC", "Grid", "Grid", "Box", "BDS", "Oct", "PsetC", "PsetN"})}, w \in {RE({8, 8, 8, 16})},
                          vars \in {RE({{0}, {0}, {1}, {0, 1}})}, hg \in {RE({0, 0, 1})}, ncs \in {RE(0..4)}, ncg \in {RE(0..2)}, ng \in {RE(0..2)}, sm \in {RE({0, 0, 1})}} : TRUE
VARIABLES cas, step
Dummy == [dom |-> "", n |-> 0]
Init == cas = Dummy /\ step = 0
Next == /\ step < Steps /\ step' = step + 1
        /\ \E d \in {Draw(step)} : cas' = IF \A i \in 1..Len(d.vars) : d.vars[i] < d.n THEN d ELSE [d EXCEPT !.n = 2]
Spec == Init /\ [][Next]_<<cas, step>>
EmitProg == cas.n > 0 => PrintT(<<"PROG", ToJson(<<cas>>)>>)
=====================================================================
