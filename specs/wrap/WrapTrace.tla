---------------------------- MODULE WrapTrace ----------------------------
(* C17: the integer-aware operators never discard an integer point of the concrete semantics.  Judged POINTWISE: the logged argument
   and results are lists of parts (constraints + congruences; a powerset has one part per disjunct), membership of a sample point is
   decided by evaluating them.  The sample lattice is built from the quadrant boundaries of the bounded integer type, so that points
   in several wrap quadrants, on both sides of every boundary, are tried.
     wrap_assign, OVERFLOW_WRAPS:      for every integer sample p of the argument, the point obtained by wrapping the chosen
                                        coordinates to the type must be in the result whenever it satisfies the guard;
     OVERFLOW_UNDEFINED:                every re-assignment of the out-of-range coordinates by in-range values (guard permitting);
     OVERFLOW_IMPOSSIBLE:               p itself when all the chosen coordinates are in range (guard permitting);
     drop_some_non_integer_points:      the result is a subset of the argument and keeps every sample with integer values on the
                                        chosen dimensions;
     contains_integer_point:            `false' is refuted by an integer sample of the argument.
   Every rejection carries the witness point. *)
EXTENDS Integers, Sequences, FiniteSets, TLC, Json, IOUtils, SequencesExt
Tr == ndJsonDeserialize(IOEnv.TRACE)
Dot(u, v) == LET RECURSIVE D(_)
                 D(i) == IF i = 0 THEN 0 ELSE u[i] * v[i] + D(i-1)
             IN D(IF Len(u) < Len(v) THEN Len(u) ELSE Len(v))
Pad(v, m) == [i \in 1..m |-> IF i <= Len(v) THEN v[i] ELSE 0]
SatC(c, p) == LET x == Dot(Pad(c.v, Len(p)), p) IN IF c.k = "eq" THEN x = 0 ELSE IF c.k = "gt" THEN x > 0 ELSE x >= 0
SatG(g, p) == LET x == Dot(Pad(g.v, Len(p)), p) IN IF g.mod = 0 THEN x = 0 ELSE x % (g.mod * p[1]) = 0
InPart(t, p) == (\A i \in 1..Len(t.cs) : SatC(t.cs[i], p)) /\ (\A i \in 1..Len(t.cgs) : SatG(t.cgs[i], p))
In(parts, p) == \E i \in 1..Len(parts) : InPart(parts[i], p)
S8 == {-300, -257, -256, -255, -200, -130, -129, -128, -127, -100, -3, -2, -1, 0, 1, 2, 3, 5, 100, 126, 127, 128, 129, 200, 254, 255, 256, 257, 258, 300, 383, 384, 385, 511, 512, 513}
S16 == {-65537, -65536, -65535, -40000, -32769, -32768, -32767, -2, -1, 0, 1, 2, 5, 32766, 32767, 32768, 32769, 40000, 65535, 65536, 65537, 98303, 98304, 98305}
SOf(w) == IF w = 8 THEN S8 ELSE S16
Pow2(w) == IF w = 8 THEN 256 ELSE 65536
Lo(w, rep) == IF rep = 1 THEN -(Pow2(w) \div 2) ELSE 0
Hi(w, rep) == Lo(w, rep) + Pow2(w) - 1
Wr(x, w, rep) == ((x - Lo(w, rep)) % Pow2(w)) + Lo(w, rep)
InRange(x, w, rep) == x >= Lo(w, rep) /\ x <= Hi(w, rep)
IntPts(n, w) == IF n = 1 THEN {<<1, a>> : a \in SOf(w)} ELSE {<<1, a, b>> : a \in SOf(w), b \in SOf(w)}
HalfPts(n, w) == LET O == {-3, -1, 1, 3, 255, 257, 511, 513, -255, -257} IN
                 IF n = 1 THEN {<<2, a>> : a \in O} ELSE {<<2, a, b>> : a \in O \cup {0, 2, 256, 512}, b \in O \cup {0, 2, 256}}
VarsOf(e) == {e.vars[i] : i \in 1..Len(e.vars)}
GuardOK(e, q) == ~e.has_guard \/ \A i \in 1..Len(e.guard) : SatC(e.guard[i], q)
Wrapped(e, p) == [i \in 1..Len(p) |-> IF i >= 2 /\ (i - 2) \in VarsOf(e) THEN Wr(p[i], e.w, e.rep) ELSE p[i]]
\* all the points obtained from p by giving an in-range sample value to each chosen coordinate that is out of range
Reassigned(e, p) ==
  LET rg == {x \in SOf(e.w) : InRange(x, e.w, e.rep)}
      opts(i) == IF i >= 2 /\ (i - 2) \in VarsOf(e) /\ ~InRange(p[i], e.w, e.rep) THEN rg ELSE {p[i]}
  IN IF Len(p) = 2 THEN {<<1, a>> : a \in opts(2)} ELSE {<<1, a, b>> : a \in opts(2), b \in opts(3)}
Targets(e, p) == IF e.ovf = 0 THEN {Wrapped(e, p)}
                 ELSE IF e.ovf = 1 THEN Reassigned(e, p)
                 ELSE IF \A v \in VarsOf(e) : InRange(p[v + 2], e.w, e.rep) THEN {p} ELSE {}
Pick(S) == IF S = {} THEN <<>> ELSE CHOOSE x \in S : TRUE
\* a witness with integer coordinates is preferred (the known defect of the grid partition only loses non-integral points)
PickI(S) == LET I == {p \in S : p[1] = 1} IN IF I # {} THEN Pick(I) ELSE Pick(S)
Diffs(e) ==
  IF e.e \in {"Crash", "Hang"} THEN {<<"C17:" \o e.e, <<>>>>}
  ELSE IF e.e # "Case" \/ e.big THEN {}
  ELSE
  LET A == {p \in IntPts(e.n, e.w) : In(e.arg, p)}
      lostW == {q \in UNION {Targets(e, p) : p \in A} : GuardOK(e, q) /\ ~In(e.wrapped, q)}
      allp == IntPts(e.n, e.w) \cup HalfPts(e.n, e.w)
      vars == IF e.dall THEN 0..(e.n - 1) ELSE VarsOf(e)
      lostD == {p \in allp : In(e.arg, p) /\ (\A v \in vars : p[v + 2] % p[1] = 0) /\ ~In(e.dropped, p)}
      gainD == {p \in allp : In(e.dropped, p) /\ ~In(e.arg, p)}
  IN (IF e.wexc # "" THEN {<<"C17:wrap_assign-unexpected-exception", <<>>>>} ELSE IF lostW = {} THEN {} ELSE {<<"C17:wrap_assign-discards-an-integer-point", Pick(lostW)>>})
  \cup (IF e.wexc = "" /\ ~e.wok THEN {<<"C17:wrap_assign-breaks-the-invariant-OK()", <<>>>>} ELSE {})
  \cup (IF e.dexc # "" THEN {<<"C17:drop_some_non_integer_points-unexpected-exception", <<>>>>}
        ELSE IF lostD # {} THEN {<<"C17:drop_some_non_integer_points-discards-an-integer-point", Pick(lostD)>>}
        ELSE IF gainD # {} THEN {<<"C17:drop_some_non_integer_points-is-not-a-subset", Pick(gainD)>>} ELSE {})
  \cup (IF e.cexc = "" /\ ~e.cip /\ A # {} THEN {<<"C17:contains_integer_point-false-refuted-by-a-point", Pick(A)>>} ELSE {})
(* ---- C09 on powersets of grids: covering laws (events "GCover" of harness/wrap.cc in mode gcover).  X is a powerset of up to three grids,
   Xr the same disjuncts in reverse order, Y its first disjunct alone, Xo / Xp its omega- / pairwise-reduced copies, D = X \ Y, M = X meet Xr.
   Equal unions must be recognised whatever the order of the disjuncts; a claimed covering is refuted by a sample point. *)
GDiffs(e) ==
  IF e.big THEN {}
  ELSE
  LET allp == IntPts(e.n, e.w) \cup HalfPts(e.n, e.w)
      law(b, name) == IF b THEN {} ELSE {<<"C09:grid-powerset:" \o name, <<>>>>}
      inXnotY == {p \in allp : In(e.X, p) /\ ~In(e.Y, p)}
      lostO == {p \in allp : In(e.X, p) /\ ~In(e.Xo, p)}   gainO == {p \in allp : In(e.Xo, p) /\ ~In(e.X, p)}
      lostP == {p \in allp : In(e.X, p) /\ ~In(e.Xp, p)}
      lostD == {p \in allp : In(e.X, p) /\ ~In(e.Y, p) /\ ~In(e.D, p)}   gainD == {p \in allp : In(e.D, p) /\ ~In(e.X, p)}
      lostM == {p \in allp : In(e.X, p) /\ ~In(e.M, p)}   gainM == {p \in allp : In(e.M, p) /\ ~In(e.X, p)}
  IN law(e.refl_covers, "X-does-not-cover-itself") \cup law(e.refl_equals, "X-not-geometrically-equal-to-itself")
     \cup law(e.rev_covers, "covering-depends-on-the-order-of-the-disjuncts") \cup law(e.covers_rev, "covering-depends-on-the-order-of-the-disjuncts")
     \cup law(e.rev_equals, "geometric-equality-depends-on-the-order-of-the-disjuncts")
     \cup law(e.x_covers_y, "X-does-not-cover-its-own-first-disjunct") \cup law(e.omega_equals, "omega-reduced-copy-not-geometrically-equal")
     \cup law(e.pairwise_covers, "pairwise-reduced-copy-does-not-cover-the-original")
     \cup law(e.entails_rev, "X-does-not-entail-its-reordering") \cup law(e.contains_y, "X-does-not-contain-its-own-first-disjunct")
     \cup (IF e.y_covers_x /\ inXnotY # {} THEN {<<"C09:grid-powerset:covering-claimed-but-a-point-is-not-covered", PickI(inXnotY)>>} ELSE {})
     \cup (IF lostO # {} THEN {<<"C09:grid-powerset:omega_reduce-loses-a-point", Pick(lostO)>>} ELSE IF gainO # {} THEN {<<"C09:grid-powerset:omega_reduce-adds-a-point", Pick(gainO)>>} ELSE {})
     \cup (IF lostP # {} THEN {<<"C09:grid-powerset:pairwise_reduce-loses-a-point", Pick(lostP)>>} ELSE {})
     \cup (IF lostD # {} THEN {<<"C09:grid-powerset:difference-loses-a-point", PickI(lostD)>>} ELSE IF gainD # {} THEN {<<"C09:grid-powerset:difference-adds-a-point-outside-X", Pick(gainD)>>} ELSE {})
     \cup (IF lostM # {} THEN {<<"C09:grid-powerset:meet-with-itself-loses-a-point", Pick(lostM)>>} ELSE IF gainM # {} THEN {<<"C09:grid-powerset:meet-adds-a-point", Pick(gainM)>>} ELSE {})
VARIABLES l, bad, ncase
Init == l = 1 /\ bad = <<>> /\ ncase = 0
Next == /\ l <= Len(Tr) + 1
        /\ IF l = Len(Tr) + 1
           THEN JsonSerialize(IOEnv.VOUT, [n |-> Len(Tr), bad |-> bad, und |-> <<>>, cases |-> ncase]) /\ UNCHANGED <<bad, ncase>>
           ELSE \E ds \in {IF Tr[l].e = "GCover" THEN GDiffs(Tr[l]) ELSE Diffs(Tr[l])} :
                LET s == SetToSeq(ds) IN
                /\ bad' = bad \o [i \in 1..Len(s) |-> [l |-> l, op |-> "Case", why |-> s[i][1], pt |-> s[i][2]]]
                /\ ncase' = ncase + (IF Tr[l].e = "Case" THEN 3 ELSE IF Tr[l].e = "GCover" THEN 12 ELSE 0)
        /\ l' = l + 1
=====================================================================
