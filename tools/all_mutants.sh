#!/bin/bash
# usage: tools/all_mutants.sh [tier] [parallel]  -- runs every seeded change (scratch copies, tools/trymut2.sh) against the check of its property
T=${1:-quick}; P=${2:-4}
mkdir -p /var/tmp/allmut; rm -f /var/tmp/allmut/*.out
for d in /verif/seeded/*/; do n=$(basename $d); p=$(python3 -c "import json; m=json.load(open('$d/meta.json')); print('C09' if '$n'=='C13-2' else m['property'])"); echo "$n $p"; done |
 xargs -P $P -L1 sh -c 'JOBS=4 TMO=3000 /verif/tools/trymut2.sh /verif/seeded/$0 $1 '$T' > /var/tmp/allmut/$0.out 2>&1'
for f in /var/tmp/allmut/*.out; do echo "$(basename $f .out): $(head -1 $f | sed "s/.*scratch copy): //")"; done
