#!/usr/bin/env python3
# Maintenance aid (never run by a registered command): rebuild the input lists of the C07 known findings from a collection file
# produced on the UNCHANGED tree with  VERIF_COLLECT=<file> bin/vcheck run C07 --tier thorough  (default seed).
import json, sys, collections
coll = sys.argv[1]
keys = collections.defaultdict(set)
for l in open(coll):
    w, s, k = json.loads(l)
    keys[(w, s)].add(k)
p = '/verif/known_findings.json'
kf = json.load(open(p))
kept = []
for f in kf['findings']:
    if f['id'].startswith('F-C07'):
        m = f['match']
        ks = keys.get((m['why'], m['shape']))
        if not ks:
            continue            # this kind does not occur on the unchanged tree: not a known finding
        m['input'] = sorted(ks)
        if 'listed by input' not in f['what']:
            f['what'] += " -- listed by input: %d failing solves of the default-seed runs (sha1 of the problem data, strategy and step); any other failing input is reported" % len(ks)
    kept.append(f)
kf['findings'] = kept
json.dump(kf, open(p, 'w'), indent=1)
print("updated", sum(len(v) for v in keys.values()), "inputs")
