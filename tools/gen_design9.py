#!/usr/bin/env python3
# Regenerates section 9 of DESIGN.md: static text from tools/design9_{head,mid,tail}.md, tables from known_findings.json and seeded/*/meta.json.
import json, glob, os
V = os.path.dirname(os.path.dirname(os.path.abspath(__file__)))
k = json.load(open(os.path.join(V, 'known_findings.json')))
fx = [f for f in k['findings'] if f['status'] == 'fixed']; kn = [f for f in k['findings'] if f['status'] == 'known']
def short(s, n=230):
    s = s.replace('\n', ' ')
    if s.startswith('fixed: property='): s = s.split(' ', 3)[3]
    return (s if len(s) <= n else s[:n - 3] + '...').replace('|', '\\|')
out = [open(os.path.join(V, 'tools/design9_head.md')).read()]
out.append("**Repaired in /repo by `fix:` commits (%d), recorded as `fixed` in `known_findings.json`:**\n" % len(fx))
out.append("| commit | property | what failed |\n|---|---|---|")
for f in fx: out.append("| %s | %s | %s |" % (f.get('commit'), f['property'], short(f['what'])))
out.append("\n**Recorded as known findings (%d), not repaired — each with the reason in the file:**\n" % len(kn))
out.append("| id | property | what fails |\n|---|---|---|")
for f in kn: out.append("| %s | %s | %s |" % (f['id'], f['property'], short(f['what'], 260)))
out.append(open(os.path.join(V, 'tools/design9_mid.md')).read())
out.append("| seeded | property | change | detected by |\n|---|---|---|---|")
for d in sorted(glob.glob(os.path.join(V, 'seeded/*/meta.json'))):
    m = json.load(open(d)); out.append("| %s | %s | %s | %s |" % (os.path.basename(os.path.dirname(d)), m.get('property'), short(m.get('change', ''), 200), short(m.get('detection', '') + (' — FINAL TREE: ' + m['detection_final_tree'] if m.get('detection_final_tree') else ''), 520)))
out.append(open(os.path.join(V, 'tools/design9_tail.md')).read())
sec = "\n".join(out)
p = os.path.join(V, 'DESIGN.md'); s = open(p).read()
i = s.index('\n--------------------------------------------------------------------------\n\n## 9. As built'); j = s.index('--------------------------------------------------------------------------\n\n## Appendix A.')
open(p, 'w').write(s[:i] + sec.rstrip('\n') + '\n\n' + s[j:])
print("section 9 regenerated: %d fixed, %d known" % (len(fx), len(kn)))
