#!/bin/bash
# usage: tools/run_all.sh <quick|thorough> [lanes] [timeout-per-check-seconds]   -- runs every check of MANIFEST.json, <lanes> at a time,
# each with its share of the cores; prints one line per check (exit code, VIOLATION lines, last line of output); logs in /var/tmp/runall-<tier>/.
T=${1:-quick}; L=${2:-2}; TMO=${3:-7200}
D=/var/tmp/runall-$T${TAG:-}; mkdir -p $D; rm -f $D/*.log $D/summary.txt
J=${LANEJOBS:-$(( $(nproc) / L ))}; [ $J -lt 2 ] && J=2
cd /verif
ls specs >/dev/null
for p in ${LIST:-C16 C19 C11 C12 C18 C07 C06 C05 C17 C20 C14 C01 C02 C13 C15 C10 C09 C08 C04 C03}; do echo $p; done |
 xargs -P $L -I{} sh -c "s=\$(date +%s); VERIF_JOBS=$J timeout $TMO bin/vcheck run {} --tier $T > $D/{}.log 2>&1; rc=\$?; echo \"{} $T rc=\$rc secs=\$(( \$(date +%s) - s )) viol=\$(grep -c '^VIOLATION' $D/{}.log) \$(tail -1 $D/{}.log | cut -c1-150)\" >> $D/summary.txt"
sort $D/summary.txt
