#!/usr/bin/env python3
# debugging aid: run one hand-written polyhedron program (JSON list of partial op dicts) through harness + PolyTrace
import sys, json, os, subprocess
sys.path.insert(0, '/verif')
from vlib import core, polylib, tracelib
D0 = dict(op="", dst=1, src=0, n=0, topo="C", k="x", var=0, den=1, mod=0, v=[], w=[], vs=[], cs=[], gs=[])
prog = [dict(D0, **o) for o in json.load(open(sys.argv[1]))]
run = core.Run("DBG", "quick", 1)
lib = core.build_lib(); exe = core.build_harness("poly", ["poly.cc"], lib)
ex = tracelib.execute(run, exe, [prog], polylib.flat, args=["20"])
for l in ex[0][1]:
    j = json.loads(l)
    if j["e"] == "Op": print(j["op"], "exc=", j["exc"], "rb=", j["rb"], [(p["H"], p["V"]) if p["alive"] else None for p in j["post"]], "twin", j["twin"]["alive"])
    else: print(j)
rej, und, nev, failed = tracelib.validate(run, polylib.SPEC, "PolyTrace", os.path.join(polylib.SPEC, "PolyTrace.cfg"), ex)
print("rejections:", [(r["op"], r["why"]) for r in rej], "und", und, "failed", failed)
