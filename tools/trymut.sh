#!/bin/bash
# usage: trymut.sh <seeded dir> <property> [tier]   -- apply the seeded patch to /repo, run the property's check, undo the patch
D=$1; P=$2; T=${3:-quick}
cd /repo && git apply $D/patch.diff || { echo "patch does not apply"; exit 2; }
cd /verif && timeout 3000 bin/vcheck run $P --tier $T > /tmp/trymut-$P.log 2>&1; rc=$?
git -C /repo checkout -- . 
echo "== $D on $P ($T): exit=$rc; $(grep -c '^VIOLATION' /tmp/trymut-$P.log) VIOLATION lines"
grep "signature" /tmp/trymut-$P.log | sed 's/.*signature: //' | sort | uniq -c | sort -rn | head -8
tail -1 /tmp/trymut-$P.log
