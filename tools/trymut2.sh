#!/bin/bash
# usage: trymut2.sh <seeded dir> <property> [tier]   -- like trymut.sh, but on a scratch copy of /repo (VERIF_REPO) with its own output
# directories, so that it can run while registered checks are running on /repo.  The copy is removed afterwards.
D=$1; P=$2; T=${3:-quick}
C=/tmp/mut/repo-$P-$$; O=/tmp/mut/vout-$P-$$
mkdir -p $C $O/out $O/evidence
rsync -a --exclude '*.o' --exclude '*.lo' --exclude '*.la' --exclude '.libs' --exclude '.deps' --exclude 'tests' --exclude 'doc' --exclude 'demos' --exclude '.git' --exclude 'Watchdog/tests' /repo/ $C/
(cd $C && patch -p1 -s < $D/patch.diff) || { echo "patch does not apply"; rm -rf $C $O; exit 2; }
cd /verif && VERIF_REPO=$C VERIF_OUT=$O/out VERIF_EVID=$O/evidence VERIF_JOBS=${JOBS:-5} timeout ${TMO:-9000} bin/vcheck run $P --tier $T > /tmp/trymut2-$(basename $D)-$P-$T.log 2>&1; rc=$?
echo "== $D on $P ($T, scratch copy): exit=$rc; $(grep -c '^VIOLATION' /tmp/trymut2-$(basename $D)-$P-$T.log) VIOLATION lines"
grep "signature" /tmp/trymut2-$(basename $D)-$P-$T.log | sed 's/.*signature: //' | sort | uniq -c | sort -rn | head -8
tail -1 /tmp/trymut2-$(basename $D)-$P-$T.log
[ -n "$KEEP" ] && { rm -rf $C; echo "kept $O"; } || rm -rf $C $O
