#!/usr/bin/env python3
# summarise out/<prop>/violation-*.json by signature; show one example per signature
import json, glob, sys, collections
prop = sys.argv[1]; nshow = int(sys.argv[2]) if len(sys.argv) > 2 else 1
c = collections.Counter(); ex = collections.defaultdict(list)
for f in sorted(glob.glob('/verif/out/%s/violation-*.json' % prop)):
    v = json.load(open(f)); k = json.dumps({a: b for a, b in v['signature'].items() if a != 'topo'}, sort_keys=True); c[k] += 1; ex[k].append(v)
for k, n in c.most_common():
    print(n, k)
    for v in ex[k][:nshow]:
        d = v['detail']; ev = d.get('event')
        if ev and ev.get('e') == 'Op':
            pre = None
            print('   event:', {a: ev[a] for a in ('op', 'dst', 'src', 'argn', 'topo', 'k', 'var', 'den', 'mod', 'v', 'w', 'vs', 'cs', 'gs', 'rb', 'ri', 'rr', 'rc', 'exc', 'obs') if ev.get(a) not in ([], '', None)})
            for i, p in enumerate(ev['post']):
                if p['alive']: print('   post[%d]: n=%d %s H=%s V=%s st=%s' % (i + 1, p['n'], p['topo'], [(r['k'], r['v']) for r in p['H']], [(r['k'], r['v']) for r in p['V']], p.get('st', '')))
            # previous state of dst: look back in program events? print program prefix
            idx = d['event_index']
        print('   program:', [(o['op'], o['dst'], o['src']) for o in d['program']][:d['event_index'] + 1][-6:])
