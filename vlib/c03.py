# C03 — box, BD-shape and octagon results contain the exact result, for every coefficient type.
from . import shapelib
LEVEL = "model_checking"
QUICK = [("box", "mpq"), ("box", "i8"), ("box", "dbl"), ("bds", "mpq"), ("bds", "mpz"), ("bds", "i8"), ("bds", "flt"), ("oct", "mpq"), ("oct", "i16"), ("oct", "dbl")]


def check(run):
    q = run.quick()
    run.cov["rule"] = ("the same TLC-generated histories (specs/poly/PolyHist.tla in shape mode) are executed on every instantiation: boxes, BD shapes and octagons "
                       "over mpq, mpz, int8..int64, float, double, long double (quick: ten representative instantiations); specs/poly/ShapeTrace.tla computes "
                       "the exact result of each call on the denoted point sets and requires every generator of it to satisfy every constraint of the logged "
                       "result (big coefficients compared exactly with BigInt), and definite answers to be true; distinct = distinct (domain, type, operation, "
                       "big-row flag, exception flag) classes")
    combos = QUICK if q else [(d, t) for d in ("box", "bds", "oct") for t in shapelib.TYPES]
    plans = []
    for dom, ty in combos:
        plans.append(dict(dom=dom, ty=ty, maxlen=9, maxdim=2, ill=0, coef=3, num=(160 if q else 700), recipe=True))
        plans.append(dict(dom=dom, ty=ty, maxlen=10, maxdim=3, ill=3, coef=3, num=(80 if q else 350)))
    # transformer-focused recipes (the deduction rules of the relational transformers need bounded operands and fractional coefficients)
    for dom, ty in ([("oct", "mpq"), ("bds", "mpq"), ("box", "mpq"), ("oct", "i16"), ("bds", "flt")] if q else combos):
        plans.append(dict(dom=dom, ty=ty, maxlen=9, maxdim=2, ill=0, coef=3, num=((3000 if (dom, ty) == ("oct", "mpq") else 900) if q else 1500), recipe=True, opset=shapelib.IMG_OPS + (shapelib.CTOR_BASE if q else shapelib.IMG_BASE)))
    shapelib.run_shapes(run, "C03", plans)
    run.assumptions += ["an element with a coefficient beyond 10^5 can be judged as a result (exact BigInt comparison) but not serve as an argument of a later call (undecided)",
                        "calls involving proper congruences are undecided (the result is not a polyhedral set); conversions from grids are not covered",
                        "interval-constraint export and refinement with floating-point linear forms are not covered"]


def replay(v):
    return 2
