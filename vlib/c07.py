# C07 — PIP solver: the tree yields the lexicographic minimum for every parameter value.
import os, json, subprocess, time, collections
from . import core, tracelib
LEVEL = "model_checking"
SPEC = os.path.join(core.SPECS, "pip")


def check(run):
    q = run.quick()
    lib = core.build_lib()
    exe = core.build_harness("pip", ["pip.cc"], lib)
    run.cov["rule"] = ("seeded random problems (1-2 variables, 1-2 parameters, 1-3 constraints incl. equalities and strict inequalities, |coeff| <= 2), "
                       "all 3x2 cutting / pivoting strategies, each solved fresh and then after 0-2 incremental steps (new constraint, new variable, "
                       "new parameter); every logged tree is evaluated by specs/pip/PipTrace.tla on all parameter valuations in 0..4 and compared "
                       "with the brute-force lexicographic minimum in 0..7; distinct = distinct (variables, parameters, strategy, step, status) classes")
    import hashlib
    for profile, n in ((0, 1500 if q else 20000), (1, 2500 if q else 24000)):
        t0 = time.time()
        r = subprocess.run(["timeout", "2500", exe, str(n), str(run.seed), str(profile)], stdout=subprocess.PIPE)
        if r.returncode != 0:
            run.fatal("pip harness failed")
        lines = r.stdout.decode().splitlines()
        t1 = time.time()
        bad, tot, failed = tracelib.validate_lines(run, os.path.join(SPEC, "PipTrace.tla"), os.path.join(SPEC, "PipTrace.cfg"), lines,
                                                   nchunks=max(1, len(lines) // (150 if profile == 0 else 40)), timeout=1800)
        run.cov["evaluations"] += len(lines)
        run.cov["traces_validated_against_impl"] += tot.get("lines", 0)
        run.cov["undecided"] += len(failed)
        first = {}
        for l in lines:
            j = json.loads(l)
            run.distinct.add((len(j["vars"]), len(j["pars"]), j["cut"], j["piv"], min(j["step"], 2), j["status"]))
            if j["step"] == 0:
                first[j["id"]] = j["cs"]
        core.log("pip profile %d: %d solves (gen+solve %.1fs, validate %.1fs), %d rejected verdicts, %d tlc-failed" % (profile, len(lines), t1 - t0, time.time() - t1, len(bad), len(failed)))
        if lines:
            j = json.loads(lines[len(lines) // 2])
            run.sample({"vars": j["vars"], "pars": j["pars"], "constraints": j["cs"], "status": j["status"], "tree": j["tree"]}, cap=3)
        # a failing solve is identified by its input: the problem data at that step, the strategy, and (for a re-solve) the data first solved
        groups = collections.OrderedDict()
        seen = set()
        for b in bad:
            j = json.loads(lines[b["line"]])
            shape = "fresh-problem" if j["step"] == 0 else "after-incremental-modification"
            key = hashlib.sha1(json.dumps([j["vars"], j["pars"], j["cs"], j["cut"], j["piv"], j["step"], first.get(j["id"]) if j["step"] else None], sort_keys=True).encode()).hexdigest()[:12]
            wit = {"vars": j["vars"], "pars": j["pars"], "constraints": [(c["k"], c["v"]) for c in j["cs"]], "cut": j["cut"], "piv": j["piv"],
                   "step": j["step"], "parameter_values": b["pv"], "point": b["x"], "status": j["status"], "input": key}
            groups.setdefault((b["why"], shape), []).append(wit)
            if (b["why"], key) not in seen:
                seen.add((b["why"], key))
                if os.environ.get("VERIF_COLLECT"):      # maintenance aid (tools/c07_known.py): never used by the registered commands
                    open(os.environ["VERIF_COLLECT"], "a").write(json.dumps([b["why"], shape, key]) + "\n")
                # the defective solver reads uninitialised / out-of-range data on some of these inputs, so the SYMPTOM (wrong point, bottom,
                # crash, hang) of a listed input can change from run to run: an input listed under any C07 finding is matched by that finding
                why_l, shape_l = b["why"], shape
                if key in _listed():
                    why_l, shape_l = _listed()[key]
                    wit = dict(wit, symptom_in_this_run=b["why"])
                run.violation({"why": why_l, "shape": shape_l, "input": key}, wit)


_LISTED = None


def _listed():
    """input key -> (why, shape) of the known finding that lists it"""
    global _LISTED
    if _LISTED is None:
        _LISTED = {}
        for f in core.load_known():
            if f.get("property") == "C07":
                m = f.get("match", {})
                for i in m.get("input", []):
                    _LISTED.setdefault(i, (m.get("why"), m.get("shape")))
    return _LISTED


def replay(v):
    return 2
