# C07 — PIP solver: the tree yields the lexicographic minimum for every parameter value.
import os, json, subprocess, time, collections
from . import core, tracelib
LEVEL = "model_checking"
SPEC = os.path.join(core.SPECS, "pip")


def check(run):
    q = run.quick()
    lib = core.build_lib()
    exe = core.build_harness("pip", ["pip.cc"], lib)
    run.cov["rule"] = ("seeded random problems (1-2 variables, 1-2 parameters, 1-3 constraints incl. equalities and strict inequalities, |coeff| <= 2), "
                       "all 3x2 cutting / pivoting strategies, each solved fresh and then after 0-2 incremental steps (new constraint, new variable, "
                       "new parameter); every logged tree is evaluated by specs/pip/PipTrace.tla on all parameter valuations in 0..4 and compared "
                       "with the brute-force lexicographic minimum in 0..7; distinct = distinct (variables, parameters, strategy, step, status) classes")
    n = 1500 if q else 20000
    t0 = time.time()
    r = subprocess.run(["timeout", "1500", exe, str(n), str(run.seed)], stdout=subprocess.PIPE)
    if r.returncode != 0:
        run.fatal("pip harness failed")
    lines = r.stdout.decode().splitlines()
    t1 = time.time()
    bad, tot, failed = tracelib.validate_lines(run, os.path.join(SPEC, "PipTrace.tla"), os.path.join(SPEC, "PipTrace.cfg"), lines, nchunks=max(1, len(lines) // 150))
    run.cov["evaluations"] += len(lines)
    run.cov["traces_validated_against_impl"] += tot.get("lines", 0)
    run.cov["undecided"] += len(failed)
    for l in lines:
        j = json.loads(l)
        run.distinct.add((len(j["vars"]), len(j["pars"]), j["cut"], j["piv"], min(j["step"], 2), j["status"]))
    core.log("pip: %d solves (gen+solve %.1fs, validate %.1fs), %d rejected verdict kinds, %d tlc-failed" % (len(lines), t1 - t0, time.time() - t1, len(bad), len(failed)))
    if lines:
        j = json.loads(lines[len(lines) // 2])
        run.sample({"vars": j["vars"], "pars": j["pars"], "constraints": j["cs"], "status": j["status"], "tree": j["tree"]}, cap=2)
    groups = collections.OrderedDict()
    for b in bad:
        j = json.loads(lines[b["line"]])
        shape = "fresh-problem" if j["step"] == 0 else "after-incremental-modification"
        groups.setdefault((b["why"], shape), []).append({"vars": j["vars"], "pars": j["pars"], "constraints": [(c["k"], c["v"]) for c in j["cs"]], "cut": j["cut"], "piv": j["piv"],
                                                         "step": j["step"], "parameter_values": b["pv"], "point": b["x"], "status": j["status"]})
    nfresh = sum(1 for l in lines if '"step":0,' in l)
    nincr = len(lines) - nfresh
    for (why, shape), wit in groups.items():
        run.violation({"why": why, "shape": shape}, {"witnesses": wit[:6], "count": len(wit)})
        # The PIP solver has known rare defects of every kind (see known_findings.json); so that they cannot hide a regression,
        # the RATE of each kind is bounded as well (measured on the unchanged tree over 120 000 solves: wrong bottom 1.3 %, every
        # other kind below 0.06 % of the fresh solves; about 10 % of the incremental re-solves are wrong)
        base = nfresh if shape == "fresh-problem" else nincr
        limit = (0.04 if why == "C07:bottom-but-feasible" else 0.006) if shape == "fresh-problem" else 0.12
        if base >= 300 and len(wit) > max(6, limit * base):
            run.violation({"why": "C07:rate-of-known-defect-exceeded", "shape": shape + ":" + why},
                          {"kind": why, "count": len(wit), "solves": base, "limit": limit, "witnesses": wit[:6]})


def replay(v):
    return 2
