# C11 — checked arithmetic reports true rounding relations; bounded builds never lie.
import os, json, subprocess, time, collections
from . import core, tracelib
LEVEL = "model_checking"
SPEC = os.path.join(core.SPECS, "checked")


def check(run):
    q = run.quick()
    lib = core.build_lib()
    exe = core.build_harness("checked", ["checked.cc"], lib)
    run.cov["rule"] = ("the harness enumerates (type, primitive, rounding direction, operand pair): all representable operand pairs incl. "
                       "infinities and NaN for int8/uint8, boundary-biased operands for int16/uint16, small integers/rationals for mpz/mpq; "
                       "each case is one action of specs/checked/Checked.tla whose post-condition is the property (relation bits true of "
                       "exact vs stored, class bits, direction honoured, overflow classified, tightness for integer targets); distinct = "
                       "distinct (type, primitive, direction, result code) combinations observed")
    types = ["int8", "uint8", "int16", "uint16", "mpz", "mpq", "int32", "uint32", "int64", "uint64"]
    codes = set()
    for ty in types:
        t0 = time.time()
        r = subprocess.run(["timeout", "600", exe, ty], stdout=subprocess.PIPE)
        if r.returncode != 0:
            run.fatal("checked harness failed for %s" % ty)
        lines = r.stdout.decode().splitlines()
        if q and ty in ("int8", "uint8"):
            # quick: every third first-operand row of the exhaustive 8-bit tables (thorough: all)
            lines = [l for i, l in enumerate(lines) if i % 3 == run.seed % 3 or '"a":[0,0,1]' in l or '"a":[0,-1,1]' in l]
        t1 = time.time()
        wide = ty in ("int32", "uint32", "int64", "uint64")
        if q and wide:
            lines = [l for i, l in enumerate(lines) if i % 2 == run.seed % 2]
        spec = "CheckedWide" if wide else "Checked"
        bad, tot, failed = tracelib.validate_lines(run, os.path.join(SPEC, spec + ".tla"), os.path.join(SPEC, spec + ".cfg"), lines)
        ncase = tot.get("cases", 0)
        run.cov["evaluations"] += ncase
        run.cov["traces_validated_against_impl"] += tot.get("lines", 0)
        run.cov["undecided"] += tot.get("skipped", 0) + len(failed)
        for l in lines[:: max(1, len(lines) // 400)]:
            j = json.loads(l)
            for rs in j["rs"]:
                codes.add((ty, j["op"], j["dir"], rs[0]))
        core.log("checked %s: %d lines, %d cases (enumerate %.1fs, validate %.1fs), %d bad witnesses, %d skipped, %d tlc-failed" % (
            ty, len(lines), ncase, t1 - t0, time.time() - t1, len(bad), tot.get("skipped", 0), len(failed)))
        if lines:
            j = json.loads(lines[len(lines) // 2])
            run.sample({"type": ty, "op": j["op"], "dir": j["dir"], "a": j["a"], "y": j["ys"][len(j["ys"]) // 2], "code_and_stored": j["rs"][len(j["rs"]) // 2]}, cap=10)
        groups = collections.OrderedDict()
        for b in bad:
            j = json.loads(lines[b["line"]])
            i = b["i"] - 1
            rs = j["rs"][i]
            shape = "stored-infinity-pattern-with-normal-code" if rs[1] in (1, 2) and (rs[0] >> 4) & 3 == 0 else ""
            if wide:
                def big(p):
                    return {0: p[1] * sum(x << (14 * k) for k, x in enumerate(p[2:7])), 1: "-inf", 2: "+inf", 3: "nan"}[p[0]]
                groups.setdefault((ty, j["op"], j["dir"], b["why"], shape), []).append({"a": big(j["a"]), "z": big(j["z"]), "y": big(j["ys"][i]), "code": rs[0], "stored": big(rs[1:]), "cases_on_this_row": b["count"]})
                continue
            key = (ty, j["op"], j["dir"], b["why"], shape)
            groups.setdefault(key, []).append({"a": j["a"], "z": j["z"], "y": j["ys"][i], "code_class_num_den": j["rs"][i], "cases_on_this_row": b["count"]})
        for (ty_, op, d, why, shape), wit in groups.items():
            run.violation({"type": ty_, "op": op, "why": why, "shape": shape, "dir": d},
                          {"witnesses": wit[:5], "rows_affected": len(wit), "replay": "harness/checked.cc %s" % ty_})
    for c in codes:
        run.distinct.add(c)
    bounded_config(run)
    run.assumptions += ["exact results are computed in TLC integer arithmetic (operands below 2^15 so that products stay below 2^31)",
                        "float/double/long double and 32/64-bit integers are covered by the interval and shape checks only (see DESIGN.md)"]


def bounded_config(run):
    """Configuration clause: GMP build vs checked-int8/int16 builds on the same polyhedron histories."""
    from . import polylib
    q = run.quick()
    libg = core.build_lib()
    exeg = core.build_harness("poly", ["poly.cc"], libg)
    PSPEC = os.path.join(core.SPECS, "poly")
    ops = polylib.OPS_MUT + ["is_empty", "contains", "maximize", "min_constraints", "min_generators", "relation_with_constraint", "is_disjoint_from", "affine_dimension"]
    progs = tracelib.gen_histories(run, PSPEC, "PolyHist", polylib.hist_cfg(8, 2, 0, 2, ops, False), 600 if q else 6000, 18)
    ea = tracelib.execute(run, exeg, progs, polylib.flat, args=["20"])
    for variant in (["int8"] if q else ["int8", "int16", "int32"]):
        t0 = time.time()
        libb = core.build_lib(variant)
        exeb = core.build_harness("poly-" + variant, ["poly.cc"], libb)
        eb = tracelib.execute(run, exeb, progs, lambda p: polylib.flat(p, lim=100), args=["20"])
        lines_by_hist = []
        for (prog, A), (_, B) in zip(ea, eb):
            h = ['{"e":"Reset"}']
            a = [x for x in A[1:] if x != '{"e":"Reset"}']
            b = [x for x in B[1:] if x != '{"e":"Reset"}']
            for i in range(len(a)):
                bb = b[i] if i < len(b) else '{"e":"Missing"}'
                h.append('{"e":"Pair","a":%s,"b":%s}' % (a[i], bb))
            lines_by_hist.append((prog, h))
        rej, und, nev, failed = tracelib.validate(run, PSPEC, "PairTrace", os.path.join(PSPEC, "PairTrace.cfg"), lines_by_hist)
        novf = sum(1 for _, B in eb for x in B if '"exc":"overflow_error"' in x)
        core.log("bounded build %s vs GMP: %d histories, %d paired events, %d overflow_error events, rejected %d, undecided %d, tlc-failed %d (%.1fs)" % (
            variant, len(progs), nev, novf, len(rej), und, len(failed), time.time() - t0))
        run.cov["evaluations"] += nev
        run.cov["traces_validated_against_impl"] += len(progs)
        run.cov["undecided"] += und
        run.distinct.add(("bounded", variant, "overflow" if novf else "no-overflow"))
        for r in rej:
            ev = json.loads(r["events"][r["index"]])
            run.violation({"type": variant, "op": r["op"], "why": r["why"], "shape": "", "dir": ""},
                          {"program": r["prog"], "event_index": r["index"], "gmp_event": ev.get("a"), "bounded_event": ev.get("b")})


def replay(v):
    return 2
