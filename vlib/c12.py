# C12 — interval arithmetic encloses every concrete result (exact for exact bound types).
import os, json, subprocess, time, collections
from . import core, tracelib
LEVEL = "model_checking"
SPEC = os.path.join(core.SPECS, "interval")


def check(run):
    q = run.quick()
    lib = core.build_lib()
    exe = core.build_harness("interval", ["interval.cc"], lib)
    run.cov["rule"] = ("seeded random operand pairs over bounds in {-6..6}/{1,2,3} (rational), integers (integer intervals) and quarters "
                       "(double intervals), open/closed/unbounded/singleton/empty/equal operands; each line carries 21 operations and "
                       "predicates, each one action of specs/interval/IntervalTrace.tla: equality with the definitional result for exact "
                       "bound types, enclosure (BigInt comparison of float bounds) otherwise; distinct = distinct (type, sign/shape "
                       "configuration of both operands) classes")
    n = 5000 if q else 60000
    for ty in ("rat", "int", "dbl"):
        t0 = time.time()
        r = subprocess.run(["timeout", "600", exe, str(n), str(run.seed), ty], stdout=subprocess.PIPE)
        if r.returncode != 0:
            run.fatal("interval harness failed for %s" % ty)
        lines = r.stdout.decode().splitlines()
        t1 = time.time()
        bad, tot, failed = tracelib.validate_lines(run, os.path.join(SPEC, "IntervalTrace.tla"), os.path.join(SPEC, "IntervalTrace.cfg"), lines,
                                                   nchunks=max(1, len(lines) // 400))
        run.cov["evaluations"] += tot.get("cases", 0)
        run.cov["traces_validated_against_impl"] += tot.get("lines", 0)
        run.cov["undecided"] += tot.get("skipped", 0) + len(failed)

        def shape(b_lo, b_hi):
            def s(b):
                return "inf" if b["inf"] else ("neg" if b["num"] < 0 else "zero" if b["num"] == 0 else "pos") + ("o" if b["open"] else "c")
            return s(b_lo) + ":" + s(b_hi)
        for l in lines:
            j = json.loads(l)
            run.distinct.add((ty, shape(j["x"]["lo"], j["x"]["hi"]), shape(j["y"]["lo"], j["y"]["hi"])))
        core.log("intervals %s: %d lines, %d cases (gen %.1fs, validate %.1fs), %d bad, %d undecided, %d tlc-failed" % (
            ty, len(lines), tot.get("cases", 0), t1 - t0, time.time() - t1, len(bad), tot.get("skipped", 0), len(failed)))
        if lines:
            j = json.loads(lines[len(lines) // 3])
            run.sample({"type": ty, "x": j["x"], "y": j["y"], "mul": j["mul"]}, cap=3)
        groups = collections.OrderedDict()
        for b in bad:
            j = json.loads(lines[b["line"]])
            groups.setdefault((ty, b["op"]), []).append({"x": j["x"], "y": j["y"], "rel": j["rel"], "k": [j["kn"], j["kd"]], "got": j.get({"intersect": "meet", "intersect2": "meet2", "difference": "diff", "add-aliased": "addself", "mul-aliased": "mulalias", "operand-x": "rx", "operand-y": "ry"}.get(b["op"], b["op"]))})
        for (ty_, op), wit in groups.items():
            run.violation({"type": ty_, "op": op, "why": "C12:" + op}, {"witnesses": wit[:5], "count": len(wit)})
    run.assumptions += ["operand bounds are small rationals so that the exact result fits TLC integers; float result bounds are compared exactly with BigInt",
                        "interval linear forms and linearization of floating-point expressions are not covered by this check (see DESIGN.md)"]


def replay(v):
    return 2
