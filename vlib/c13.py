# C13 — objects are values: copies independent, const arguments unchanged, aliased arguments safe.
from . import polylib
LEVEL = "model_checking"


def check(run):
    q = run.quick()
    run.cov["rule"] = ("pool histories (TLC -simulate, specs/poly/PolyHist.tla) with copying, assignment, swapping, self-aliased binary calls "
                       "(x.op(x)) and rebuild twins; after every call PolyTrace.tla checks the frame condition: every slot other than the "
                       "receiver denotes the same set as before, and copy/assign/swap/alias results equal the definition; distinct = distinct "
                       "(operation, receiver==argument?, status line) triples")
    # the forced copy-recipe plan has the same size at both tiers; the thorough tier adds the mixed recipe plan
    plans = [dict(maxlen=9, maxdim=2, ill=0, coef=2, num=3000, recipe=True, opset="copy")] + ([] if q else [dict(maxlen=9, maxdim=2, ill=0, coef=2, num=15000, recipe=True)]) + [

             dict(maxlen=14, maxdim=2, ill=2, coef=2, num=(1500 if q else 6000)),
             dict(maxlen=10, maxdim=3, ill=2, coef=2, num=(900 if q else 4000))]
    polylib.model_pass(run, ['PolyWorld1.cfg'])
    polylib.run_pool(run, "C13", plans, ("C13:",))
