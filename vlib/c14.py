# C14 — exceptional exits are clean.  (a) rejected calls: trace validation of ill-formed calls on the
# polyhedron pool; (b) resource exhaustion: allocation-failure enumeration (harness/fault.cc), see below.
from . import polylib
LEVEL = "fault_enumeration"


def check(run):
    q = run.quick()
    run.cov["rule"] = ("(a) pool histories from specs/poly/PolyHist.tla with 35% deliberately ill-formed calls (dimension / topology "
                       "incompatibility, zero denominator, variable out of range, generator system without a point, strict constraint for a "
                       "closed polyhedron ...); PolyTrace.tla computes from the pre-state whether the call must be rejected and requires the "
                       "documented std::invalid_argument with every slot unchanged, and no exception otherwise; a case is one call, distinct = "
                       "(operation, exception, status line)")
    plans = [dict(maxlen=9, maxdim=2, ill=35, coef=2, num=(3000 if q else 15000), recipe=True),
             dict(maxlen=12, maxdim=2, ill=35, coef=2, num=(1500 if q else 6000)),
             dict(maxlen=10, maxdim=3, ill=35, coef=2, num=(900 if q else 4000))]
    polylib.model_pass(run, ['PolyWorld1.cfg'])
    polylib.run_pool(run, "C14", plans, ("C14:",))
    from . import faultlib
    faultlib.run_faults(run)
