# C15 — ascii_dump / ascii_load round-trips every object in every internal state.
from . import polylib
LEVEL = "model_checking"


def check(run):
    q = run.quick()
    run.cov["rule"] = ("pool histories (TLC -simulate, specs/poly/PolyHist.tla) in which dump/load round trips into another slot are frequent; "
                       "the loaded object must load successfully, dump to identical text, satisfy OK(), denote the same value, and is driven "
                       "on as a twin (all later answers are validated against the same value); distinct = distinct status lines dumped")
    ops = polylib.OPS_MUT + ['dumpload', 'dumpload', 'is_empty', 'min_generators', 'constraints', 'contains', 'maximize', 'relation_with_constraint', 'swap', 'assign']
    plans = [dict(maxlen=9, maxdim=2, ill=0, coef=2, num=(3000 if q else 50000), opset=ops, recipe=True),
             dict(maxlen=12, maxdim=2, ill=0, coef=2, num=(1500 if q else 20000), opset=ops),
             dict(maxlen=10, maxdim=3, ill=0, coef=2, num=(900 if q else 12000), opset=ops)]
    polylib.model_pass(run, ['PolyWorld1.cfg'])
    polylib.run_pool(run, "C15", plans, ("C15:",))
