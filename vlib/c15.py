# C15 — ascii_dump / ascii_load round-trips every object in every internal state.
from . import polylib, shapelib
LEVEL = "model_checking"


def check(run):
    q = run.quick()
    run.cov["rule"] = ("pool histories (TLC -simulate, specs/poly/PolyHist.tla) in which dump/load round trips into another slot are frequent; "
                       "the loaded object must load successfully, dump to identical text, satisfy OK(), denote the same value, and is driven "
                       "on as a twin (all later answers are validated against the same value); distinct = distinct status lines dumped")
    ops = polylib.OPS_MUT + ['dumpload', 'dumpload', 'is_empty', 'min_generators', 'constraints', 'contains', 'maximize', 'relation_with_constraint', 'swap', 'assign']
    plans = [dict(maxlen=9, maxdim=2, ill=0, coef=2, num=(3000 if q else 15000), opset=ops, recipe=True),
             dict(maxlen=12, maxdim=2, ill=0, coef=2, num=(1500 if q else 1500), opset=ops),
             dict(maxlen=10, maxdim=3, ill=0, coef=2, num=(900 if q else 4000), opset=ops)]
    polylib.model_pass(run, ['PolyWorld1.cfg'])
    polylib.run_pool(run, "C15", plans, ("C15:",))
    # boxes, BD shapes and octagons over exact and floating-point coefficients: dump / load as a state driver of the recipes (elements with
    # fractions such as 1/16, infinite bounds, empty and universe elements) and in free walks; judged by ShapeTrace.tla (verdict C15:dump-load)
    sops = shapelib.IMG_BASE + ["dumpload", "add_constraint", "intersection", "poly_hull", "affine_image", "add_dims_embed", "remove_higher", "unconstrain", "assign", "swap"]
    splans = []
    for dom, ty in (("box", "mpq"), ("box", "dbl"), ("bds", "flt"), ("bds", "mpq"), ("oct", "dbl"), ("oct", "mpz")):
        splans.append(dict(dom=dom, ty=ty, maxlen=9, maxdim=2, ill=0, coef=2, num=(500 if q else 1500), opset=sops, recipe=True))
        splans.append(dict(dom=dom, ty=ty, maxlen=8, maxdim=2, ill=0, coef=2, num=(200 if q else 800), opset=["from_cs", "from_gs", "new", "dumpload", "dumpload", "min_constraints", "is_empty", "add_constraint", "poly_hull", "swap"]))
    shapelib.run_shapes(run, "C15", splans)
    # grids
    from . import c05
    c05.run_grid(run, [dict(maxlen=9, maxdim=2, ill=0, coef=2, num=(600 if q else 2000), recipe=True,
                            opset=["from_cs", "from_gs", "from_cgs", "new", "dumpload", "add_congruence", "add_grid_generator", "intersection", "upper_bound", "affine_image", "is_empty", "congruences", "grid_generators", "min_congruences", "swap", "assign"]),
                       dict(maxlen=8, maxdim=2, ill=0, coef=2, num=(300 if q else 1000),
                            opset=["from_cs", "from_gs", "from_cgs", "new", "dumpload", "dumpload", "add_congruence", "add_grid_generator", "is_empty", "min_congruences", "swap"])], ("C15:",))
