# C17 — integer-aware operators never discard an integer point of the concrete semantics.
import os, json, time, collections
from . import core, tracelib
LEVEL = "model_checking"
SPEC = os.path.join(core.SPECS, "wrap")


def flat(prog):
    out = ["BEGIN"]
    for c in prog:
        cs = " ".join("%s %d %s" % (r["k"], len(r["v"]), " ".join(map(str, r["v"]))) for r in c["cs"])
        cg = " ".join("%d %d %s" % (r["mod"], len(r["v"]), " ".join(map(str, r["v"]))) for r in c["cgs"])
        gd = " ".join("%s %d %s" % (r["k"], len(r["v"]), " ".join(map(str, r["v"]))) for r in c["guard"])
        out.append("CASE %s %d C %d %s G %d %s VARS %d %s W %d R %d O %d GUARD %d %d %s T %d I %d X %d" % (
            c["dom"], c["n"], len(c["cs"]), cs, len(c["cgs"]), cg, len(c["vars"]), " ".join(map(str, c["vars"])), c["w"], c["rep"], c["ovf"],
            c["hg"], len(c["guard"]), gd, c["thr"], c["indiv"], c["cx"]))
    out.append("END")
    return "\n".join(out) + "\n"


def check(run):
    q = run.quick()
    lib = core.build_lib()
    exe = core.build_harness("wrap", ["wrap.cc"], lib)
    run.cov["rule"] = ("cases drawn by TLC -simulate from specs/wrap/WrapHist.tla: an element of C / NNC polyhedra, grids, rational boxes, rational BD shapes, "
                       "integer octagons or a two-disjunct powerset, built from constraints whose constants sit around the quadrant boundaries of the bounded "
                       "integer type (width 8 or 16, signed / unsigned), wrapped individually or collectively under the three overflow behaviours, with and "
                       "without a guard, at five complexity thresholds; plus drop_some_non_integer_points and contains_integer_point on the same element; "
                       "judged pointwise by specs/wrap/WrapTrace.tla on a lattice spanning several wrap quadrants; distinct = distinct (domain, n, width, "
                       "representation, overflow, guard, individually) classes")
    cfg = open(os.path.join(SPEC, "WrapHist.cfg")).read()
    t0 = time.time()
    progs = tracelib.gen_histories(run, SPEC, "WrapHist", cfg, 40 if q else 700, 62)
    t1 = time.time()
    executed = tracelib.execute(run, exe, progs, flat, args=["30"])
    t2 = time.time()
    lines, owner = [], []
    for hi, (prog, evs) in enumerate(executed):
        for e in evs:
            if e != '{"e":"Reset"}':
                lines.append(e)
                owner.append(hi)
    bad, tot, failed = tracelib.validate_lines(run, os.path.join(SPEC, "WrapTrace.tla"), os.path.join(SPEC, "WrapTrace.cfg"), lines, nchunks=max(1, len(lines) // 40), timeout=1500)
    run.cov["evaluations"] += tot.get("cases", 0)
    run.cov["traces_validated_against_impl"] += tot.get("lines", 0)
    run.cov["undecided"] += len(failed)
    nbig = 0
    for l in lines:
        j = json.loads(l)
        if j.get("e") != "Case" or j.get("big"):
            nbig += 1
            continue
        run.distinct.add((j["dom"], j["n"], j["w"], j["rep"], j["ovf"], j["has_guard"], j["indiv"]))
    run.cov["undecided"] += nbig
    core.log("wrap: %d cases (gen %.1fs, exec %.1fs, validate %.1fs), %d bad, %d too big/crashed, %d tlc-failed" % (len(progs), t1 - t0, t2 - t1, time.time() - t2, len(bad), nbig, len(failed)))
    if executed:
        run.sample({"case": executed[0][0][0]}, cap=3)
    groups = collections.OrderedDict()
    for b in bad:
        case = executed[owner[b["line"]]][0][0]
        groups.setdefault((b["why"], case["dom"], case["ovf"]), []).append({"case": case, "witness_point": b.get("pt"), "event": json.loads(lines[b["line"]])})
    for (why, dom, ovf), wit in groups.items():
        run.violation({"why": why, "dom": dom, "overflow": ["wraps", "undefined", "impossible"][ovf]}, {"witnesses": wit[:3], "count": len(wit)})
    run.assumptions += ["widths 32 and 64 are not sampled (TLC integers are 32-bit): only the 8- and 16-bit types",
                        "products have no wrap_assign; their drop_some_non_integer_points is judged in the C10 pipeline (verdict prefix C17)",
                        "a discarded point outside the sample lattice is not seen; contains_integer_point is only refuted in the `false' direction"]


def replay(v):
    return 2
