# Out-of-tree build of the C language interface (interfaces/C) from /repo's working tree:
# the m4 generators are re-run (for the Polyhedron and Grid classes), ppl_c.h is re-assembled with
# utils/build_header, and ppl_c_implementation_common.cc + the generated per-class files are compiled
# against the freshly built libppl.  Returns a directory with inc/ppl_c.h and libppl_c.a.
import os, glob, shutil, subprocess, sys, time
from . import core

CLASSES = ("Polyhedron", "Grid")
CXX = {"Polyhedron": "Polyhedron", "Grid": "Grid"}


def cif_inputs():
    r = core.REPO
    return (glob.glob(r + "/interfaces/*.m4") + glob.glob(r + "/interfaces/C/*.m4") + glob.glob(r + "/interfaces/C/ppl_c_*.h")
            + glob.glob(r + "/interfaces/C/ppl_c_implementation_common*") + glob.glob(r + "/interfaces/*.hh") + glob.glob(r + "/interfaces/*.cc")
            + [r + "/utils/cm_cleaner.sh", r + "/utils/cm_splitter.sh", r + "/utils/build_header"])


def build_cif(lib, full=False):
    """full: every class of /repo/interfaces/ppl_interface_instantiations.m4 (13 classes) instead of Polyhedron and Grid."""
    flags = "-DHAVE_CONFIG_H -D%s -O1 -frounding-math -w -std=gnu++11" % core.GUARD
    h = core.file_hash([p for p in cif_inputs() if not p.endswith((".o", ".lo"))], lib + flags + "@".join(CLASSES) + str(full))[:16]
    d = os.path.join(core.BUILD, "cif%s-%s" % ("all" if full else "", h))
    if os.path.exists(os.path.join(d, ".done")):
        os.utime(d)
        return d
    with core.Lock("cifall" if full else "cif"):
        if os.path.exists(os.path.join(d, ".done")):
            return d
        t0 = time.time()
        shutil.rmtree(d, ignore_errors=True)
        os.makedirs(os.path.join(d, "inc"))
        os.makedirs(os.path.join(d, "gen", "sub"))
        g = os.path.join(d, "gen")
        R = core.REPO
        inst = ("m4_define(`m4_interface_classes_names', `%s')\nm4_define(`m4_cplusplus_classes_names', `%s')\n"
                % ("@".join(CLASSES), "@".join(CXX[c] for c in CLASSES)))
        classes = list(CLASSES)
        if full:
            inst = open(os.path.join(core.REPO, "interfaces", "ppl_interface_instantiations.m4")).read()
            import re
            classes = re.search(r"m4_interface_classes_names', `([^']*)'", inst).group(1).split("@")
        open(os.path.join(g, "ppl_interface_instantiations.m4"), "w").write(inst)
        # the generators m4_include "ppl_interface_instantiations.m4" via -I..; run from gen/sub so that .. = gen
        sub = os.path.join(g, "sub")
        m4 = "cd %s && m4 --prefix-builtin -I.. -I%s/interfaces/C -I%s/interfaces " % (sub, R, R)
        steps = [
            m4 + "%s/interfaces/C/ppl_interface_generator_c_h.m4 > ppl_c_domains.h" % R,
            m4 + "%s/interfaces/C/ppl_interface_generator_c_cc_files.m4 > ppl_c_cc_blob" % R,
            "cd %s && sh %s/utils/cm_cleaner.sh ./ppl_c_cc_blob && sh %s/utils/cm_splitter.sh ./ppl_c_cc_blob" % (sub, R, R),
            m4 + "%s/interfaces/C/ppl_interface_generator_c_hh_files.m4 > ppl_c_hh_blob" % R,
            "cd %s && sh %s/utils/cm_cleaner.sh ./ppl_c_hh_blob && sh %s/utils/cm_splitter.sh ./ppl_c_hh_blob" % (sub, R, R),
            "cd %s && cp %s/interfaces/C/ppl_c_version.h . && perl %s/utils/build_header -I %s -I %s/interfaces/C -I %s/src %s/interfaces/C/ppl_c_header.h > %s/inc/ppl_c.h"
            % (sub, R, R, sub, R, R, R, d),
        ]
        for s in steps:
            r = core.sh(s, stdout=subprocess.PIPE, stderr=subprocess.STDOUT)
            if r.returncode != 0:
                sys.stderr.write(r.stdout.decode(errors="replace")[-3000:])
                raise RuntimeError("C interface generation failed: " + s)
        if os.path.getsize(os.path.join(d, "inc", "ppl_c.h")) < 50000:
            raise RuntimeError("ppl_c.h too small")
        srcs = [R + "/interfaces/C/ppl_c_implementation_common.cc"] + [os.path.join(sub, "ppl_c_%s.cc" % c) for c in classes]
        for s in srcs:
            if not os.path.exists(s):
                raise RuntimeError("missing generated source " + s)
        inc = "-I%s -I%s/inc -I%s/inc -I%s/interfaces/C -I%s/interfaces -I%s/cfg" % (sub, d, lib, R, R, lib)
        cmds = "\n".join("g++ %s %s -c %s -o %s/%s.o" % (flags, inc, s, d, os.path.basename(s)[:-3]) for s in srcs)
        r = core.sh("xargs -P %d -I{} sh -c '{}'" % core.NCPU, input=cmds.encode(), stdout=subprocess.PIPE, stderr=subprocess.STDOUT)
        if r.returncode != 0:
            sys.stderr.write(r.stdout.decode(errors="replace")[-4000:])
            raise RuntimeError("C interface build failed")
        core.sh("ar rcs %s/libppl_c.a %s/*.o && rm %s/*.o" % (d, d, d), check=True)
        open(os.path.join(d, ".done"), "w").write(h)
        core.log("built libppl_c (C interface: %s) in %.1fs -> %s" % (", ".join(classes), time.time() - t0, d))
        core._prune("cifall-" if full else "cif-", 2)
    return d
