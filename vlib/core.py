# Core plumbing of the PPL verification runner: out-of-tree library build from
# /repo's working tree, harness build, TLC invocation, evidence, known findings.
# Standard library only (runs under the system python3).
import os, sys, json, hashlib, subprocess, time, fcntl, glob, shutil, re, random

VERIF = os.path.dirname(os.path.dirname(os.path.abspath(__file__)))
REPO = os.environ.get("VERIF_REPO", "/repo")
BUILD = os.path.join(VERIF, ".build")
OUT = os.environ.get("VERIF_OUT", os.path.join(VERIF, "out"))        # (overridable so that a run against a scratch copy of the
EVID = os.environ.get("VERIF_EVID", os.path.join(VERIF, "evidence"))  #  repository does not disturb the registered outputs)
SPECS = os.path.join(VERIF, "specs")
HARN = os.path.join(VERIF, "harness")
TLAJAR = "/opt/veriftools/tla/tla2tools.jar"
CMJAR = "/opt/veriftools/tla/CommunityModules-deps.jar"
NCPU = int(os.environ.get("VERIF_JOBS", "0")) or os.cpu_count() or 4
GUARD = "BUGSENG_PPL_VERIF"

NOT_LIB = {"Affine_Space.cc", "BUGS.cc", "COPYING.cc", "CREDITS.cc",
           "Pointset_Ask_Tell.cc", "ppl-config.cc"}


def log(*a):
    print("[vcheck]", *a, file=sys.stderr, flush=True)


def sh(cmd, **kw):
    return subprocess.run(cmd, shell=isinstance(cmd, str), **kw)


def file_hash(paths, extra=""):
    h = hashlib.sha256()
    h.update(extra.encode())
    for p in sorted(paths):
        h.update(p.encode())
        try:
            with open(p, "rb") as f:
                h.update(f.read())
        except OSError:
            h.update(b"<missing>")
    return h.hexdigest()


class Lock:
    def __init__(self, name):
        os.makedirs(BUILD, exist_ok=True)
        self.path = os.path.join(BUILD, name + ".lock")

    def __enter__(self):
        self.f = open(self.path, "w")
        fcntl.flock(self.f, fcntl.LOCK_EX)
        return self

    def __exit__(self, *a):
        fcntl.flock(self.f, fcntl.LOCK_UN)
        self.f.close()


# ---------------------------------------------------------------- library
CHECKED_CFG = """
#undef PPL_GMP_INTEGERS
#undef PPL_NATIVE_INTEGERS
#define PPL_CHECKED_INTEGERS 1
#undef PPL_COEFFICIENT_BITS
#define PPL_COEFFICIENT_BITS %(bits)d
#undef PPL_COEFFICIENT_TYPE
#define PPL_COEFFICIENT_TYPE Checked_Number<int%(bits)d_t, Bounded_Integer_Coefficient_Policy>
"""


def lib_sources():
    return sorted(p for p in glob.glob(os.path.join(REPO, "src", "*.cc"))
                  if os.path.basename(p) not in NOT_LIB)


def lib_inputs():
    s = glob.glob(os.path.join(REPO, "src", "*.cc")) + glob.glob(os.path.join(REPO, "src", "*.hh"))
    s = [p for p in s if os.path.basename(p) != "ppl.hh"]
    s += [os.path.join(REPO, "ppl-config.h"), os.path.join(REPO, "config.h")]
    return s


def _prune(prefix, keep):
    ds = sorted(glob.glob(os.path.join(BUILD, prefix + "*")), key=os.path.getmtime)
    for d in ds[:-keep]:
        if d.endswith(".lock"):
            continue
        shutil.rmtree(d, ignore_errors=True)


def build_lib(variant="gmp", opt="-O2"):
    """Compile libppl from /repo's current working tree, out of tree, hooks on.
    variant: 'gmp' (the repository's configuration) or 'int8'/'int16'/'int32'/'int64'
    (checked bounded coefficients).  Returns the build directory (inc/ppl.hh, libppl.a)."""
    flags = "-DHAVE_CONFIG_H -D%s %s -frounding-math -w -std=gnu++11" % (GUARD, opt)
    h = file_hash(lib_inputs(), variant + flags)[:16]
    d = os.path.join(BUILD, "lib-%s-%s" % (variant, h))
    if os.path.exists(os.path.join(d, ".done")):
        os.utime(d)
        return d
    with Lock("lib-" + variant):
        if os.path.exists(os.path.join(d, ".done")):
            return d
        t0 = time.time()
        shutil.rmtree(d, ignore_errors=True)
        os.makedirs(os.path.join(d, "inc"))
        os.makedirs(os.path.join(d, "obj"))
        for gen in ("ppl_include_files.hh", "version.hh"):
            if not os.path.exists(os.path.join(REPO, "src", gen)):
                sh("make -C %s/src %s >/dev/null 2>&1" % (REPO, gen))
        cfgdir = os.path.join(d, "cfg")
        os.makedirs(cfgdir)
        base = open(os.path.join(REPO, "ppl-config.h")).read()
        if variant != "gmp":
            bits = int(variant[3:])
            # insert overrides before the final #endif of the include guard
            k = base.rfind("#endif")
            base = base[:k] + CHECKED_CFG % {"bits": bits} + base[k:]
        open(os.path.join(cfgdir, "ppl-config.h"), "w").write(base)
        inc = "-I%s -I%s -I%s/src" % (cfgdir, REPO, REPO)
        r = sh("perl %s/utils/build_header -I %s -I %s -I %s/src %s/src/ppl_header.hh > %s/inc/ppl.hh"
               % (REPO, cfgdir, REPO, REPO, REPO, d))
        if r.returncode != 0 or os.path.getsize(os.path.join(d, "inc", "ppl.hh")) < 100000:
            raise RuntimeError("build_header failed")
        srcs = lib_sources()
        cmds = "\n".join("g++ %s %s -c %s -o %s/obj/%s.o" % (flags, inc, s, d, os.path.basename(s)[:-3])
                         for s in srcs)
        r = sh("xargs -P %d -I{} sh -c '{}'" % NCPU, input=cmds.encode(), stdout=subprocess.PIPE,
               stderr=subprocess.STDOUT)
        if r.returncode != 0:
            sys.stderr.write(r.stdout.decode(errors="replace")[-4000:])
            raise RuntimeError("library build failed (variant %s)" % variant)
        sh("ar rcs %s/libppl.a %s/obj/*.o" % (d, d), check=True)
        shutil.rmtree(os.path.join(d, "obj"))
        open(os.path.join(d, ".done"), "w").write(h)
        log("built libppl[%s] from %s in %.1fs -> %s" % (variant, REPO, time.time() - t0, d))
        _prune("lib-%s-" % variant, 2)
    return d


def build_harness(name, sources, libdir, flags="", opt="-O1", link_lib=True, libs="-lgmpxx -lgmp", extra_deps=()):
    """Compile a harness executable against the freshly built library."""
    srcs = [os.path.join(HARN, s) for s in sources]
    deps = srcs + glob.glob(os.path.join(HARN, "common", "*.hh")) + [os.path.join(HARN, x) for x in extra_deps]
    h = file_hash(deps, (libdir or "") + flags + opt + libs)[:16]
    exe = os.path.join(BUILD, "h-%s-%s" % (name, h))
    if os.path.exists(exe):
        os.utime(exe)
        return exe
    with Lock("h-" + name):
        if os.path.exists(exe):
            return exe
        t0 = time.time()
        inc = ("-I%s/inc " % libdir) if libdir else ""
        lib = ("%s/libppl.a " % libdir) if (libdir and link_lib) else ""
        cmd = "g++ -std=gnu++11 %s -frounding-math -w -D%s %s -I%s/common %s %s -o %s.tmp %s %s" % (
            opt, GUARD, inc, HARN, flags, " ".join(srcs), exe, lib, libs)
        r = sh(cmd, stdout=subprocess.PIPE, stderr=subprocess.STDOUT)
        if r.returncode != 0:
            sys.stderr.write(r.stdout.decode(errors="replace")[-6000:])
            raise RuntimeError("harness build failed: " + name)
        os.rename(exe + ".tmp", exe)
        log("built harness %s in %.1fs" % (name, time.time() - t0))
        for old in sorted(glob.glob(os.path.join(BUILD, "h-%s-*" % name)), key=os.path.getmtime)[:-3]:
            try:
                os.remove(old)
            except OSError:
                pass
    return exe


# ---------------------------------------------------------------- TLC
def tlc(module, cfg=None, cwd=None, env=None, workers=1, timeout=600, extra=(), heap="2g",
        metadir=None, simulate=None, depth=None, seed=None, outfile=None):
    """Run TLC on specs/<...>/module.tla.  Returns (exit code, stdout)."""
    cwd = cwd or os.path.dirname(module)
    mod = os.path.basename(module)
    if mod.endswith(".tla"):
        mod = mod[:-4]
    md = metadir or os.path.join(OUT, "tlc-meta", "%s-%d-%d" % (mod, os.getpid(), random.randrange(1 << 30)))
    os.makedirs(md, exist_ok=True)
    cp = TLAJAR + ":" + CMJAR
    cmd = ["timeout", str(timeout), "java", "-XX:+UseSerialGC" if workers == 1 else "-XX:+UseParallelGC",
           "-Xmx" + heap, "-Xss16m", "-DTLA-Library=" + os.path.join(SPECS, "lib"),
           "-cp", cp, "tlc2.TLC", "-workers", str(workers),
           "-noGenerateSpecTE", "-metadir", md]
    if cfg:
        cmd += ["-config", cfg]
    if simulate:
        cmd += ["-simulate", simulate]
    if depth:
        cmd += ["-depth", str(depth)]
    if seed is not None:
        cmd += ["-seed", str(seed)]
    cmd += list(extra) + [mod]
    e = dict(os.environ)
    e.update(env or {})
    if outfile:
        with open(outfile, "wb") as f:
            r = subprocess.run(cmd, cwd=cwd, env=e, stdout=f, stderr=subprocess.STDOUT)
        shutil.rmtree(md, ignore_errors=True)
        # summary = everything that is not a bulk data line
        keep = []
        with open(outfile, errors="replace") as f:
            for line in f:
                if not line.startswith("<<"):
                    keep.append(line)
        return r.returncode, "".join(keep)
    r = subprocess.run(cmd, cwd=cwd, env=e, stdout=subprocess.PIPE, stderr=subprocess.STDOUT)
    shutil.rmtree(md, ignore_errors=True)
    return r.returncode, r.stdout.decode(errors="replace")


def tlc_stats(out):
    """(generated, distinct) from TLC's summary line; (0,0) if absent."""
    m = re.findall(r"(\d+) states generated, (\d+) distinct states found", out)
    if not m:
        return 0, 0
    g, d = m[-1]
    return int(g), int(d)


def tlc_ok(code, out):
    return code == 0 and "Model checking completed. No error has been found." in out


def tlc_many(jobs, par=None):
    """jobs: list of kwargs for tlc(); run up to `par` at once; returns list of (code, out)."""
    from concurrent.futures import ThreadPoolExecutor
    par = par or max(1, NCPU - 2)
    with ThreadPoolExecutor(max_workers=par) as ex:
        return list(ex.map(lambda kw: tlc(**kw), jobs))


def sany(path):
    cp = TLAJAR + ":" + CMJAR
    r = subprocess.run(["java", "-DTLA-Library=" + os.path.join(SPECS, "lib"), "-cp", cp, "tla2sany.SANY", os.path.basename(path)],
                       cwd=os.path.dirname(path), stdout=subprocess.PIPE, stderr=subprocess.STDOUT)
    o = r.stdout.decode(errors="replace")
    return (r.returncode == 0 and "Semantic errors" not in o and "Parse Error" not in o
            and "***Parse" not in o and "Fatal" not in o and "Could not" not in o), o


# ---------------------------------------------------------------- known findings
def load_known():
    p = os.path.join(VERIF, "known_findings.json")
    if not os.path.exists(p):
        return []
    return [k for k in json.load(open(p)).get("findings", []) if k.get("status") == "known"]


def match_known(known, prop, sig):
    """sig: dict of strings describing a violation; a finding matches when every key of its
    'match' object equals (or, for a list, contains) the corresponding signature entry."""
    for k in known:
        if k["property"] != prop:
            continue
        ok = True
        for key, want in k["match"].items():
            got = sig.get(key)
            if isinstance(want, list):
                ok = ok and got in want
            else:
                ok = ok and got == want
        if ok:
            return k
    return None


# ---------------------------------------------------------------- a check run
class Run:
    def __init__(self, prop, tier, seed, level="model_checking"):
        self.prop, self.tier, self.seed, self.level = prop, tier, seed, level
        self.t0 = time.time()
        self.dir = os.path.join(OUT, prop)
        shutil.rmtree(self.dir, ignore_errors=True)
        os.makedirs(self.dir, exist_ok=True)
        os.makedirs(EVID, exist_ok=True)
        self.known = load_known()
        self.violations = []
        self.known_hits = {}
        self.cov = {"states": 0, "transitions": 0, "traces_validated_against_impl": 0, "samples": [],
                    "evaluations": 0, "distinct_nontrivial": 0, "rule": "", "undecided": 0}
        self.assumptions = []
        self.distinct = set()
        self.rng = random.Random(seed)

    def quick(self):
        return self.tier == "quick"

    def add_model(self, out):
        g, d = tlc_stats(out)
        self.cov["transitions"] += g
        self.cov["states"] += d
        return g, d

    def sample(self, s, cap=6):
        if len(self.cov["samples"]) < cap:
            self.cov["samples"].append(s)

    def note_case(self, key, nontrivial=True):
        self.cov["evaluations"] += 1
        if nontrivial:
            self.distinct.add(key)

    def violation(self, sig, detail):
        """sig: signature dict (strings) used for known-finding matching; detail: JSON-able replay info."""
        k = match_known(self.known, self.prop, sig)
        if k is not None:
            self.known_hits.setdefault(k["id"], [k, 0])[1] += 1
            return False
        n = len(self.violations) + 1
        path = os.path.join(self.dir, "violation-%d.json" % min(n, 200))
        json.dump({"property": self.prop, "signature": sig, "detail": detail, "seed": self.seed, "tier": self.tier},
                  open(path, "w"), indent=1)
        self.violations.append(path)
        if n <= 20:
            print("VIOLATION property=%s replay=%s" % (self.prop, path), flush=True)
            log("  signature:", json.dumps(sig))
        return True

    def fatal(self, msg):
        """Machinery failure (not a verdict about the property): exit 2."""
        log("FATAL:", msg)
        sys.exit(2)

    def finish(self, extra_cov=None):
        for kid, (k, n) in sorted(self.known_hits.items()):
            print("KNOWN-FINDING: property=%s %s [%s, %d occurrence(s) this run]" % (self.prop, k["what"], kid, n), flush=True)
        self.cov["distinct_nontrivial"] = len(self.distinct)
        if self.cov.get("states", 0) == 0:      # no model pass in this run: the generic counts are the evidence
            self.cov.pop("states", None)
            self.cov.pop("transitions", None)
        if extra_cov:
            self.cov.update(extra_cov)
        self.cov["known_finding_occurrences"] = {kid: n for kid, (k, n) in self.known_hits.items()}
        ev = {"property_id": self.prop, "tier": self.tier, "seed": self.seed, "level": self.level,
              "coverage": self.cov, "assumptions": self.assumptions,
              "wall_s": round(time.time() - self.t0, 2), "violations": len(self.violations)}
        json.dump(ev, open(os.path.join(EVID, self.prop + ".json"), "w"), indent=1)
        log("%s %s: evaluations=%d distinct=%d states=%d violations=%d known=%d wall=%.1fs" % (
            self.prop, self.tier, self.cov["evaluations"], self.cov["distinct_nontrivial"], self.cov.get("states", 0),
            len(self.violations), len(self.known_hits), time.time() - self.t0))
        sys.exit(1 if self.violations else 0)


def read_ndjson(path):
    out = []
    with open(path) as f:
        for line in f:
            line = line.strip()
            if line:
                out.append(json.loads(line))
    return out


def split_chunks(items, k):
    k = max(1, min(k, len(items)))
    return [items[i::k] for i in range(k)]


def tlc_tuples(path, tag):
    """Yield the JSON payload of every line <<"tag", "json">> that TLC printed into `path`."""
    pre = '<<"%s", "' % tag
    with open(path, errors="replace") as f:
        for line in f:
            if line.startswith(pre):
                body = line.rstrip("\n")
                if body.endswith('">>'):
                    body = body[len(pre):-3]
                    yield json.loads(body.replace('\\"', '"').replace('\\\\', '\\'))
