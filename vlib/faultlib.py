# C14(b): allocation-failure / abandonment / overflow enumeration over TLC-generated polyhedron histories.
import os, json, time, collections
from . import core, tracelib, polylib

SPEC = polylib.SPEC
# operations whose interpretation in the harness is itself exception-safe (no raw temporaries owned by the harness)
FAULT_OPS = ["new", "from_cs", "from_gs", "from_cgs", "copy_from", "assign", "swap", "conv_topo", "destroy",
             "add_constraint", "refine_with_constraint", "add_constraints", "refine_with_constraints", "add_generator", "add_generators",
             "add_congruence", "add_congruences", "intersection", "poly_hull", "poly_difference", "time_elapse", "positive_time_elapse",
             "simplify_using_context", "hull_if_exact", "topological_closure", "affine_image", "affine_preimage", "gen_affine_image",
             "gen_affine_preimage", "bounded_affine_image", "bounded_affine_preimage", "gen_affine_image_lhs", "gen_affine_preimage_lhs",
             "add_dims_embed", "add_dims_project", "expand", "concatenate", "remove_dims", "remove_higher", "fold", "unconstrain",
             "unconstrain_set", "map_dims", "is_empty", "min_constraints", "min_generators", "constraints", "generators", "contains",
             "strictly_contains", "is_disjoint_from", "equals", "is_bounded", "is_universe", "relation_with_constraint",
             "relation_with_generator", "maximize", "minimize_pt", "bounds_from_above", "affine_dimension", "contains_integer_point",
             "is_topologically_closed", "constrains", "OK"]
MODES = {0: "alloc", 1: "abandon", 2: "overflow", 3: "coldalloc"}


def _pip_flat(p):
    return "BEGIN\nPIP %d %d\nEND\n" % (p["seed"], p["wide"])


def run_faults(run):
    from . import c06
    q = run.quick()
    lib = core.build_lib()
    exe = core.build_harness("fault", ["fault.cc"], lib, flags="-I%s" % core.HARN, extra_deps=["poly.cc"])
    lib8 = core.build_lib("int8")
    exe8 = core.build_harness("fault8", ["fault.cc"], lib8, flags="-I%s" % core.HARN, extra_deps=["poly.cc"])
    exs = core.build_harness("faultsolv", ["faultsolv.cc"], lib)

    def poly(pl, cap):
        return lambda: tracelib.gen_histories(run, SPEC, "PolyHist", polylib.hist_cfg(pl["maxlen"], pl["maxdim"], pl["ill"], pl["coef"], FAULT_OPS, True), pl["num"], 26)[:cap]

    def mip(maxlen, maxdim, num, cap):
        return lambda: tracelib.gen_histories(run, c06.SPEC, "MipHist", c06.cfg(maxlen, maxdim, 8), num, maxlen + 2)[:cap]

    def pip(n, first):
        return lambda: [{"seed": first + i, "wide": 1 if i % 4 == 3 else 0} for i in range(n)]

    # (mode, domain, executable, history source, flattening, label)
    plans = [(0, "poly", exe, poly(dict(maxlen=7, maxdim=2, ill=5, coef=2, num=(900 if q else 8000)), 300 if q else 3000), polylib.flat),
             (0, "poly", exe, poly(dict(maxlen=6, maxdim=3, ill=5, coef=3, num=(400 if q else 4000)), 120 if q else 1500), polylib.flat),
             (1, "poly", exe, poly(dict(maxlen=8, maxdim=3, ill=0, coef=3, num=(1500 if q else 12000)), 600 if q else 6000), polylib.flat),
             (2, "poly", exe8, poly(dict(maxlen=8, maxdim=3, ill=0, coef=3, num=(5000 if q else 40000)), 3000 if q else 30000), polylib.flat),
             (3, "poly", exe, poly(dict(maxlen=7, maxdim=3, ill=5, coef=3, num=(500 if q else 5000)), 150 if q else 1500), polylib.flat),
             (0, "mip", exs, mip(9, 3, 600 if q else 6000, 150 if q else 2000), c06.flat),
             (3, "mip", exs, mip(9, 3, 300 if q else 3000, 60 if q else 600), c06.flat),
             (1, "mip", exs, mip(9, 3, 900 if q else 8000, 300 if q else 4000), c06.flat),
             (0, "pip", exs, pip(60 if q else 600, 1 + run.seed * 1000), _pip_flat),
             (1, "pip", exs, pip(200 if q else 2000, 1 + run.seed * 1000), _pip_flat)]
    pos = collections.Counter()
    thrown = collections.Counter()
    for mode, dom, ex, source, flat in plans:
        t0 = time.time()
        progs = source()
        t1 = time.time()
        executed = tracelib.execute(run, ex, progs, flat, args=["120" if dom == "poly" else "40", str(mode)])
        t2 = time.time()
        rej, und, nev, failed = tracelib.validate(run, SPEC, "FaultTrace", os.path.join(SPEC, "FaultTrace.cfg"), executed)
        nf = 0
        label = "%s-%s" % (MODES[mode], dom)
        for prog, evs in executed:
            for line in evs:
                if line.startswith('{"e":"Fault"'):
                    nf += 1
                    e = json.loads(line)
                    thrown[(label, e["thrown"])] += 1
                    run.note_case(("fault", label, e["op"], e["thrown"]))
        pos[label] += nf
        core.log("fault plan %s: %d histories, %d fault positions (gen %.1fs, exec %.1fs, validate %.1fs), rejected %d, undecided %d, tlc-failed %d" % (
            label, len(progs), nf, t1 - t0, t2 - t1, time.time() - t2, len(rej), und, len(failed)))
        run.cov["traces_validated_against_impl"] += len(executed) - len(failed)
        run.cov["undecided"] = run.cov.get("undecided", 0) + und
        for gi, msg in failed:
            core.log("  validator could not process a fault history: %s" % msg.replace("\n", " ")[-300:])
        for r in rej:
            ev = None
            try:
                ev = json.loads(r["events"][r["index"]])
            except Exception:
                pass
            op = r["op"]
            if op in ("Crash", "Hang"):
                op = "?"
            sig = {"domain": "fault-" + label, "op": op, "why": r["why"]}
            run.violation(sig, {"program": r["prog"], "event_index": r["index"], "event": ev, "why": r["why"], "mode": MODES[mode]})
    run.cov["fault_positions"] = dict(pos)
    run.cov["fault_outcomes"] = {"%s:%s" % k: v for k, v in sorted(thrown.items())}
