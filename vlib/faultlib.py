# C14(b): allocation-failure / abandonment / overflow enumeration over TLC-generated polyhedron histories.
import os, json, time, collections
from . import core, tracelib, polylib

SPEC = polylib.SPEC
# operations whose interpretation in the harness is itself exception-safe (no raw temporaries owned by the harness)
FAULT_OPS = ["new", "from_cs", "from_gs", "from_cgs", "copy_from", "assign", "swap", "conv_topo", "destroy",
             "add_constraint", "refine_with_constraint", "add_constraints", "refine_with_constraints", "add_generator", "add_generators",
             "add_congruence", "add_congruences", "intersection", "poly_hull", "poly_difference", "time_elapse", "positive_time_elapse",
             "simplify_using_context", "hull_if_exact", "topological_closure", "affine_image", "affine_preimage", "gen_affine_image",
             "gen_affine_preimage", "bounded_affine_image", "bounded_affine_preimage", "gen_affine_image_lhs", "gen_affine_preimage_lhs",
             "add_dims_embed", "add_dims_project", "expand", "concatenate", "remove_dims", "remove_higher", "fold", "unconstrain",
             "unconstrain_set", "map_dims", "is_empty", "min_constraints", "min_generators", "constraints", "generators", "contains",
             "strictly_contains", "is_disjoint_from", "equals", "is_bounded", "is_universe", "relation_with_constraint",
             "relation_with_generator", "maximize", "minimize_pt", "bounds_from_above", "affine_dimension", "contains_integer_point",
             "is_topologically_closed", "constrains", "OK"]
MODES = {0: "alloc", 1: "abandon", 2: "overflow"}


def run_faults(run):
    q = run.quick()
    lib = core.build_lib()
    exe = core.build_harness("fault", ["fault.cc"], lib, flags="-I%s" % core.HARN)
    lib8 = core.build_lib("int8")
    exe8 = core.build_harness("fault8", ["fault.cc"], lib8, flags="-I%s" % core.HARN)
    plans = [(0, exe, dict(maxlen=7, maxdim=2, ill=5, coef=2, num=(250 if q else 3000)), 60 if q else 600),
             (0, exe, dict(maxlen=6, maxdim=3, ill=5, coef=3, num=(120 if q else 1500)), 25 if q else 300),
             (1, exe, dict(maxlen=8, maxdim=3, ill=0, coef=3, num=(400 if q else 4000)), 150 if q else 1500),
             (2, exe8, dict(maxlen=8, maxdim=3, ill=0, coef=3, num=(1500 if q else 15000)), 800 if q else 8000)]
    pos = collections.Counter()
    thrown = collections.Counter()
    for mode, ex, pl, cap in plans:
        t0 = time.time()
        progs = tracelib.gen_histories(run, SPEC, "PolyHist", polylib.hist_cfg(pl["maxlen"], pl["maxdim"], pl["ill"], pl["coef"], FAULT_OPS, True),
                                       pl["num"], 26)[:cap]
        t1 = time.time()
        executed = tracelib.execute(run, ex, progs, polylib.flat, args=["120", str(mode)])
        t2 = time.time()
        rej, und, nev, failed = tracelib.validate(run, SPEC, "FaultTrace", os.path.join(SPEC, "FaultTrace.cfg"), executed)
        nf = 0
        for prog, evs in executed:
            for line in evs:
                if line.startswith('{"e":"Fault"'):
                    nf += 1
                    e = json.loads(line)
                    thrown[(MODES[mode], e["thrown"])] += 1
                    run.note_case(("fault", MODES[mode], e["op"], e["thrown"]))
        pos[MODES[mode]] += nf
        core.log("fault plan %s dim<=%d len=%d: %d histories, %d fault positions (gen %.1fs, exec %.1fs, validate %.1fs), rejected %d, tlc-failed %d" % (
            MODES[mode], pl["maxdim"], pl["maxlen"], len(progs), nf, t1 - t0, t2 - t1, time.time() - t2, len(rej), len(failed)))
        run.cov["traces_validated_against_impl"] += len(executed) - len(failed)
        for gi, msg in failed:
            core.log("  validator could not process a fault history: %s" % msg.replace("\n", " ")[-300:])
        for r in rej:
            ev = None
            try:
                ev = json.loads(r["events"][r["index"]])
            except Exception:
                pass
            op = r["op"]
            if op in ("Crash", "Hang"):
                op = "?"
            sig = {"domain": "fault-" + MODES[mode], "op": op, "why": r["why"]}
            run.violation(sig, {"program": r["prog"], "event_index": r["index"], "event": ev, "why": r["why"], "mode": MODES[mode]})
    run.cov["fault_positions"] = dict(pos)
    run.cov["fault_outcomes"] = {"%s:%s" % k: v for k, v in sorted(thrown.items())}
