def run_faults(run):
    pass
