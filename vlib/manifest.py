# Generates /verif/MANIFEST.json from the table below (single source of truth).
import json, os, subprocess
V = os.path.dirname(os.path.dirname(os.path.abspath(__file__)))
CHECKS = {
 "C16": dict(level="model_checking", engine="tlc-replay",
   technique="executable TLA+ specs (Rows, LinExpr, CoTree) model-checked by TLC; TLC-generated behaviours replayed on Sparse_Row/Dense_Row/CO_Tree/Linear_Expression in every representation mix",
   text="TLC exhaustively explores the row / expression / tree state machines on small constants (invariants of the spec itself) and emits every behaviour with the expected post-state of each action; the replayer steps the real classes through them (all short histories exhaustively, long random ones up to size 140 crossing the CO_Tree rebalancing thresholds) and compares contents, iteration, observer answers and OK() after every action. Right level: the classes are deterministic maps with a clear sequential meaning, so the spec is executable and equality is decidable exactly.",
   note="Trusted: TLC, the 100-line replayers, the friend-template access to the row-level interface. Coefficients bounded by 10^5; three expression slots; row sizes <= 143.",
   ref="§5 C16"),
}
POLY_NOTE = ("Trusted: TLC; the brute-force operators of specs/lib (validated against each other by PolyWorld.tla); the logging harness "
             "harness/poly.cc (observations from copies). Bounds: space dimension <= 3, coefficients of generated data in -2..2, histories <= 14 calls, "
             "3 slots; events whose data exceed the 32-bit determinant guard are counted undecided, never reported.")
for _id, _tech, _text in (
  ("C01", "trace validation of recorded query answers against TLA+ definitions (PolyTrace.tla) over TLC-generated histories; TLC model check of the oracle's laws (PolyWorld.tla)",
   "Every recorded call of TLC-generated histories over a pool of C/NNC polyhedra is one action of the trace specification: after each call both reported descriptions of every slot must denote the same set (brute-force vertex enumeration in TLA+, nothing shared with the library's conversion), every observer must answer what that set dictates (emptiness, universe, boundedness, closedness, containment, disjointness, equality, relations with constraints/generators/congruences, dimension, bounds, optima with witness) and must leave it unchanged; rebuild twins drive equal sets through different lazy states. The oracle's own laws are model-checked exhaustively by TLC on a small world."),
  ("C02", "trace validation of each operation's result against its definitional description (union of systems, Fourier-Motzkin on the transfer relation, generator images) in PolyTrace.tla",
   "Each set-transforming call recorded from the real library must produce a value that is same-set with the definitional description computed in TLA+ from the verified pre-state: intersections/refinements as unions of constraint systems, hulls/time-elapse as unions of generator systems, all affine (pre)images through the documented relation and one Fourier-Motzkin step, difference as the hull of the pieces, 'if exact' Booleans through exact covering, dimension operators by index surgery."),
  ("C13", "trace validation of the Pool machine's frame condition over histories with copies, assignments, swaps and aliased arguments",
   "After every recorded call every slot that is not the receiver must denote the same set as before (const arguments included), copy/assign/swap/rebuild must produce the source value, and calls with the same object as receiver and argument are validated against the same definitions as calls on distinct equal objects."),
  ("C15", "trace validation of the DumpLoad action: load succeeds, re-dump identical, OK(), same value, twin driven on",
   "In TLC-generated histories every object state reached (all status-flag combinations the driver reaches) is dumped and loaded into another slot; the specification requires success, text-identical re-dump, class invariant and value equality, and the loaded twin keeps being validated by all later actions."),
):
    CHECKS[_id] = dict(level="model_checking", engine="tlc-trace", technique=_tech, text=_text, note=POLY_NOTE, ref="§5 " + _id)
CHECKS["C14"] = dict(level="fault_enumeration", engine="tlc-trace",
   technique="trace validation of rejected-call actions (precondition computed in TLA+ from the pre-state) + allocation-failure enumeration",
   text="(a) 35% of the calls of TLC-generated histories are deliberately ill-formed; the trace specification decides from the verified pre-state whether a call must be rejected and then requires std::invalid_argument and every slot unchanged, and forbids exceptions on well-formed calls. (b) see DESIGN.md C14: every allocation index of scripted scenarios is made to fail.",
   note=POLY_NOTE, ref="§5 C14")
CHECKS["C11"] = dict(level="model_checking", engine="tlc-trace",
   technique="every enumerated primitive call is an action of Checked.tla / CheckedWide.tla (exact result in TLC integers / BigInt) whose post-condition is the property; PairTrace.tla compares bounded-coefficient and GMP builds on the same histories",
   text="The harness enumerates (type, primitive, direction, operands) -- all pairs incl. infinities/NaN for int8/uint8, boundary-biased for 16/32/64-bit (powers of two +-1, integer square roots of the maximum, halves, thirds), small values for mpz/mpq -- and the specification recomputes the exact result and requires: relation bits true, class bits matching, direction honoured, overflow classified not wrapped, tightness for integer targets. Configuration clause: the library is rebuilt with checked int8 (thorough: int16, int32) coefficients, the polyhedron histories are executed on both builds and every step must agree or raise std::overflow_error.",
   note="Trusted: TLC, BigInt.tla (base 2^14 limbs). Not covered: float/double/long double primitives (only through C12/C03), conversions between different types, string conversions.", ref="§5 C11")
CHECKS["C19"] = dict(level="model_checking", engine="tlc-trace",
   technique="PlusCal model of the Watchdog code model-checked by TLC over all signal placements; TLC-generated schedules executed on the real classes on a virtual clock through guarded yield hooks; recorded events validated against the property-level spec WatchTrace.tla",
   text="WatchdogImpl.tla mirrors the bookkeeping code statement by statement and TLC checks never-early / at-most-once / not-after-death / in-order / prompt / armed for every interleaving of the timer signal (they hold when the signal never falls inside a call, and fail in the known race otherwise). WdSched.tla generates API-call schedules with the ticks that pass at every yield point of every call; the harness interposes setitimer/getitimer/sigaction, delivers the signal exactly when the real virtual timer expires (also inside the critical section), and WatchTrace.tla -- whose guards are the property -- validates every fire / idle / check event. The weight-based watcher is validated the same way with weight as time.",
   note="Trusted: TLC, the 100-line virtual-clock harness, the yield hooks (add-only, guarded). Bounds: <= 3 watchdogs, delays <= 4 ticks, <= 7 calls, ticks only at statement boundaries. Promptness is asserted up to the ticks that elapsed inside calls. Three known findings (race when the signal is delivered inside a call).", ref="§5 C19")
CHECKS["C12"] = dict(level="model_checking", engine="tlc-trace",
   technique="every logged interval operation is an action of IntervalTrace.tla whose expected result is the definitional interval over extended rationals; equality for exact bound types, BigInt enclosure for integer/double bounds",
   text="Seeded operand pairs over all sign/shape configurations (open, closed, unbounded, singleton, empty, equal, aliased) for rational, integer and double intervals; for each pair 21 operations and predicates (neg, add, sub, mul, div, join, intersect, difference, refinement by a relation, aliased calls, contains / strictly_contains / disjoint / equal / bounded / singleton) are validated: exact bound types must reproduce the definitional result exactly (bounds, openness, infinities, emptiness), inexact ones must enclose it.",
   note="Trusted: TLC, BigInt.tla. Not covered: interval linear forms, linearization of floating-point expressions, wrap_assign of intervals (C17), float/long double interval types other than double.", ref="§5 C12")
CHECKS["C05"] = dict(level="model_checking", engine="tlc-trace",
   technique="trace validation of recorded grid calls against GridTrace.tla (lattice equality by determinantal criteria, exact disjointness on generators, images on generators / preimages on congruences, finite-quotient difference)",
   text="TLC-generated histories over a pool of 3 grids (random walks with state-driver bias, and recipe histories: state drivers x target operation) are executed on the real Grid class; after every call both minimized descriptions of every slot must denote the same lattice (determinant criterion, nothing shared with the library's reduction), every query must answer what the lattice dictates and every mutator must produce the definitional lattice.",
   note="Trusted: TLC, GridSem/GridTrace operators, harness/grid.cc. Bounds: dimension <= 3, moduli <= 4, divisors <= 3; emptiness of a system of >= 2 added congruences and of non-invertible preimages is undecided; difference is decided only when the result differs from the minuend or one operand contains / misses the other. One known finding (OK() after conversion).", ref="§5 C05")
CHECKS["C06"] = dict(level="model_checking", engine="tlc-trace",
   technique="trace validation against MipTrace.tla, whose state is the problem data only; every answer recomputed by brute force (vertex enumeration + integer-box enumeration)",
   text="TLC-generated incremental histories (constraints, boxes, new dimensions, new integer variables, objective / direction / pricing changes, copies, dump-load, interleaved with solve, is_satisfiable, feasible/optimizing point, optimal value, evaluate) are executed on MIP_Problem; the specification keeps just the data and requires after every observer the status, optimum, feasibility and integrality of the witness, and the documented exceptions, that the data dictates - hence incremental and fresh problems with equal data must agree.",
   note="Trusted: TLC, GensOf, harness/mip.cc. Bounds: <= 3 variables, <= 9 constraints, |coeff| <= 4; problems whose relaxation is unbounded in an integer direction are undecided. Known findings: non-termination of branch-and-bound, invalid state after adding integer variables to a solved problem.", ref="§5 C06")
CHECKS["C07"] = dict(level="model_checking", engine="tlc-trace",
   technique="each logged solution tree is evaluated by PipTrace.tla (floor-division artificial parameters, decision nodes) on every parameter valuation in 0..4 and compared with the brute-force lexicographic minimum",
   text="Seeded random parametric integer programs under all six strategy settings are solved fresh and after incremental modifications; the specification itself interprets the returned tree for each parameter valuation satisfying the context and requires a feasible, non-negative, lexicographically minimal integer point, or bottom exactly when none exists, and trees that only use declared artificial parameters. Every rejection carries a concrete integer witness.",
   note="Trusted: TLC, the tree logger harness/pip.cc. Bounds: <= 3 variables, <= 3 parameters, parameter values 0..4, search box 0..7, |coeff| <= 3. The big-parameter clause is not covered. Known findings: wrong bottom on fresh problems (one family), and the incremental re-solve path (all verdict kinds).", ref="§5 C07")
CHECKS["C18"] = dict(level="model_checking", engine="tlc-trace",
   technique="TLC enumerates every single-variable loop of a bounded family (and samples two-variable loops over polyhedra, BD shapes, octagons); TermTrace.tla judges every verdict, witness and space with the definition of a ranking function on the verified generators of the relation, and refutes `false' verdicts by brute force",
   text="Loop relations generated by specs/term/TermHist.tla (model checking: all 1800 loops `while (g1 [and g2]) x' REL c*x+d` in the coefficient box; simulation: one- and two-variable loops as C/NNC polyhedra, rational BD shapes, octagons, with equalities, strict constraints, unbounded directions, empty relations) are run through all fourteen functions of the termination interface in both input forms. The specification verifies the relation's generators against its constraints with its own double description, then requires: returned functions and every generator-derived member of returned spaces are ranking functions (strict decrease on points, non-negative and non-increasing on rays, zero on lines), quasi-ranking spaces decrease / are bounded, test = witness = space-emptiness verdicts, MS = PR on closed relations, and no `false' when a ranking function with coefficients in -3..3 exists.",
   note="Trusted: TLC, PolySem double description, harness/term.cc. Bounds: n <= 2, |coeff| <= 3; completeness refuted only by small ranking functions. Known finding: PR_2 incompleteness when `before' is not the projection of the relation.", ref="§5 C18")
CHECKS["C03"] = dict(level="model_checking", engine="tlc-trace",
   technique="TLC-generated histories run on every instantiation of Box / BD_Shape / Octagonal_Shape; ShapeTrace.tla computes the exact result of each call on the denoted point sets and checks that each of its generators satisfies each constraint of the logged result, exactly (BigInt limbs for float and wide bounds)",
   text="The polyhedron history generator in shape mode (template-direction constraints three times in four) drives pools of 3 elements of each of 27 instantiations (3 domains x mpq, mpz, int8..int64, float, double, long double; quick: 10 of them), including constructors from constraint / generator / congruence systems, from closed and NNC polyhedra at the three complexity classes and through every other shape domain. The specification keeps the verified (H,V) description of what each element denotes, recomputes every result from the definitions (images by Fourier-Motzkin, hulls from generators, differences by pieces...) and requires containment of the exact result, unchanged frames, no exception on well-formed calls, OK(), and true definite answers (emptiness, containment, disjointness, equality, universe).",
   note="Trusted: TLC, specs/lib oracles, BigInt, harness/shape.cc, PPL's NNC_Polyhedron only to minimize the logged rows (its output is re-verified by SameSetHV). Bounds: dimension <= 3, |coeff| <= 3; an element with coefficients beyond 1e5 is judged as a result but is undecided as an argument; proper congruences and grid sources undecided.", ref="§5 C03")
CHECKS["C04"] = dict(level="model_checking", engine="tlc-trace",
   technique="same pipeline on the three rational instantiations; ShapeTrace.tla requires exact observers and, for the operations documented as exact or best, equality with Best(dom, E) = the intersection of the template half-spaces c.x <= sup_E c.x",
   text="Rational_Box, BD_Shape<mpq_class>, Octagonal_Shape<mpq_class>: recipe histories (drivers x target operation) and free walks. Every observer answer (emptiness, universe, boundedness, containment, disjointness, equality, relations with constraints / congruences / generators, affine dimension, constrains, bounds, optima with witnesses, frequency, returned constraint systems) must be the exact answer for the denoted set; intersection, dimension changes, expressible affine (pre)images, upper bound, difference, unconstrain, constructors at unrestricted complexity and conversions must return the smallest enclosing element of the exact result, upper_bound_assign_if_exact must answer true exactly when the union is that element (Covers oracle); equal sets through different histories must compare equal.",
   note="Trusted: as C03. Known finding: affine_preimage with an expression not mentioning the variable only forgets the variable. The Boolean of simplify_using_context_assign is not asserted (see DESIGN.md).", ref="§5 C04")
CHECKS["C08"] = dict(level="model_checking", engine="tlc-trace",
   technique="TLC-generated ascending chains and free walks with widenings on polyhedra, boxes, BD shapes, octagons and grids; the trace specifications judge every widening event: upper bound, equality with the same call on arguments rebuilt through another history, token rule against the plain widening of a copy, limited extrapolations between argument and plain widening keeping the supplied constraints, and strict decrease of the convergence certificate recomputed by the specification",
   text="Chain recipe: x_0; repeat 2-5 times [copy the iterate, grow it by generators / images / relaxations, widen with the copy], for H79 / BHRZ03 / limited / bounded extrapolations on C and NNC polyhedra, CC76 / BHMZ05 / H79 / limited extrapolations and CC76 narrowing on boxes, BD shapes and octagons (rational, integer and floating-point coefficients), congruence / generator / limited widenings on grids, each with and without tokens. The specification recomputes the H79 certificate (affine dimension, number of constraints), the BHRZ03 certificate (dimension, lineality, constraints, points, rays by zero coordinates), the grid certificate (equalities, proper congruences) and the CC76 stop-point ladder from the logged minimized descriptions.",
   note="Trusted: TLC, specs/lib oracles, the harnesses. Not covered: the BHZ03 powerset widening (see C09), CC76 certificates on BD shapes / octagons, finite convergence beyond the generated chain lengths (only the per-step certificate decrease is asserted). Known findings: NNC polyhedra widenings and grid widenings depend on the internal representation.", ref="§5 C08")
CHECKS["C09"] = dict(level="model_checking", engine="tlc-trace",
   technique="TLC-generated histories over pools of Pointset_Powerset<C_Polyhedron> and <NNC_Polyhedron>; PsetTrace.tla keeps the verified sequence of disjuncts of every slot and judges each event on UNIONS with an exact covering oracle (piece splitting + double-description emptiness)",
   text="Histories with added (redundant, overlapping, adjacent, undetected-empty) disjuncts, omega / pairwise reduction, collapse, copies and assignments, meets, joins, differences, concatenation, time elapse, simplification in a context, constraints, affine transformers, dimension changes and the powerset widenings. The specification requires: reductions keep the union (simplification: the meet with the context) and do not add disjuncts; collapse is the base-level upper bound; every transformer yields the union of the exact base-level results on the disjuncts (operators shared with PolyTrace / ShapeTrace); difference, geometrically_covers, geometrically_equals exact; contains = entailment of disjuncts and implies covering; untouched copies keep their union.",
   note="Trusted: TLC, specs/lib oracles, harness/pset.cc. Bounds: dimension <= 2, <= 4 disjuncts and <= 12 constraint rows per union (larger events undecided). Not covered: powersets of grids and of boxes / BD shapes / octagons. Known finding: BHZ03 widening with H79_Certificate throws on NNC disjuncts with strict constraints.", ref="§5 C09")
NOT_YET = {}


def main():
    props = [json.loads(l) for l in open(os.path.join(V, "properties.jsonl"))]
    hooks = []
    try:
        out = subprocess.run(["git", "-C", "/repo", "log", "--format=%H %s"], stdout=subprocess.PIPE).stdout.decode()
        hooks = [l.split()[0] for l in out.splitlines() if l.split(" ", 1)[1].startswith("hook:")]
    except Exception:
        pass
    m = {"version": 1,
         "setup_cmd": "bin/vcheck setup",
         "hooks": {"guard": "BUGSENG_PPL_VERIF",
                   "enable": "bin/vcheck compiles /repo/src out of tree into /verif/.build with -DBUGSENG_PPL_VERIF (the in-tree build is never touched)",
                   "baseline_off_cmd": "make -C /repo -k check",
                   "source_commits": hooks, "add_only": True},
         "engines": [{"name": "tlc-replay", "path": "bin/vcheck", "serves_properties": sorted(CHECKS),
                      "kind_free_text": "TLA+ specifications under specs/, model-checked and used as behaviour generators / trace validators by TLC; C++ harnesses under harness/ replay or record the real library"}],
         "checks": [], "not_applicable": [],
         "notes": "See DESIGN.md. Every check rebuilds libppl from /repo's working tree (content-hashed cache in /verif/.build)."}
    for p in props:
        i = p["id"]
        if i in CHECKS:
            c = CHECKS[i]
            m["checks"].append({"property_id": i, "quick_cmd": "bin/vcheck run %s --tier quick" % i,
                                "thorough_cmd": "bin/vcheck run %s --tier thorough" % i,
                                "evidence_file": "/verif/evidence/%s.json" % i,
                                "replay_cmd_template": "bin/vcheck replay {path}", "engine": c["engine"],
                                "level_claimed": {"category": c["level"], "text": c["text"], "design_ref": c["ref"]},
                                "level_note": c["note"], "technique": c["technique"]})
        else:
            m["not_applicable"].append({"property_id": i, "reason": NOT_YET.get(i, "check not built yet in this session (planned, see DESIGN.md section 5); nothing is claimed for it")})
    json.dump(m, open(os.path.join(V, "MANIFEST.json"), "w"), indent=1)


if __name__ == "__main__":
    main()
