# Generates /verif/MANIFEST.json from the table below (single source of truth).
import json, os, subprocess
V = os.path.dirname(os.path.dirname(os.path.abspath(__file__)))
CHECKS = {
 "C16": dict(level="model_checking", engine="tlc-replay",
   technique="executable TLA+ specs (Rows, LinExpr, CoTree) model-checked by TLC; TLC-generated behaviours replayed on Sparse_Row/Dense_Row/CO_Tree/Linear_Expression in every representation mix",
   text="TLC exhaustively explores the row / expression / tree state machines on small constants (invariants of the spec itself) and emits every behaviour with the expected post-state of each action; the replayer steps the real classes through them (all short histories exhaustively, long random ones up to size 140 crossing the CO_Tree rebalancing thresholds) and compares contents, iteration, observer answers and OK() after every action. Right level: the classes are deterministic maps with a clear sequential meaning, so the spec is executable and equality is decidable exactly.",
   note="Trusted: TLC, the 100-line replayers, the friend-template access to the row-level interface. Coefficients bounded by 10^5; three expression slots; row sizes <= 143.",
   ref="§5 C16"),
}
NOT_YET = {}


def main():
    props = [json.loads(l) for l in open(os.path.join(V, "properties.jsonl"))]
    hooks = []
    try:
        out = subprocess.run(["git", "-C", "/repo", "log", "--format=%H %s"], stdout=subprocess.PIPE).stdout.decode()
        hooks = [l.split()[0] for l in out.splitlines() if l.split(" ", 1)[1].startswith("hook:")]
    except Exception:
        pass
    m = {"version": 1,
         "setup_cmd": "bin/vcheck setup",
         "hooks": {"guard": "BUGSENG_PPL_VERIF",
                   "enable": "bin/vcheck compiles /repo/src out of tree into /verif/.build with -DBUGSENG_PPL_VERIF (the in-tree build is never touched)",
                   "baseline_off_cmd": "make -C /repo -k check",
                   "source_commits": hooks, "add_only": True},
         "engines": [{"name": "tlc-replay", "path": "bin/vcheck", "serves_properties": sorted(CHECKS),
                      "kind_free_text": "TLA+ specifications under specs/, model-checked and used as behaviour generators / trace validators by TLC; C++ harnesses under harness/ replay or record the real library"}],
         "checks": [], "not_applicable": [],
         "notes": "See DESIGN.md. Every check rebuilds libppl from /repo's working tree (content-hashed cache in /verif/.build)."}
    for p in props:
        i = p["id"]
        if i in CHECKS:
            c = CHECKS[i]
            m["checks"].append({"property_id": i, "quick_cmd": "bin/vcheck run %s --tier quick" % i,
                                "thorough_cmd": "bin/vcheck run %s --tier thorough" % i,
                                "evidence_file": "/verif/evidence/%s.json" % i,
                                "replay_cmd_template": "bin/vcheck replay {path}", "engine": c["engine"],
                                "level_claimed": {"category": c["level"], "text": c["text"], "design_ref": c["ref"]},
                                "level_note": c["note"], "technique": c["technique"]})
        else:
            m["not_applicable"].append({"property_id": i, "reason": NOT_YET.get(i, "check not built yet in this session (planned, see DESIGN.md section 5); nothing is claimed for it")})
    json.dump(m, open(os.path.join(V, "MANIFEST.json"), "w"), indent=1)


if __name__ == "__main__":
    main()
