# Polyhedron pool checks (C01, C02, C13, C14a, C15 share this pipeline; each reports only the
# rejections whose failed conjunct belongs to it).
import os, json, time
from . import core, tracelib

SPEC = os.path.join(core.SPECS, "poly")

OBSERVERS = {"constraints", "min_constraints", "generators", "min_generators", "congruences", "min_congruences", "space_dimension",
             "affine_dimension", "is_empty", "is_universe", "is_bounded", "is_discrete", "is_topologically_closed",
             "contains_integer_point", "constrains", "OK", "hash_code", "contains", "strictly_contains", "is_disjoint_from",
             "equals", "not_equals", "relation_with_constraint", "relation_with_congruence", "relation_with_generator",
             "bounds_from_above", "bounds_from_below", "maximize", "minimize", "maximize_pt", "minimize_pt", "frequency"}
POOL = {"copy_from", "assign", "swap", "rebuild", "destroy", "dumpload"}


def vec(v):
    return "%d %s" % (len(v), " ".join(map(str, v)))


def flat(prog, lim=1000000):
    out = ["BEGIN %d" % lim]
    for o in prog:
        cs = " ".join("%s %s" % (c["k"], vec(c["v"])) for c in o["cs"])
        gs = " ".join("%s %s" % (g["k"], vec(g["v"])) for g in o["gs"])
        out.append("OP %s %d %d %d %s %s %d %d %d V %s W %s S %s C %d %s G %d %s" % (
            o["op"], o["dst"], o["src"], o["n"], o["topo"], o["k"] or "x", o["var"], o["den"], o["mod"],
            vec(o["v"]), vec(o["w"]), vec(o["vs"]), len(o["cs"]), cs, len(o["gs"]), gs))
    out.append("END")
    return "\n".join(out) + "\n"


def hist_cfg(maxlen, maxdim, ill, coef, opset, recipe=False, shape="poly"):
    ops = "{" + ", ".join('"%s"' % o for o in sorted(opset)) + "}" if opset and opset != "copy" else None
    return """CONSTANTS MaxLen = %d
 Slots = {1,2,3}
 MaxDim = %d
 IllShare = %d
 CoefMax = %d
 OpSet %s
 Recipe = %s
 Shape = "%s"
SPECIFICATION Spec
CONSTRAINT EmitProg
CHECK_DEADLOCK FALSE
""" % (maxlen, maxdim, ill, coef, ("= " + ops) if ops else "<- CopyRecipeOps" if opset == "copy" else "<- AllOps", "TRUE" if recipe else "FALSE", shape)


def crash_class(op):
    return "C01" if op in OBSERVERS else "C13" if op in POOL else "C02"


def model_pass(run, cfgs, workers=8):
    """TLC exhaustive check of the oracle's algebraic laws on the executable small world (PolyWorld.tla)."""
    for c in cfgs:
        t0 = time.time()
        code, out = core.tlc(os.path.join(SPEC, "PolyWorld.tla"), cfg=c, workers=workers, timeout=1500, heap="6g")
        if not core.tlc_ok(code, out):
            if "is violated" in out:
                run.violation({"kind": "spec-law", "cfg": c}, {"tlc": out[-3000:]})
            else:
                run.fatal("TLC failed on PolyWorld/%s: %s" % (c, out[-1500:]))
        g, d = run.add_model(out)
        core.log("PolyWorld/%s: %d states (%d generated), laws hold, %.1fs" % (c, d, g, time.time() - t0))


OPS_MUT = ["new", "from_cs", "from_gs", "from_cgs", "copy_from", "conv_topo", "rebuild",
           "add_constraint", "refine_with_constraint", "add_constraints", "refine_with_constraints", "add_generator", "add_generators",
           "add_congruence", "refine_with_congruence", "add_congruences", "refine_with_congruences",
           "intersection", "poly_hull", "poly_difference", "time_elapse", "positive_time_elapse", "simplify_using_context", "hull_if_exact",
           "topological_closure", "affine_image", "affine_preimage", "gen_affine_image", "gen_affine_preimage",
           "bounded_affine_image", "bounded_affine_preimage", "gen_affine_image_lhs", "gen_affine_preimage_lhs",
           "add_dims_embed", "add_dims_project", "expand", "concatenate", "remove_dims", "remove_higher", "fold",
           "unconstrain", "unconstrain_set", "map_dims"]


def run_pool(run, prop, plans, keep_prefixes, label="poly", exe=None, trace_mod="PolyTrace"):
    """plans: list of dict(maxlen, maxdim, ill, coef, opset, num).  keep_prefixes: verdict prefixes this property owns."""
    if exe is None:
        lib = core.build_lib()
        exe = core.build_harness("poly", ["poly.cc"], lib)
    tot_ev = tot_und = 0
    opc = {}
    for pl in plans:
        t0 = time.time()
        progs = tracelib.gen_histories(run, SPEC, "PolyHist", hist_cfg(pl["maxlen"], pl["maxdim"], pl["ill"], pl["coef"], pl.get("opset"), pl.get("recipe", False)),
                                       pl["num"], 2 * pl["maxlen"] + 2)
        if pl.get("cap"):
            progs = progs[:pl["cap"]]
        t1 = time.time()
        executed = tracelib.execute(run, exe, progs, flat, args=["20"])
        t2 = time.time()
        rej, und, nev, failed = tracelib.validate(run, SPEC, trace_mod, os.path.join(SPEC, trace_mod + ".cfg"), executed)
        t3 = time.time()
        tot_ev += nev
        tot_und += und
        for k, v in tracelib.op_stats(executed).items():
            opc[k] = opc.get(k, 0) + v
        core.log("%s plan dim<=%d len=%d: %d histories, %d events (gen %.1fs, exec %.1fs, validate %.1fs), rejected %d, undecided %d, tlc-failed %d" % (
            label, pl["maxdim"], pl["maxlen"], len(progs), nev, t1 - t0, t2 - t1, t3 - t2, len(rej), und, len(failed)))
        run.cov["traces_validated_against_impl"] += len(executed) - len(failed)
        for prog, evs in executed[:2]:
            run.sample({"history": [{k: v for k, v in o.items() if v not in ([], "", 0) or k in ("op", "dst")} for o in prog][:6], "events": len(evs) - 1}, cap=4)
        for prog, evs in executed:
            for line in evs[1:]:
                if line.startswith('{"e":"Op"'):
                    ev = None
                    i = line.find('"op":"')
                    op = line[i + 6:line.find('"', i + 6)]
                    j = line.find('"st":"')
                    st = line[j + 6:line.find('"', j + 6)] if j > 0 else ""
                    run.note_case((op, st))
        for gi, msg in failed:
            core.log("  validator could not process a history (counted undecided): %s" % msg.replace("\n", " ")[-300:])
            tot_und += 1
        for r in rej:
            why = r["why"]
            op = r["op"]
            if op in ("Crash", "Hang"):
                # the call that died is the one after the last logged event of that history
                nops = sum(1 for l in r["events"][:r["index"]] if l.startswith('{"e":"Op"'))
                op = r["prog"][nops]["op"] if nops < len(r["prog"]) else "?"
                why = "%s:%s" % ("C20" if prop == "C20" else crash_class(op), r["op"].lower())
            if prop == "C13" and why == "C01:OK()" and op in POOL:
                # the object produced by a copy / assignment / swap fails the class invariant: the copy is not a value at all
                why = "C13:copy-not-well-formed"
            if not any(why.startswith(p) for p in keep_prefixes) and not os.environ.get("VERIF_ALL"):
                continue
            ev = None
            try:
                ev = json.loads(r["events"][r["index"]])
            except Exception:
                pass
            sig = {"domain": label, "op": op, "why": why}
            if ev and ev.get("e") == "Op":
                sig["topo"] = ev["post"][ev["dst"] - 1]["topo"] if ev["post"][ev["dst"] - 1]["alive"] else ev.get("topo", "")
            run.violation(sig, {"program": r["prog"], "event_index": r["index"], "event": ev, "why": why,
                                "replay": "bin/vcheck replay <this file>"})
    run.cov["undecided"] = tot_und
    run.cov["events_validated"] = tot_ev
    run.cov["operations_exercised"] = {k: opc[k] for k in sorted(opc)}
