# Boxes / BD shapes / octagons (C03, C04, later C08 and C17 share this pipeline): the polyhedron history generator
# (specs/poly/PolyHist.tla with Shape = box | bds | oct) drives one harness executable per (domain, coefficient type);
# specs/poly/ShapeTrace.tla judges every event.  Verdict prefix "C03:" = a point was lost / a definite answer is false
# (any T); every other prefix comes from the exactness conjuncts that are only evaluated for T = mpq and belongs to C04.
import os, json, time
from concurrent.futures import ThreadPoolExecutor
from . import core, tracelib, polylib

SPEC = os.path.join(core.SPECS, "poly")
DOMS = {"box": 1, "bds": 2, "oct": 3}
TYPES = ["mpq", "mpz", "i8", "i16", "i32", "i64", "flt", "dbl", "ldbl"]
SHAPE_OPS = ["new", "from_cs", "from_gs", "from_cgs", "copy_from", "assign", "swap", "conv_topo", "rebuild", "dumpload", "destroy",
             "constraints", "min_constraints", "congruences", "min_congruences", "space_dimension", "affine_dimension", "is_empty", "is_universe",
             "is_bounded", "is_discrete", "is_topologically_closed", "contains_integer_point", "constrains", "OK",
             "contains", "strictly_contains", "is_disjoint_from", "equals", "not_equals",
             "relation_with_constraint", "relation_with_congruence", "relation_with_generator",
             "bounds_from_above", "bounds_from_below", "maximize", "minimize", "maximize_pt", "minimize_pt", "frequency",
             "add_constraint", "refine_with_constraint", "add_constraints", "refine_with_constraints",
             "add_congruence", "refine_with_congruence", "add_congruences", "refine_with_congruences",
             "intersection", "poly_hull", "poly_difference", "time_elapse", "simplify_using_context", "hull_if_exact", "topological_closure",
             "affine_image", "affine_preimage", "gen_affine_image", "gen_affine_preimage", "bounded_affine_image", "bounded_affine_preimage",
             "gen_affine_image_lhs", "gen_affine_preimage_lhs",
             "add_dims_embed", "add_dims_project", "expand", "concatenate", "remove_dims", "remove_higher", "fold",
             "unconstrain", "unconstrain_set", "map_dims"]
OBS = set(polylib.OBSERVERS)
IMG_OPS = ["affine_image", "affine_preimage", "gen_affine_image", "gen_affine_preimage", "bounded_affine_image", "bounded_affine_preimage",
           "gen_affine_image_lhs", "gen_affine_preimage_lhs"]
DIM_OPS = ["add_dims_embed", "add_dims_project", "expand", "concatenate", "remove_dims", "remove_higher", "fold", "unconstrain", "unconstrain_set", "map_dims",
           "poly_difference", "hull_if_exact", "conv_topo", "poly_hull", "intersection"]
# recipe plans draw their TARGET operation from the plan's operation set (the state drivers are drawn from ShapeDrivers regardless):
# with CTOR_BASE every target is one of the plan's own operations
CTOR_BASE = ["from_cs", "from_gs", "new", "copy_from", "assign", "swap"]
IMG_BASE = ["from_cs", "from_gs", "new", "min_constraints", "is_empty", "contains", "equals", "constraints", "refine_with_constraint",
            "refine_with_constraints", "add_constraint", "copy_from", "assign", "swap"]


def build_all(combos):
    lib = core.build_lib()
    exes = {}

    def b(c):
        dom, ty = c
        exes[c] = core.build_harness("shape-%s-%s" % (dom, ty), ["shape.cc"], lib, flags="-DVDOM=%d -DVT=%s -I%s/interfaces" % (DOMS[dom], ty, core.REPO))
    with ThreadPoolExecutor(max_workers=max(2, core.NCPU - 2)) as ex:
        list(ex.map(b, combos))
    return exes


def owner(why):
    return "C15" if why.startswith("C15:") else "C03" if why.startswith("C03:") else "C08" if why.startswith("C08:") else "C17" if why.startswith("C17:") else "C04"


def run_shapes(run, prop, plans):
    """plans: list of dict(dom, ty, maxlen, maxdim, ill, coef, num, recipe, opset)."""
    exes = build_all(sorted({(p["dom"], p["ty"]) for p in plans}))
    opc = {}
    tot_ev = tot_und = 0
    gen_cache = {}
    for pl in plans:
        t0 = time.time()
        gk = (pl["dom"], pl["maxlen"], pl["maxdim"], pl["ill"], pl["coef"], pl["num"], pl.get("recipe", False), tuple(pl.get("opset") or SHAPE_OPS))
        if gk not in gen_cache:
            gen_cache[gk] = tracelib.gen_histories(run, SPEC, "PolyHist", polylib.hist_cfg(pl["maxlen"], pl["maxdim"], pl["ill"], pl["coef"], pl.get("opset") or SHAPE_OPS,
                                                                                           pl.get("recipe", False), shape=pl["dom"]), pl["num"], 2 * pl["maxlen"] + 2)
        progs = gen_cache[gk]
        t1 = time.time()
        executed = tracelib.execute(run, exes[(pl["dom"], pl["ty"])], progs, lambda p: polylib.flat(p, 100000), args=["20"])
        t2 = time.time()
        rej, und, nev, failed = tracelib.validate(run, SPEC, "ShapeTrace", os.path.join(SPEC, "ShapeTrace.cfg"), executed)
        tot_ev += nev
        tot_und += und + len(failed)
        for k, v in tracelib.op_stats(executed).items():
            opc[k] = opc.get(k, 0) + v
        core.log("%s<%s> dim<=%d len=%d%s: %d histories, %d events (gen %.1fs, exec %.1fs, validate %.1fs), rejected %d, undecided %d, tlc-failed %d" % (
            pl["dom"], pl["ty"], pl["maxdim"], pl["maxlen"], " recipe" if pl.get("recipe") else "", len(progs), nev, t1 - t0, t2 - t1, time.time() - t2, len(rej), und, len(failed)))
        run.cov["traces_validated_against_impl"] += len(executed) - len(failed)
        for prog, evs in executed[:1]:
            run.sample({"domain": pl["dom"], "type": pl["ty"], "history": [{k: v for k, v in o.items() if v not in ([], "", 0) or k in ("op", "dst")} for o in prog][:6]}, cap=6)
        for prog, evs in executed:
            for line in evs[1:]:
                if line.startswith('{"e":"Op"'):
                    i = line.find('"op":"')
                    op = line[i + 6:line.find('"', i + 6)]
                    run.note_case((pl["dom"], pl["ty"], op, '"rowbig":true' in line, '"exc":""' in line))
        for gi, msg in failed:
            core.log("  validator could not process a history (counted undecided): %s" % msg.replace("\n", " ")[-300:])
        for r in rej:
            why, op = r["why"], r["op"]
            if op in ("Crash", "Hang"):
                nops = sum(1 for l in r["events"][:r["index"]] if l.startswith('{"e":"Op"'))
                op = r["prog"][nops]["op"] if nops < len(r["prog"]) else "?"
            # a broken class invariant (OK() false) or a crash is reported by whichever check observes it
            if owner(why) != prop and not why.endswith(":OK()") and r["op"] not in ("Crash", "Hang") and not os.environ.get("VERIF_ALL"):
                continue
            ev = None
            try:
                ev = json.loads(r["events"][r["index"]])
            except Exception:
                pass
            shape = ""
            if ev and ev.get("e") == "Op" and op in ("affine_preimage", "affine_image"):
                v = ev.get("v") or []
                shape = "expression-mentions-the-variable" if ev["var"] + 1 < len(v) and v[ev["var"] + 1] != 0 else "expression-does-not-mention-the-variable"
            run.violation({"domain": pl["dom"], "type": pl["ty"], "op": op, "why": why, "shape": shape},
                          {"program": r["prog"], "event_index": r["index"], "event": ev, "why": why})
    run.cov["undecided"] += tot_und
    run.cov["events_validated"] = run.cov.get("events_validated", 0) + tot_ev
    run.cov["operations_exercised"] = {k: opc[k] for k in sorted(opc)}
